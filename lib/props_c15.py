# C15 entry for lib/props.py (same shape as PROPS["Cxx"] there):  PROPS["C15"] = PROPS_C15
def _R(workers, cases, **kw):
    d = {"workers": workers, "cases": cases}
    d.update(kw)
    return d


PROPS_C15 = {
    "binary": "c15_ice",
    "level": "exploration",
    "technique": "stateful property-based testing (rapidcheck) over real loopback UDP: (safety) one real QXmppIceConnection against a harness-played honest peer and a forging socket, history invariant over everything the agent emits between a state snapshot and a consumed marker datagram, with an authenticated-twin control arm; (liveness) two real agents negotiating through a lossy harness relay on real timers",
    "level_text": ("Safety: a real agent (controlling or controlled, component id 1/2/7/256, remote password of 6-70 characters, 0-2 remote candidates) is driven by a harness-played honest peer into one of six quiescent phases "
                   "(idle before connectToHost, started without candidates, all pairs in progress, all pairs failed by honest error replies, all checks answered, nominated). "
                   "Then 1-6 forged datagrams are sent from a known remote candidate's port or from a fresh port: binding request / success response / error response / indication "
                   "x {no MESSAGE-INTEGRITY, MI under an unrelated key, under the key with one bit flipped, under a proper prefix of the key, under the key plus one byte, MI truncated inside its value with the lengths made consistent, "
                   "a correct MI swallowed by the preceding attribute's length} x USE-CANDIDATE x USERNAME {receiver:sender, sender:receiver, wrong, absent} x role attribute {none, controlling, controlled, both} "
                   "x PRIORITY {absent, peer-reflexive, random, 0, max} x transaction id {random, equal to a check the agent has in flight, read from the wire} x FINGERPRINT. "
                   "The forged messages are produced by the harness's own STUN encoder (OpenSSL HMAC-SHA1, zlib CRC-32). A non-STUN marker on the same socket pair comes out of datagramReceived once the forged datagrams have been consumed. "
                   "Between the snapshot and the marker nothing may move: isConnected(), connected() of connection and component, 'ICE pair' log lines, and any datagram the agent sends to any harness socket other than a retransmission "
                   "of a request seen before the burst (a binding response, a triggered check, a check to a new address are reactions). "
                   "Second arm, chosen per case: the same burst re-sent under the right key (control: counts how often the state moves; the check fails its own design if it never does, and its prediction of which twins are live is cross-checked), "
                   "or the honest peer completes the negotiation without ever nominating and a controlled agent must stay unconnected while a controlling one connects exactly once (latent effects of the forged burst). "
                   "Liveness: two real agents with 1-3 loopback addresses each (127.0.0.1-3, ::1) x components {1},{2},{256},{1,2}, optional harness STUN server (server-reflexive candidates), roles proper / both controlling / both controlled, "
                   "permuted candidate order, second agent started 0-150 ms after the first, every datagram through a harness relay that drops a generated subset of the first up-to-6 (STUN datagrams only, until both agents are connected); both must emit connected(), "
                   "every advertised candidate priority and the PRIORITY of every relayed check must equal RFC 5245 4.1.2.1 computed in the harness, and 1-3 application datagrams of 1-1400 bytes each way per component must arrive unchanged (as a multiset; ordering is not promised)."),
    "level_note": ("Trusted: the harness STUN encoder / TLV reader, the honest-peer script and the relay in harness/c15_ice.cpp; Qt's QUdpSocket and event loop; loopback UDP delivering datagrams of one socket pair in order. "
                   "Each safety phase is constructed so that the agent's own timers can only retransmit requests already seen (no pair is left waiting), which is what makes 'nothing moved' decidable on real timers; "
                   "a lost marker ends the case as inconclusive (labelled), never as a violation. Liveness waits at most 12 s per negotiation (the library's own timer is 30 s); a timeout with correct roles is re-run once inside the case and only a "
                   "reproduced timeout is a violation. The sandbox has only the loopback interface: discoverAddresses() returns nothing, so agents are bound explicitly to 127.0.0.x/::1; there is no NAT, so peer-reflexive candidates arise only "
                   "from forged/fresh source ports (safety) and server-reflexive addresses equal host addresses; TURN-relayed candidates are not exercised. Not judged: USERNAME (an authenticated request with a wrong or absent USERNAME is answered - counted in the notes), "
                   "the unauthenticated STUN-server transaction path, and the non-STUN 'fallback pair' hint."),
    "rule": ("Non-trivial: safety - the burst contains a forged binding message that is acted upon when authenticated (request without role conflict, or response/error to a transaction in flight); "
             "liveness - at least one datagram dropped by the relay, or a role conflict. Distinct = (case configuration, burst description) resp. the negotiation parameters."),
    "assumptions": [
        "a party that knows the session password is not an attacker: requests authenticated with the right key but a wrong or absent USERNAME are outside the statement",
        "datagrams that are not STUN (wrong cookie or inconsistent length) are application data and may be delivered to the application",
        "candidates and credentials are exchanged completely before either agent starts (no trickle)",
    ],
    "subs": [
        # ~45 ms per case with 8-16 processes in parallel
        {"name": "c15.safety", "engine": "rapid", "quick": _R(4, 1500), "thorough": _R(8, 40000)},
        # ~0.4 s per connecting case; about 6 % of the cases are role conflicts that cost the full 12 s wait each
        {"name": "c15.liveness", "engine": "rapid", "quick": _R(12, 45, params={"case_timeout": 600}), "thorough": _R(16, 1500, params={"case_timeout": 600})},
    ],
}
