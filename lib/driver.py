#!/usr/bin/env python3
"""Driver for the /verif property checks (see DESIGN.md 1.3).

  ./check <ID> [--tier quick|thorough] [--seed N]      run the check of one property
  ./check <ID> --replay <file>                         replay one saved case (exit 1 if it still fails)
  ./check --setup                                      configure + build library and all harnesses
  ./check --list

Contract: exit 0 = property held on everything explored (KNOWN-FINDING lines may be printed);
exit 1 + "VIOLATION property=<id> replay=<path>" = reproducible violation not listed in
known_findings.json.  Evidence is rewritten on every run (evidence/<id>.json).
"""
import argparse
import concurrent.futures as cf
import fcntl
import glob
import hashlib
import json
import os
import re
import shutil
import struct
import subprocess
import sys
import time

ROOT = os.path.dirname(os.path.dirname(os.path.abspath(__file__)))
BUILD = os.environ.get("VERIF_BUILD", os.path.join(ROOT, ".build"))
EVIDENCE_DIR = os.environ.get("VERIF_EVIDENCE_DIR", os.path.join(ROOT, "evidence"))
REPLAY_DIR = os.environ.get("VERIF_REPLAY_DIR", os.path.join(ROOT, "replays"))
HB = os.path.join(BUILD, "h")
BIN = os.path.join(HB, "bin")
REPO = os.environ.get("VERIF_REPO", "/repo")
NCPU = os.cpu_count() or 4

sys.path.insert(0, os.path.join(ROOT, "lib"))
from props import PROPS  # noqa: E402


def log(*a):
    print(*a, file=sys.stderr, flush=True)


# ------------------------------------------------------------------ build
def build(targets):
    os.makedirs(BUILD, exist_ok=True)
    lock = open(os.path.join(BUILD, "lock"), "w")
    fcntl.flock(lock, fcntl.LOCK_EX)
    try:
        t0 = time.time()
        # always re-run cmake: picks up new harness files; cheap (≈1 s)
        stamp = os.path.join(HB, "build.ninja")
        need_cfg = not os.path.exists(stamp)
        srcs = sorted(glob.glob(os.path.join(ROOT, "harness", "c[0-9][0-9]_*.cpp")))
        lst = os.path.join(BUILD, "harness.list")
        cur = "\n".join(srcs) + "\nrepo=" + REPO
        old = open(lst).read() if os.path.exists(lst) else ""
        if cur != old:
            need_cfg = True
        if need_cfg:
            r = subprocess.run(["cmake", "-S", os.path.join(ROOT, "harness"), "-B", HB, "-G", "Ninja", "-DQXMPP_REPO=" + REPO],
                               stdout=subprocess.PIPE, stderr=subprocess.STDOUT, text=True)
            if r.returncode != 0:
                log(r.stdout[-4000:])
                log("BUILD-ERROR: cmake configure failed")
                return False
            open(lst, "w").write(cur)
        cmd = ["ninja", "-C", HB] + targets
        r = subprocess.run(cmd, stdout=subprocess.PIPE, stderr=subprocess.STDOUT, text=True)
        if r.returncode != 0:
            log(r.stdout[-8000:])
            log("BUILD-ERROR: ninja failed")
            return False
        log("build ok (%.1fs): %s" % (time.time() - t0, " ".join(targets) or "all"))
        return True
    finally:
        fcntl.flock(lock, fcntl.LOCK_UN)
        lock.close()


# ------------------------------------------------------------------ known findings
def load_known(pid):
    p = os.path.join(ROOT, "known_findings.json")
    if not os.path.exists(p):
        return []
    data = json.load(open(p))
    return [f for f in data.get("findings", []) if f.get("property") == pid and f.get("status") == "open"]


def sig_known(sig, known):
    for f in known:
        for k in f.get("signatures", []):
            if k == sig or re.fullmatch(".*".join(re.escape(part) for part in k.split("*")), sig, re.S):
                return f
    return None


# ------------------------------------------------------------------ running workers
def sub_seed(seed, sub, worker):
    h = int(hashlib.sha256(sub.encode()).hexdigest()[:8], 16)
    return (seed * 1000003 + h % 100000 + worker * 7919) % (2 ** 31 - 1) or 1


def run_worker(binary, sub, spec, seed, worker, outdir, knownfile, tier):
    engine = spec.get("engine", "rapid")
    cfg = spec[tier]
    cmd = [os.path.join(BIN, binary), "--sub", sub, "--engine", engine, "--seed", str(sub_seed(seed, sub, worker)),
           "--out", outdir, "--worker", str(worker), "--known", knownfile]
    if "max_seconds" in cfg:
        cmd += ["--max-seconds", str(cfg["max_seconds"])]
    cmd += ["--workers", str(cfg.get("workers", 1))]
    if os.environ.get("VERIF_COLLECT"):
        cmd += ["--collect"]
    for k, v in cfg.get("params", {}).items():
        cmd += ["--param", "%s=%s" % (k, v)]
    env = dict(os.environ)
    env["ASAN_OPTIONS"] = "detect_leaks=%d:abort_on_error=1:handle_abort=%d:allocator_may_return_null=1:detect_stack_use_after_return=0:malloc_context_size=4%s" % (
        1 if spec.get("leaks") else 0, 1 if engine == "fuzz" else 0, spec.get("asan_extra", ""))
    env["UBSAN_OPTIONS"] = "print_stacktrace=1:halt_on_error=1:abort_on_error=1"
    env["QT_LOGGING_RULES"] = "*.debug=false;*.info=false;*.warning=false"
    env["QT_FATAL_WARNINGS"] = "0"
    if spec.get("lsan_suppressions"):
        env["LSAN_OPTIONS"] = "suppressions=%s:print_suppressions=0" % os.path.join(ROOT, spec["lsan_suppressions"])
    artifact_prefix = os.path.join(outdir, "%s.%d.artifact-" % (sub, worker))
    if engine == "fuzz":
        corpus = os.path.join(outdir, "corpus.%s.%d" % (sub, worker))
        os.makedirs(corpus, exist_ok=True)
        seeds = os.path.join(ROOT, "corpus", sub)
        cmd += ["--cases", "0", "--", corpus]
        if os.path.isdir(seeds) and os.listdir(seeds):
            cmd += [seeds]
        cmd += ["-seed=%d" % sub_seed(seed, sub, worker), "-runs=%d" % cfg["runs"], "-max_len=%d" % spec.get("max_len", 4096),
                "-timeout=%d" % spec.get("timeout", 20), "-rss_limit_mb=%d" % spec.get("rss_limit_mb", 3000),
                "-entropic=0", "-print_final_stats=1", "-artifact_prefix=" + artifact_prefix, "-use_value_profile=1",
                "-len_control=%d" % spec.get("len_control", 50), "-reduce_inputs=1", "-close_fd_mask=0"]
        if "max_total_time" in cfg:
            cmd += ["-max_total_time=%d" % cfg["max_total_time"]]
        d = os.path.join(ROOT, "fixtures", spec.get("dict", "")) if spec.get("dict") else None
        if d and os.path.exists(d):
            cmd += ["-dict=" + d]
    else:
        cmd += ["--cases", str(cfg["cases"])]
    logf = os.path.join(outdir, "%s.%d.log" % (sub, worker))
    t0 = time.time()
    with open(logf, "w") as lf:
        try:
            r = subprocess.run(cmd, stdout=lf, stderr=subprocess.STDOUT, env=env, timeout=cfg.get("hard_timeout", 3600), cwd=outdir)
            rc = r.returncode
        except subprocess.TimeoutExpired:
            rc = -999
    return {"sub": sub, "worker": worker, "rc": rc, "log": logf, "wall": time.time() - t0, "engine": engine,
            "artifact_prefix": artifact_prefix, "cmd": cmd}


def replay_once(binary, path, knownfile, sub=None, leaks=False):
    cmd = [os.path.join(BIN, binary), "--replay", path, "--known", knownfile]
    if sub:
        cmd += ["--sub", sub]
    env = dict(os.environ)
    env["ASAN_OPTIONS"] = "detect_leaks=%d:abort_on_error=1:allocator_may_return_null=1:alloc_dealloc_mismatch=0" % (1 if leaks else 0)
    env["UBSAN_OPTIONS"] = "print_stacktrace=1:halt_on_error=1:abort_on_error=1"
    env["QT_LOGGING_RULES"] = "*.debug=false;*.info=false;*.warning=false"
    try:
        r = subprocess.run(cmd, stdout=subprocess.PIPE, stderr=subprocess.STDOUT, env=env, timeout=600, text=True, errors="replace")
        return r.returncode, r.stdout
    except subprocess.TimeoutExpired:
        return -999, "replay timed out"


def crash_signature(pid, sub, text):
    """Signature for sanitizer / assert crashes: kind + first frame inside the library."""
    kind = "crash"
    m = re.search(r"ERROR: AddressSanitizer: ([\w-]+)", text)
    if "VH-HANG" in text:
        return "%s hang (a case did not finish within the per-case time limit)" % sub
    if m:
        kind = "asan-" + m.group(1)
    elif "runtime error:" in text:
        m2 = re.search(r"runtime error: ([^\n]{0,60})", text)
        kind = "ubsan " + (re.sub(r"[0-9x]+", "N", m2.group(1)).strip() if m2 else "")
    elif "ASSERT" in text:
        m3 = re.search(r'ASSERT[^\n]*', text)
        kind = "assert " + (m3.group(0)[:80] if m3 else "")
    elif "terminate called" in text:
        m4 = re.search(r"terminate called after throwing an instance of '([^']+)'", text)
        kind = "exception " + (m4.group(1) if m4 else "")
    elif "LeakSanitizer" in text:
        kind = "leak"
    frame = ""
    for m in re.finditer(r"#\d+ 0x[0-9a-f]+ in (\S+) (\S+)", text):
        fn, loc = m.group(1), m.group(2)
        if "/src/base/" in loc or "/src/client/" in loc or "/src/server/" in loc:
            frame = fn + "@" + os.path.basename(loc).split(":")[0]
            break
    return ("%s crash %s %s" % (sub, kind, frame)).strip()


# ------------------------------------------------------------------ main check
def run_check(pid, tier, seed):
    P = PROPS[pid]
    t0 = time.time()
    if not build([P["binary"]]):
        print("BUILD-ERROR property=%s (harness or library does not build from %s)" % (pid, REPO))
        # a tree that does not compile is not a property violation; report as error exit 2
        return 2
    known = load_known(pid)
    outdir = os.path.join(BUILD, "out", pid + "." + tier)
    shutil.rmtree(outdir, ignore_errors=True)
    os.makedirs(outdir)
    knownfile = os.path.join(outdir, "known.txt")
    with open(knownfile, "w") as f:
        for k in known:
            for s in k.get("signatures", []):
                f.write(s + "\n")

    if P.get("seeds"):
        import seeds as seedmod
        docs = seedmod.harvest(REPO)
        seedfile = os.path.join(BUILD, "seeds.json")
        json.dump(docs, open(seedfile, "w"), ensure_ascii=False)
        os.environ["VERIF_SEEDS"] = seedfile
        log("harvested %d seed documents from %s/tests" % (len(docs), REPO))
    jobs = []
    for spec in P["subs"]:
        if tier not in spec:
            continue
        for w in range(spec[tier].get("workers", 1)):
            jobs.append((spec["name"], spec, w))
    results = []
    with cf.ThreadPoolExecutor(max_workers=NCPU) as ex:
        futs = [ex.submit(run_worker, P["binary"], n, spec, seed, w, outdir, knownfile, tier) for (n, spec, w) in jobs]
        for f in futs:
            results.append(f.result())

    # ---- merge
    evaluations = 0
    fps = set()
    labels = {}
    samples = []
    excluded = {}
    per_sub = {}
    notes = {}
    failures = []   # (sub, sig, msg, replay path, binary)
    collected_all = {}
    inconclusive = []
    specs = {s["name"]: s for s in P["subs"]}
    for r in results:
        base = os.path.join(outdir, "%s.%d" % (r["sub"], r["worker"]))
        st = None
        if os.path.exists(base + ".json"):
            try:
                st = json.load(open(base + ".json"))
            except Exception as e:  # noqa
                st = None
        ps = per_sub.setdefault(r["sub"], {"engine": r["engine"], "evaluations": 0, "workers": 0, "exhaustive": None, "truncated": False, "wall_s": 0.0})
        ps["workers"] += 1
        ps["wall_s"] = max(ps["wall_s"], round(r["wall"], 1))
        if st:
            evaluations += st["evaluations"]
            ps["evaluations"] += st["evaluations"]
            if st.get("truncated"):
                ps["truncated"] = True
                inconclusive.append("%s worker %d stopped at its wall-clock guard after %d cases" % (r["sub"], r["worker"], st["evaluations"]))
            if r["engine"] == "enum":
                ps["exhaustive"] = bool(st.get("exhaustive")) and (ps["exhaustive"] is not False)
            for k, v in st.get("labels", {}).items():
                labels[r["sub"] + ":" + k] = labels.get(r["sub"] + ":" + k, 0) + v
            for k, v in st.get("excluded_known", {}).items():
                excluded[k] = excluded.get(k, 0) + v
            for k, v in st.get("notes", {}).items():
                notes[r["sub"] + ":" + k] = v
            for s in st.get("samples", [])[: (4 if r["worker"] == 0 else 1)]:
                if len(samples) < 40:
                    samples.append({"sub": r["sub"], "case": s})
            if os.path.exists(base + ".fp"):
                raw = open(base + ".fp", "rb").read()
                h = int(hashlib.sha256(r["sub"].encode()).hexdigest()[:12], 16)
                for (v,) in struct.iter_unpack("<Q", raw[: len(raw) // 8 * 8]):
                    fps.add(v ^ h)
            for k, v in st.get("collected", {}).items():
                if k not in collected_all:
                    collected_all[k] = v
            if st.get("failure"):
                failures.append({"sub": r["sub"], "sig": st["failure"]["sig"], "msg": st["failure"]["msg"], "replay": st["failure"]["replay"]})
        text = ""
        try:
            text = open(r["log"], errors="replace").read()
        except Exception:  # noqa
            pass
        if r["engine"] == "fuzz":
            m = re.search(r"stat::number_of_executed_units:\s*(\d+)", text)
            if m and not st:
                evaluations += int(m.group(1))
                ps["evaluations"] += int(m.group(1))
            arts = glob.glob(r["artifact_prefix"] + "*")
            for a in arts:
                bn = os.path.basename(a)
                kind = bn.split("artifact-")[1].split("-")[0]
                if kind in ("crash", "leak"):
                    if st and st.get("failure"):
                        continue   # semantic failure already recorded with its own replay file
                    sig = crash_signature(pid, r["sub"], text)
                    failures.append({"sub": r["sub"], "sig": sig, "msg": text[-6000:], "replay": a, "raw": True})
                else:
                    inconclusive.append("%s: libFuzzer %s artifact (load noise unless reproducible)" % (r["sub"], kind))
        elif r["rc"] not in (0, 1) or (r["rc"] == 1 and not (st and st.get("failure"))):
            # crashed (sanitizer / assert / signal) outside the oracle
            crashfile = base + ".crash.replay"
            if r["rc"] == -999:
                inconclusive.append("%s worker %d exceeded the hard timeout" % (r["sub"], r["worker"]))
            elif os.path.exists(crashfile):
                sig = crash_signature(pid, r["sub"], text)
                failures.append({"sub": r["sub"], "sig": sig, "msg": text[-6000:], "replay": crashfile})
            else:
                sig = crash_signature(pid, r["sub"], text)
                failures.append({"sub": r["sub"], "sig": sig + " (no replay captured)", "msg": text[-6000:], "replay": r["log"], "noreplay": True})

    # ---- triage failures: known / reproducible / flaky
    violations = []
    flaky = []
    known_hits = dict(excluded)
    rdir = os.path.join(REPLAY_DIR, pid)
    seen_sigs = set()
    for f in failures:
        kf = sig_known(f["sig"], known)
        if not kf:
            if (f["sub"], f["sig"]) in seen_sigs:
                continue   # same failure class found by several workers: one report
            seen_sigs.add((f["sub"], f["sig"]))
        if kf:
            known_hits[f["sig"]] = known_hits.get(f["sig"], 0) + 1
            continue
        os.makedirs(rdir, exist_ok=True)
        tag = hashlib.sha256(f["sig"].encode()).hexdigest()[:10]
        dst = os.path.join(rdir, "%s-%s.replay" % (f["sub"], tag))
        if f.get("raw"):
            # wrap raw libFuzzer artifact into the textual replay format
            data = open(f["replay"], "rb").read()
            with open(dst, "w") as o:
                o.write("sub=%s\nsig=%s\nformat=bytes\nhex=%s\n" % (f["sub"], f["sig"], data.hex()))
                for line in f["msg"].splitlines()[-60:]:
                    o.write("# " + line + "\n")
        else:
            shutil.copyfile(f["replay"], dst)
        if f.get("noreplay"):
            violations.append((f, dst))
            continue
        fails = 0
        for _ in range(3):
            rc, out = replay_once(P["binary"], dst, knownfile, leaks=specs[f["sub"]].get("leaks", False))
            if rc != 0:
                fails += 1
        if fails == 3:
            violations.append((f, dst))
        else:
            flaky.append("%s: failure '%s' reproduced %d/3 times -> flaky-inconclusive" % (f["sub"], f["sig"], fails))
            os.replace(dst, dst + ".flaky")

    wall = time.time() - t0
    ev = {
        "property_id": pid,
        "tier": tier,
        "seed": seed,
        "level": P.get("level", "exploration"),
        "coverage": {
            "evaluations": evaluations,
            "distinct_nontrivial": len(fps),
            "rule": P["rule"],
            "samples": samples[:24] if samples else ["(no sample recorded)"],
            "per_sub_check": per_sub,
            "labels": labels,
            "excluded_known": excluded,
            "notes": notes,
            "inconclusive": inconclusive + flaky,
            "outcome": "violation" if violations else ("inconclusive-partial" if inconclusive else "held"),
        },
        "assumptions": P.get("assumptions", []),
        "wall_s": round(wall, 1),
        "violations": len(violations),
    }
    exh = [v["exhaustive"] for v in per_sub.values() if v["exhaustive"] is not None]
    if exh:
        ev["coverage"]["exhaustive"] = all(exh) and P.get("exhaustive_claim", False)
        ev["coverage"]["exhaustive_scope"] = P.get("exhaustive_scope", "")
    os.makedirs(EVIDENCE_DIR, exist_ok=True)
    with open(os.path.join(EVIDENCE_DIR, pid + ".json"), "w") as o:
        json.dump(ev, o, indent=1, ensure_ascii=False)
        o.write("\n")

    for k, v in sorted(collected_all.items()):
        print("COLLECTED sig=%s :: %s" % (k, v.replace("\n", " | ")[:700]))
    for k in known:
        hits = sum(v for s, v in known_hits.items() if sig_known(s, [k]))
        print("KNOWN-FINDING: property=%s %s [%s; seen %d times in this run]" % (pid, k["what"], k["id"], hits))
    for line in inconclusive + flaky:
        print("INCONCLUSIVE: property=%s %s" % (pid, line))
    print("SUMMARY property=%s tier=%s seed=%d evaluations=%d distinct_nontrivial=%d violations=%d wall=%.0fs" %
          (pid, tier, seed, evaluations, len(fps), len(violations), wall))
    for f, dst in violations:
        first = f["msg"].strip().splitlines()[0][:300] if f["msg"].strip() else ""
        print("DETAIL property=%s sub=%s sig=%s :: %s" % (pid, f["sub"], f["sig"], first))
        print("VIOLATION property=%s replay=%s" % (pid, dst))
    return 1 if violations else 0


def run_replay(pid, path):
    P = PROPS[pid]
    if not build([P["binary"]]):
        return 2
    known = load_known(pid)
    os.makedirs(os.path.join(BUILD, "out"), exist_ok=True)
    knownfile = os.path.join(BUILD, "out", "known.%s.replay.txt" % pid)
    with open(knownfile, "w") as f:
        for k in known:
            for s in k.get("signatures", []):
                f.write(s + "\n")
    if P.get("seeds"):
        seedfile = os.path.join(BUILD, "seeds.json")
        if not os.path.exists(seedfile):
            import seeds as seedmod
            json.dump(seedmod.harvest(REPO), open(seedfile, "w"), ensure_ascii=False)
        os.environ["VERIF_SEEDS"] = seedfile
    rc, out = replay_once(P["binary"], path, knownfile)
    sys.stdout.write(out)
    if rc != 0:
        print("VIOLATION property=%s replay=%s" % (pid, path))
        return 1
    return 0


def main():
    ap = argparse.ArgumentParser()
    ap.add_argument("pid", nargs="?")
    ap.add_argument("--tier", default=os.environ.get("VERIF_TIER", "quick"))
    ap.add_argument("--seed", type=int, default=None)
    ap.add_argument("--replay")
    ap.add_argument("--setup", action="store_true")
    ap.add_argument("--list", action="store_true")
    a = ap.parse_args()
    if a.list:
        for k, v in PROPS.items():
            print(k, v["binary"], " ".join(s["name"] for s in v["subs"]))
        return 0
    if a.setup:
        return 0 if build([]) else 2
    if a.pid not in PROPS:
        log("unknown property", a.pid)
        return 2
    seed = a.seed if a.seed is not None else int(os.environ.get("VERIF_SEED", "1") or 1)
    if a.replay:
        return run_replay(a.pid, a.replay)
    if a.tier not in ("quick", "thorough"):
        a.tier = "quick"
    return run_check(a.pid, a.tier, seed)


if __name__ == "__main__":
    sys.exit(main())
