#!/bin/sh
# usage: lib/mutant_iso.sh <patch.diff> <ID> [<ID>...]   (env TIER)
# Like mutant.sh but isolated: applies the patch in a scratch worktree of /repo's HEAD and builds into a scratch build
# directory, so /repo and /verif/.build are untouched and several mutants can be tested in parallel / in the background.
set -u
patch=$(readlink -f "$1"); shift
tag=$$
wt=/tmp/mw-$tag
bd=/root/scratch/mb-$tag
git -C /repo worktree add -q --detach "$wt" HEAD || exit 3
if ! git -C "$wt" apply "$patch"; then echo "MUTANT: patch does not apply"; git -C /repo worktree remove --force "$wt"; exit 3; fi
mkdir -p "$bd"
rc_all=0
for id in "$@"; do
  VERIF_REPO="$wt" VERIF_BUILD="$bd" VERIF_EVIDENCE_DIR="$bd/evidence" VERIF_REPLAY_DIR="$bd/replays" /verif/check "$id" --tier "${TIER:-quick}" > "$bd/$id.out" 2>&1
  rc=$?
  echo "MUTANT $(basename $(dirname "$patch"))/$(basename "$patch") check=$id exit=$rc"
  grep -E "^(VIOLATION|DETAIL|SUMMARY|BUILD-ERROR)" "$bd/$id.out" | cut -c1-400 | head -8
  [ $rc -ne 0 ] && rc_all=1
done
git -C /repo worktree remove --force "$wt"
rm -rf "$bd"
exit $rc_all
