# C16 entry for lib/props.py (same shape as PROPS["Cxx"] there):  PROPS["C16"] = PROPS_C16
def _R(workers, cases, **kw):
    d = {"workers": workers, "cases": cases}
    d.update(kw)
    return d


PROPS_C16 = {
    "binary": "c16_server",
    "level": "exploration",
    "technique": "stateful model-based property testing (rapidcheck) over real loopback TCP: a real QXmppServer with a harness password checker whose asynchronous replies are released on a generated schedule, a scripted honest victim and a scripted attacker on raw sockets; reference model of 'whom did the checker approve on this connection' plus history invariants over every byte each peer receives and over QXmppServer::clientConnected; each case runs in a forked child so that a server crash is an ordinary, shrinkable failure",
    "level_text": ("One QXmppServer (example.org, no certificate, so no STARTTLS) per case on 127.0.0.1 with a password checker that knows alice/wonderland and victim/v1ctim and keeps every checkPassword / getDigest reply pending; "
                   "each reply is released automatically after 0, 1 or 3 event-loop turns or by hand between script steps in a generated order, at the end of the script or never, occasionally as TemporaryError. "
                   "The victim logs in honestly (PLAIN, binds 'home') and then only listens. The attacker plays up to 12 TCP writes of 1-3 elements over: stream open with the right / a wrong / no domain (restarts included), "
                   "SASL <auth/> and SASL 2 <authenticate/> (with and without bind2) x mechanism {PLAIN, DIGEST-MD5, ANONYMOUS, unknown, empty, SCRAM-SHA-1} x credentials {alice right, alice wrong, text that is not base64, victim's name with a wrong password, "
                   "empty, unknown user, authzid=victim with alice's credentials, two-field PLAIN, '='}, <response/> in both namespaces with or without a preceding auth {DIGEST-MD5 response computed from the server's last nonce for alice right / alice wrong / "
                   "victim wrong / victim's name under alice's secret / unknown user, empty, garbage, PLAIN credentials}, <abort/> in both namespaces, bind {no resource, '', 'home' (the victim's), 'x'}, session, "
                   "message / presence / presence subscribe / iq get / set / result with from in {absent, own full, own bare, own with another resource, victim full, victim bare, '', stranger, the address the server last assigned} and to in {victim bare, victim full, server, absent, alice bare}; "
                   "stanzas, bind and session before, during and after authentication, a second auth while the first is pending at the checker, stream restarts and aborts while a check is pending. "
                   "Model: approved = users for which the checker released an approval of exactly the (user, password) asked on the attacker connection, or released the user's digest while the script has sent a DIGEST-MD5 response computed from that user's true password (only alice can qualify). "
                   "Invariants: (1) everything the victim receives after its login stems from the attacker connection and is allowed only if approved is non-empty and its from is the approved bare JID or a full JID the server bound for it; "
                   "(2) while approved is empty the attacker receives only stream header / features / errors and SASL challenge / failure (no success, no bind result, no IQ reply, no routed stanza); "
                   "(3) <success/> only with an approval, and every address the server assigns to the attacker (SASL 2 authorization-identifier, bind result, 'to' of replies) has an approved bare JID; "
                   "(4) clientConnected(jid) after the victim's login only for an approved bare JID; (5) the victim's connection is neither replaced nor closed; (6) no input and no late checker reply crashes the server."),
    "level_note": ("Trusted: the raw-socket peers, the DIGEST-MD5 client computation (QCryptographicHash MD5), the stream splitter (QDomDocument) and the model in harness/c16_server.cpp; Qt's sockets and event loop. "
                   "Quiescence after each write = four consecutive event-loop passes that dispatched nothing, with TCP_NODELAY on all four socket ends; approvals are never withdrawn, so a byte that arrives late is judged against a model that is at least as permissive: lateness can hide a violation, never create one. "
                   "The model is deliberately lenient where the statement is silent: an approval survives <abort/> and stream restarts, approval by DIGEST-MD5 is granted as soon as the digest is released and a correct response has been sent (not only after the final empty response), "
                   "any full JID the server ever bound for the approved user is an acceptable from, a server that ignores the PLAIN authzid is accepted. "
                   "Failure signatures carry the class of the offending address (empty, resource-only, empty-user, victim-bare/full, stranger, alice-before-approval, alice-unbound-resource) and, for delivered stanzas, whether the from was stamped by the server or supplied by the sender and let through, "
                   "so that the recorded defects (routing for unauthenticated connections; a checker reply applied to whichever SASL exchange is current) do not mask a missing legitimacy check. "
                   "A crash is observed in the forked child and reported with the sanitizer / assertion text; Q_ASSERT is live in the verification build (QT_FORCE_ASSERTS), in a release build the same paths dereference an empty std::optional."),
    "rule": "Non-trivial: the script sends a stanza, bind or session while nobody is approved on the connection, or sends an auth while a checker reply is still pending (two overlapping attempts), or sends a stanza whose from is not its own address. Distinct = (script text, checker schedule).",
    "assumptions": ["the attacker never knows the victim's password; the password checker is honest (approves exactly alice/wonderland and victim/v1ctim, hands out exactly their MD5 digests) but arbitrarily slow and reordering",
                    "plain TCP only: the server is run without a certificate, so channel security is out of scope here",
                    "no server extensions are loaded (QXmppServer without plugins): roster / presence / vCard handling by extensions is not exercised",
                    "server-to-server routing is not listening; stanzas to foreign domains are not exercised"],
    "subs": [
        {"name": "c16.server", "engine": "rapid", "quick": _R(8, 2500), "thorough": _R(16, 30000)},
    ],
}
