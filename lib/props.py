"""Per-property run configuration: sub-checks, engines, budgets per tier, evidence texts."""

def R(workers, cases, **kw):
    d = {"workers": workers, "cases": cases}
    d.update(kw)
    return d

def F(workers, runs, **kw):
    d = {"workers": workers, "runs": runs}
    d.update(kw)
    return d

PROPS = {}

PROPS["C14"] = {
    "binary": "c14_stun",
    "level": "exploration",
    "technique": "property-based testing (rapidcheck) with round-trip and differential oracles (OpenSSL HMAC, zlib CRC) + exhaustive single-bit tampering per generated message + coverage-guided fuzzing (libFuzzer) of the decoder",
    "level_text": ("Generated-input search: ~10^6 cases per quick run (10^8 thorough) over all codec attributes, key lengths 0..300 and fingerprint on/off; "
                   "every case is judged by an independent oracle (OpenSSL/zlib recomputation from the wire bytes, field-by-field round trip, exhaustive 1-bit tamper set). "
                   "Sampling, not proof: absence of violations is only established for the cases explored."),
    "level_note": "Trusted: OpenSSL libcrypto HMAC/SHA1/MD5, zlib crc32, the harness's own TLV walker used to locate MESSAGE-INTEGRITY/FINGERPRINT in encodings it produced; sanitizers (ASan+UBSan) and Q_ASSERT are part of the oracle.",
    "rule": ("rapidcheck choice-tapes decoded into STUN messages over every attribute the codec knows x key length 0..300 x fingerprint on/off "
             "(c14.roundtrip, c14.tamper), (key,text) pairs (c14.hmac), corrupted encodings and raw bytes (c14.decode; also libFuzzer, coverage-guided). "
             "Oracles: decode(encode(m)) field identity and byte-identical re-encode; MESSAGE-INTEGRITY == OpenSSL HMAC-SHA1 and FINGERPRINT == zlib crc32^0x5354554e "
             "recomputed independently from the bytes; every single-bit flip of header+attributes+HMAC and 3-4 HMAC-inequivalent keys must be rejected. "
             "Non-trivial: message has >=3 attributes or key length outside 1..64 (roundtrip), text>64B or key outside 1..64 (hmac), every message with MI (tamper), "
             "every input the decoder accepts (decode). Distinct = fingerprint of attribute set+values description, key length, fingerprint flag / input bytes."),
    "assumptions": [
        "OpenSSL 3 HMAC and zlib crc32 are correct reference implementations",
        "keys that RFC 2104 maps to the same block (zero padding, hashing of long keys) are the same key and are not used as 'another key'",
        "bit flips inside the 4-byte type/length header of the MESSAGE-INTEGRITY attribute itself are outside 'protected bytes' (only required not to crash)",
    ],
    "subs": [
        {"name": "c14.roundtrip", "engine": "rapid", "quick": R(4, 50000), "thorough": R(8, 1500000)},
        {"name": "c14.hmac", "engine": "rapid", "quick": R(2, 50000), "thorough": R(2, 1000000)},
        {"name": "c14.tamper", "engine": "rapid", "quick": R(5, 600), "thorough": R(16, 20000)},
        {"name": "c14.decode", "engine": "rapid", "quick": R(2, 50000), "thorough": R(4, 1000000)},
        {"name": "c14.decode", "engine": "fuzz", "max_len": 4200, "quick": F(3, 150000), "thorough": F(8, 20000000, max_total_time=900)},
    ],
}

PROPS["C13"] = {
    "binary": "c13_task",
    "level": "exploration",
    "technique": "model-based property testing: exhaustive small-scope enumeration of operation sequences (odometer over choice points) plus rapidcheck random sequences, against a reference model of the documented task/promise semantics; instance-balance oracle for release",
    "level_text": ("Every operation sequence of the bounded alphabet up to the stated length is executed against the real QXmppPromise/QXmppTask for void, copyable and move-only results "
                   "and compared with a reference model after every step (run counts, received value identity, isFinished/hasResult) and at the end (all tracked values and closures destroyed); "
                   "longer random sequences over a larger alphabet (3 task copies, promise copies, nested finish of a second promise) are sampled. Exhaustive only within the bound."),
    "level_note": "Trusted: the reference model in harness/c13_task.cpp (written from the documentation in QXmppTask.h); ASan/UBSan. Excluded by stated assumption: destroying the very task/promise object whose member function is executing, and the reference cycle of a task captured in its own continuation on a promise that is never finished.",
    "rule": ("enum: all sequences of exactly `len` steps over {then(task copy, ctx, in-continuation action, self-capture), finish, destroyCtx, copy/drop task, copy/drop promise, takeResult} "
             "with 2 task copies, 2 contexts, 4 in-continuation actions; rapid: random sequences up to 20 steps with 3 task copies, 6 actions incl. finishing a second promise from inside. "
             "Non-trivial: history has >=1 then and a finish plus one of {context destroyed before finish, re-entrant action executed, >1 copy of task/promise}. Distinct = hash of the executed operation log."),
    "assumptions": [
        "finish() is called at most once per promise (asserted by the library itself)",
        "the context passed to then() is alive at registration time",
        "a continuation never destroys the task/promise object whose then()/finish() call is executing it",
        "a task captured in its own continuation on a promise that is never finished is a user-made cycle and is not judged",
    ],
    "exhaustive_claim": True,
    "exhaustive_scope": "c13.enum: all choice paths for sequences of `len` steps (len=4 quick, 5 thorough) x 3 result types",
    "subs": [
        {"name": "c13.enum", "engine": "enum", "quick": {"workers": 12, "cases": 0, "params": {"len": 4, "partition_depth": 3}, "max_seconds": 200},
         "thorough": {"workers": 16, "cases": 0, "params": {"len": 5, "partition_depth": 3}, "max_seconds": 2400}},
        {"name": "c13.random", "engine": "rapid", "quick": R(4, 60000), "thorough": R(8, 3000000)},
    ],
}
