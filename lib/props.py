"""Per-property run configuration: sub-checks, engines, budgets per tier, evidence texts."""

def R(workers, cases, **kw):
    d = {"workers": workers, "cases": cases}
    d.update(kw)
    return d

def F(workers, runs, **kw):
    d = {"workers": workers, "runs": runs}
    d.update(kw)
    return d

PROPS = {}

PROPS["C14"] = {
    "binary": "c14_stun",
    "level": "exploration",
    "technique": "property-based testing (rapidcheck) with round-trip and differential oracles (OpenSSL HMAC, zlib CRC) + exhaustive single-bit tampering per generated message + coverage-guided fuzzing (libFuzzer) of the decoder",
    "level_text": ("Generated-input search: ~10^6 cases per quick run (10^8 thorough) over all codec attributes, key lengths 0..300 and fingerprint on/off; "
                   "every case is judged by an independent oracle (OpenSSL/zlib recomputation from the wire bytes, field-by-field round trip, exhaustive 1-bit tamper set). "
                   "Sampling, not proof: absence of violations is only established for the cases explored."),
    "level_note": "Trusted: OpenSSL libcrypto HMAC/SHA1/MD5, zlib crc32, the harness's own TLV walker used to locate MESSAGE-INTEGRITY/FINGERPRINT in encodings it produced; sanitizers (ASan+UBSan) and Q_ASSERT are part of the oracle.",
    "rule": ("rapidcheck choice-tapes decoded into STUN messages over every attribute the codec knows x key length 0..300 x fingerprint on/off "
             "(c14.roundtrip, c14.tamper), (key,text) pairs (c14.hmac), corrupted encodings and raw bytes (c14.decode; also libFuzzer, coverage-guided). "
             "Oracles: decode(encode(m)) field identity and byte-identical re-encode; MESSAGE-INTEGRITY == OpenSSL HMAC-SHA1 and FINGERPRINT == zlib crc32^0x5354554e "
             "recomputed independently from the bytes; every single-bit flip of header+attributes+HMAC and 3-4 HMAC-inequivalent keys must be rejected. "
             "Non-trivial: message has >=3 attributes or key length outside 1..64 (roundtrip), text>64B or key outside 1..64 (hmac), every message with MI (tamper), "
             "every input the decoder accepts (decode). Distinct = fingerprint of attribute set+values description, key length, fingerprint flag / input bytes."),
    "assumptions": [
        "OpenSSL 3 HMAC and zlib crc32 are correct reference implementations",
        "keys that RFC 2104 maps to the same block (zero padding, hashing of long keys) are the same key and are not used as 'another key'",
        "bit flips inside the 4-byte type/length header of the MESSAGE-INTEGRITY attribute itself are outside 'protected bytes' (only required not to crash)",
    ],
    "subs": [
        {"name": "c14.roundtrip", "engine": "rapid", "quick": R(4, 50000), "thorough": R(8, 1500000)},
        {"name": "c14.hmac", "engine": "rapid", "quick": R(2, 50000), "thorough": R(2, 1000000)},
        {"name": "c14.tamper", "engine": "rapid", "quick": R(5, 600), "thorough": R(16, 20000)},
        {"name": "c14.decode", "engine": "rapid", "quick": R(2, 50000), "thorough": R(4, 1000000)},
        {"name": "c14.decode", "engine": "fuzz", "max_len": 4200, "quick": F(3, 150000), "thorough": F(8, 20000000, max_total_time=900)},
    ],
}

PROPS["C13"] = {
    "binary": "c13_task",
    "level": "exploration",
    "technique": "model-based property testing: exhaustive small-scope enumeration of operation sequences (odometer over choice points) plus rapidcheck random sequences, against a reference model of the documented task/promise semantics; instance-balance oracle for release",
    "level_text": ("Every operation sequence of the bounded alphabet up to the stated length is executed against the real QXmppPromise/QXmppTask for void, copyable and move-only results "
                   "and compared with a reference model after every step (run counts, received value identity, isFinished/hasResult) and at the end (all tracked values and closures destroyed); "
                   "longer random sequences over a larger alphabet (3 task copies, promise copies, nested finish of a second promise) are sampled. Exhaustive only within the bound."),
    "level_note": "Trusted: the reference model in harness/c13_task.cpp (written from the documentation in QXmppTask.h); ASan/UBSan. Excluded by stated assumption: destroying the very task/promise object whose member function is executing, and the reference cycle of a task captured in its own continuation on a promise that is never finished.",
    "rule": ("enum: all sequences of exactly `len` steps over {then(task copy, ctx, in-continuation action, self-capture), finish, destroyCtx, copy/drop task, copy/drop promise, takeResult} "
             "with 2 task copies, 2 contexts, 4 in-continuation actions; rapid: random sequences up to 20 steps with 3 task copies, 6 actions incl. finishing a second promise from inside. "
             "Non-trivial: history has >=1 then and a finish plus one of {context destroyed before finish, re-entrant action executed, >1 copy of task/promise}. Distinct = hash of the executed operation log."),
    "assumptions": [
        "finish() is called at most once per promise (asserted by the library itself)",
        "the context passed to then() is alive at registration time",
        "a continuation never destroys the task/promise object whose then()/finish() call is executing it",
        "a task captured in its own continuation on a promise that is never finished is a user-made cycle and is not judged",
    ],
    "exhaustive_claim": True,
    "exhaustive_scope": "c13.enum: all choice paths for sequences of `len` steps (len=4 quick, 5 thorough) x 3 result types",
    "subs": [
        {"name": "c13.enum", "engine": "enum", "quick": {"workers": 12, "cases": 0, "params": {"len": 4, "partition_depth": 3}, "max_seconds": 200},
         "thorough": {"workers": 16, "cases": 0, "params": {"len": 5, "partition_depth": 3}, "max_seconds": 2400}},
        {"name": "c13.random", "engine": "rapid", "quick": R(4, 60000), "thorough": R(8, 3000000)},
    ],
}

PROPS["C17"] = {
    "binary": "c17_sce",
    "level": "exploration",
    "technique": "property-based testing (rapidcheck): token-tagged generated messages over all known extension subsets; leak / partition / recovery oracles on the public, sensitive and combined serialisations",
    "level_text": ("Generated messages over every subset shape (singletons, pairs, random halves, all) of the 34 known message extensions with unique attributable tokens in every text-bearing value; "
                   "each case is split exactly as the encrypted send/receive paths do it and judged by three oracles (no sensitive token or non-allow-listed element in the public part; "
                   "multiset partition public+sensitive==combined; recovery through parse(public)+parseExtensions(sensitive) gives the same getters). Sampling, not proof."),
    "level_note": "Trusted: harness allow-list of public elements derived from the statement (routing attributes, addresses, hints, stanza/origin ids, MIX user info, EME, carbons private, fallback markers, explicit fallback body); generator covers the extensions compiled into this build (OMEMO element not built). The application-supplied list of unknown extension elements is kept empty (written verbatim in every mode by design).",
    "rule": ("rapidcheck tape -> QXmppMessage with a subset of 34 extensions (shape: p=1/4 each | singleton | pair | all | p=1/2 each), all strings replaced by unique tokens TOK<n>x<ext>q. "
             "Non-trivial: at least one sensitive and one public extension present (c17.split), at least one extension (c17.client). Distinct = presence mask."),
    "assumptions": [
        "unknown extension elements supplied through setExtensions() are outside the domain (the property quantifies over the known extensions)",
        "explicit fallback markers and the explicit e2ee fallback body accompany both parts by definition and are excluded from the partition/recovery comparison",
    ],
    "subs": [
        {"name": "c17.split", "engine": "rapid", "quick": R(6, 25000), "thorough": R(16, 1000000)},
        {"name": "c17.client", "engine": "rapid", "quick": R(2, 10000), "thorough": R(4, 300000)},
    ],
}

PROPS["C02"] = {
    "binary": "c02_parse",
    "seeds": True,
    "level": "exploration",
    "technique": "structure-aware mutation fuzzing: rapidcheck and coverage-guided libFuzzer drive the same choice tape (seed document + DOM-level mutation operators); oracles: sanitizers/asserts, independent well-formedness check, parse/serialise fixpoint, heap-fill differential for uninitialised members",
    "level_text": ("Every generated element (seed from the repository's tests x 0-5 structural/value mutations, root or descendant) is handed to every registered parser (148 classes) whose own type check admits it and to the parsers without a type check, "
                   "to QXmppMessage in all three SCE modes, and to a connected client with every bundled manager installed; ASan+UBSan+Q_ASSERT detect crashes/UB, two XML parsers judge well-formedness of all output, one more parse/serialise pass must reproduce the document, "
                   "and a 0x00/0xFF heap-fill differential exposes uninitialised members. Coverage-guided search plus random search; sampling, not proof; resource bound = per-input timeout/RSS limits."),
    "level_note": "Trusted: Qt's QDomDocument and QXmlStreamReader as the two well-formedness judges; the codec registry (harness/common/codec_registry.h) applying each class's own type check as the library's dispatch does; gcc trace-pc hashed coverage for libFuzzer. 'Same document' is judged as XML infoset (namespace-resolved, attribute-order free, sibling order kept).",
    "rule": ("choice tape -> (seed index among the XML documents harvested from /repo/tests, k in 0..5 mutations from {delete/duplicate/swap child, splice foreign subtree, re-namespace, rename, drop/hostile/add attribute, hostile text, empty, nest 2^k deep, replace}, target = root or descendant). "
             "Non-trivial: at least one mutation applied (the element differs from every seed); distinct = hash of the mutated document + target name. Per-codec acceptance counts are in labels."),
    "assumptions": [
        "inputs are well-formed XML elements (the mutator produces them by construction; malformed ones are counted and skipped)",
        "managers that would open network connections to peer-chosen addresses are configured not to (transfer manager in-band only)",
        "LeakSanitizer is off (Qt process-lifetime singletons)",
    ],
    "subs": [
        {"name": "c02.parsers", "engine": "rapid", "asan_extra": ":alloc_dealloc_mismatch=0", "quick": R(6, 1200), "thorough": R(8, 400000)},
        {"name": "c02.parsers", "engine": "fuzz", "asan_extra": ":alloc_dealloc_mismatch=0", "max_len": 1200, "timeout": 30, "len_control": 20, "quick": F(4, 2500), "thorough": F(8, 3000000, max_total_time=1200)},
        {"name": "c02.sweep", "engine": "enum", "asan_extra": ":alloc_dealloc_mismatch=0", "quick": {"workers": 8, "cases": 0, "params": {"partition_depth": 1}, "max_seconds": 300},
         "thorough": {"workers": 8, "cases": 0, "params": {"partition_depth": 1}, "max_seconds": 1500}},
        {"name": "c02.sweep-structure", "engine": "enum", "asan_extra": ":alloc_dealloc_mismatch=0", "quick": {"workers": 8, "cases": 0, "params": {"partition_depth": 1}, "max_seconds": 400},
         "thorough": {"workers": 8, "cases": 0, "params": {"partition_depth": 1}, "max_seconds": 1500}},
        {"name": "c02.message-modes", "engine": "rapid", "asan_extra": ":alloc_dealloc_mismatch=0", "quick": R(2, 1200), "thorough": R(4, 400000)},
        {"name": "c02.client", "engine": "rapid", "asan_extra": ":alloc_dealloc_mismatch=0", "quick": R(2, 2000), "thorough": R(8, 200000)},
        {"name": "c02.uninit", "engine": "rapid", "asan_extra": ":alloc_dealloc_mismatch=0", "quick": R(2, 500), "thorough": R(4, 200000)},
    ],
}

PROPS["C01"] = {
    "binary": "c01_codec",
    "seeds": True,
    "level": "exploration",
    "technique": "property-based testing (rapidcheck): object-first round trip (generated object -> XML -> fresh object) with getter-by-getter comparison, re-serialisation comparison and structure lock against a benign twin built from the same choice tape; document-first metamorphic value substitution over all registered codecs (free-text positions discovered by probe tokens)",
    "level_text": ("Generated objects are serialised, re-parsed by the class's own parser into a fresh object and compared getter by getter; the re-parsed object must serialise to the same XML (up to sibling order); the output must be well-formed and its element skeleton must not depend on the string values (a twin built from the same tape with every free-text value replaced by a short marker has the same skeleton). "
                   "c01.message: QXmppMessage with any subset of its 34 extensions. c01.objects: the classes of the object-first tables in harness/common/objgen_*.h (evidence lists them under labels class:<name>), every optional field present/absent by a tape choice, integers at their type bounds, date-times with and without milliseconds. "
                   "c01.docs: a document from the repository's tests (or a descendant element) x every registered codec that admits it (148 classes) x one attribute or text position: the position is free text for the codec when two probe tokens full of JID/URI/list punctuation, mixed case and inner blanks come back verbatim; "
                   "a hard value substituted there must come back intact wherever the probe appeared, leave the skeleton unchanged, keep the output well-formed and keep it a parse/serialise fixpoint if the probe document was one. "
                   "c01.element: a generated element tree (un-prefixed elements whose default namespace switches among four URIs, also back to an ancestor's; hard attribute values and text) copied by QXmppElement or carried as an unknown child of a message / presence / iq (which declares jabber:client itself or inherits it) must be written back as the same XML infoset. Sampling, not proof."),
    "level_note": "Trusted: the field tables/generators in harness/common/msggen.h and objgen_*.h (written from the headers and the codecs' documented domains), Qt's XML parsers. Strings are non-blank at their edges in the Unicode sense (QChar::isSpace), a literal CR is not generated in text content (XML end-of-line normalisation), U+0000 and other XML-illegal code points never. Classes without a table are not covered by C01 (C02 still runs every registered codec on the repository's documents).",
    "rule": ("choice tape -> object (presence choices x values from G-str: markup metacharacters, quotes, Latin-1/Greek/CJK/combining/RTL/private-use/astral, attribute values also with TAB/LF/CR; typed values at bounds); c01.message: non-trivial = >=1 extension present and >=1 value outside [A-Za-z0-9]; distinct = (presence mask, value classes). "
             "c01.objects: non-trivial = the object serialises to something; distinct = (class, getter dump). "
             "c01.docs: non-trivial = at least one codec treats the position as free text and the value has a character outside [A-Za-z0-9]; distinct = (document, position, value class, number of codecs). c01.element: every case; distinct = the generated document."),
    "assumptions": [
        "fields documented as not serialised in the default mode (e2eeFallbackBody, E2EE metadata) are excluded",
        "XHTML-IM body is generated as well-formed XHTML only (documented raw write) and is exempt from hard values",
        "sets (reaction emojis) are compared as sets",
    ],
    "subs": [
        {"name": "c01.message", "engine": "rapid", "quick": R(6, 12000), "thorough": R(16, 1500000)},
        {"name": "c01.objects", "engine": "rapid", "quick": R(6, 20000), "thorough": R(16, 1500000)},
        {"name": "c01.docs", "engine": "rapid", "quick": R(8, 8000), "thorough": R(16, 150000)},
        {"name": "c01.element", "engine": "rapid", "quick": R(4, 10000), "thorough": R(16, 500000)},
    ],
}

PROPS["C05"] = {
    "binary": "c05_mech",
    "level": "exploration",
    "technique": "exhaustive enumeration of the finite core configuration space (odometer over choice points) plus rapidcheck sampling of permutations/duplicates/garbled names, against a reference function written from the statement",
    "level_text": ("The core space offered-subset(10 names) x disabled-subset(5) x preferred(12) x password x stored token(4) x protocol(4: SASL1, SASL2, SASL2+FAST, SASL2 with FAST disabled) is enumerated completely in the thorough tier (1.26e7 cases) "
                   "and for all offered subsets of size <=3 in the quick tier; random cases add orderings, duplicates, unknown/garbled names, legacy X-* mechanisms and the default configuration. "
                   "Each case drives the real SaslManager/Sasl2Manager and compares the mechanism of the first packet (or the reported mismatch and an empty wire) with the reference function."),
    "level_note": "Trusted: the reference function in harness/c05_mech.cpp (written from the statement: token(by hash) > SCRAM(SHA3-512>512>256>1) > DIGEST-MD5 > PLAIN > ANONYMOUS; preferred wins if usable; legacy X-* mechanisms have no stated rank so only 'chosen is usable and not disabled' is required when one of them is usable).",
    "rule": ("enum: every combination of the core space (see level text); rapid: core case + up to 3 inserted junk/duplicate names, shuffled order, default-disabled list, Google token. "
             "Non-trivial: >=2 usable mechanisms, or a preferred mechanism set, or the strongest offered mechanism is disabled. Distinct = the full case description."),
    "assumptions": [
        "token mechanisms with channel binding (HT-*-ENDP/UNIQ/EXPR) are 'not supported' by this client and therefore never usable",
        "in SASL 2 the token mechanisms are offered inside the FAST feature; with FAST disabled in the configuration (or no user agent) they are not on offer",
    ],
    "exhaustive_claim": True,
    "exhaustive_scope": "c05.enum: quick = all offered subsets of size <=3 of the 10 core names x all other dimensions; thorough = the whole core space",
    "subs": [
        {"name": "c05.enum", "engine": "enum", "quick": {"workers": 12, "cases": 0, "params": {"max_offered": 3, "partition_depth": 6}, "max_seconds": 200},
         "thorough": {"workers": 16, "cases": 0, "params": {"max_offered": -1, "partition_depth": 6}, "max_seconds": 3000}},
        {"name": "c05.random", "engine": "rapid", "quick": R(4, 30000), "thorough": R(8, 3000000)},
    ],
}

PROPS["C20"] = {
    "binary": "c20_caps",
    "level": "exploration",
    "technique": "property-based testing (rapidcheck): differential against an independent XEP-0115 5.1 implementation (octet ordering, OpenSSL SHA-1) plus metamorphic relations (permutation/repetition invariance, single-change sensitivity); client-level check of advertised ver vs. disco#info reply",
    "level_text": ("Generated info sets (0-4 identities incl. empty lang/name, non-ASCII and astral vs private-use characters; 0-40 features with duplicates, shared prefixes and case variants; optional FORM_TYPE form with single- and multi-valued fields) are hashed by the library and by an independent reference; "
                   "each case is re-evaluated under 4 random permutations with feature repetition and one single-item change. A second check builds clients with random extension sets/identity/info form and compares the ver advertised in presence with the reference hash of the client's own disco#info reply for node#ver."),
    "level_note": "Trusted: the reference implementation in harness/c20_caps.cpp (written from XEP-0115 5.1), OpenSSL SHA-1. '<' is excluded from all values (XEP-0115 5.4 declares such input ill-formed); identities are distinct and form fields uniquely keyed and non-empty (duplicates are ill-formed per 5.4).",
    "rule": "Non-trivial: >=2 identities, or a duplicated feature, or a multi-valued field with >=2 values (c20.hash); every client configuration (c20.client). Distinct = description of the info set / (extension set, ver).",
    "assumptions": ["values contain no '<'", "form fields have at least one value and unique keys", "a single extension form (the library supports one)"],
    "subs": [
        {"name": "c20.hash", "engine": "rapid", "quick": R(6, 100000), "thorough": R(16, 1000000)},
        {"name": "c20.client", "engine": "rapid", "quick": R(3, 10000), "thorough": R(8, 100000)},
    ],
}

PROPS["C06"] = {
    "binary": "c06_sasl",
    "level": "exploration",
    "technique": "property-based testing (rapidcheck): differential against an independent RFC 5802/7677, RFC 2831, RFC 4616 and XEP-0484 implementation built on OpenSSL; stateful server-message histories through the real SASL managers with a 'server proved knowledge' history oracle",
    "level_text": ("Every generated (mechanism, SASLprep-stable user name and password, salt, iteration count, nonce, realm, token) is answered by the real SASL client and by an independent implementation; the messages must be byte-identical where the RFC fixes them and semantically equal (independent tokenizer) for DIGEST-MD5 directives. "
                   "Server histories (honest; 10 kinds of invalid server-first; wrong/truncated/extended/missing ServerSignature in a challenge or inside <success/>; success sent before server-first; error in server-final) are played through SaslManager and Sasl2Manager: "
                   "success may be reported only after the harness has shown the correct ServerSignature, and an invalid server-first must never be answered with a proof."),
    "level_note": "Trusted: the independent implementations in harness/c06_sasl.cpp and OpenSSL (EVP digests incl. SHA3-512, HMAC, PKCS5_PBKDF2_HMAC). User names and passwords are restricted to strings that SASLprep leaves unchanged (the library does not normalise and the property speaks of the normalised form). Not judged: a server nonce equal to the client nonce with nothing appended, a signature carried inside <success/> that is correct (accepting or failing are both conforming).",
    "rule": ("c06.responses: (mechanism in SCRAM-SHA-1/-256/-512/SHA3-512, DIGEST-MD5, PLAIN, HT-SHA-256-NONE/HT-SHA3-512-NONE) x user/password over printable ASCII incl. , = \" \\ space and NFKC-stable Latin-1/Greek/Cyrillic/CJK letters x salt 1..64 B x iterations 1..4096 x nonce suffix x realm/nonce with quotes and backslashes; "
             "non-trivial = name or password has a non-alphanumeric character, or salt/iterations at a bound, or a quoted-string special in realm/nonce. c06.refuse: SASL1|SASL2 x 4 SCRAM hashes x history; every history deviates from or completes the honest one; distinct = (protocol, hash, history)."),
    "assumptions": ["user names and passwords are already in SASLprep-normalised form", "no channel binding (gs2 header 'n,,')"],
    "subs": [
        {"name": "c06.responses", "engine": "rapid", "quick": R(6, 12000), "thorough": R(16, 600000)},
        {"name": "c06.refuse", "engine": "rapid", "quick": R(4, 12000), "thorough": R(8, 600000)},
    ],
}

PROPS["C11"] = {
    "binary": "c11_carbons",
    "level": "exploration",
    "technique": "stateful property-based testing (rapidcheck) on a socketless client: generated delivery histories incl. account switches, judged by a presentation oracle over message handlers, client signals and V1 carbon signals",
    "level_text": ("Histories of 1-4 carbon deliveries to one client (V1 manager, V2 manager, or both in either order), with the configured account optionally switched between deliveries; outer sender drawn from own bare/full JID, other resources, case variants, trailing characters, look-alike domains, homoglyphs, empty, absent, strangers, the inner sender, the previous account; "
                   "sent/received wrappers in the right or a wrong namespace; generated inner messages with attributable tokens; decorations (extra payloads, <private/> first, two <forwarded/>, nested carbon). "
                   "A forged wrapper must never yield a carbon-flagged presentation nor a presentation carrying the inner message's sender/recipient/body; a genuine one is presented at most once per observer, equal to the inner message, flagged, and a plain genuine wrapper must be unwrapped."),
    "level_note": "Trusted: the harness observers (a QXmppMessageHandler extension installed last, QXmppClient::messageReceived, the V1 manager's signals). 'Own bare address' is the client's configured bare JID at the time of delivery, compared exactly. The statement is one-directional, so a decorated genuine wrapper that is not unwrapped is not judged.",
    "rule": "Non-trivial: at least one delivery whose outer sender is the own bare JID or within a small edit of it (anything but an unrelated stranger or the inner sender). Distinct = the history text (manager set, switches, sender kind, wrapper kind, decoration, inner extension set).",
    "assumptions": ["no end-to-end-encryption extension installed"],
    "subs": [
        {"name": "c11.carbons", "engine": "rapid", "quick": R(8, 15000), "thorough": R(16, 1000000)},
    ],
}

PROPS["C08"] = {
    "binary": "c08_iqreply",
    "seeds": True,
    "level": "exploration",
    "technique": "property-based testing (rapidcheck) on a socketless connected client: generated IQ stanzas (type x id x sender x payload harvested from the repository's tests) against generated client states (extension sets, own requests in flight with colliding ids); reply-counting oracle",
    "level_text": ("Each case builds a client (no extensions | the five defaults | every bundled manager | one manager alone), optionally with 1-3 own requests in flight, delivers one generated IQ through the real receive path, drains the event loop and counts the emitted <iq type=result|error> stanzas: "
                   "exactly one with the request's id addressed to the sender for get/set; none at all for result/error."),
    "level_note": "Trusted: the harness reply counter over the client's sent-data log; payloads are the child elements of all IQ documents in the repository's tests plus synthetic unknown/none/several/child+error. A reply without 'to' is accepted for requests from the own account or own server (RFC 6120 10.3.3). IQs whose type is absent or not one of the four are not judged here (C02).",
    "rule": "Non-trivial: a get/set whose payload is a known query element or whose id collides with an own request in flight, or any result/error. Distinct = (client setup, in-flight count, type, id kind, sender kind, payload element).",
    "assumptions": ["the harness plays the application for handlers that defer the decision (declines incoming file offers)"],
    "subs": [
        {"name": "c08.iq", "engine": "rapid", "quick": R(8, 30000), "thorough": R(16, 600000)},
    ],
}

PROPS["C12"] = {
    "binary": "c12_roster",
    "level": "exploration",
    "technique": "stateful model-based property testing (rapidcheck): generated session/roster/presence histories against the real roster manager on a socketless client, compared with a reference model after every step",
    "level_text": ("Histories of up to 30 steps over connect (new with / without stream management, resumed), answer to the pending roster request (items or error), roster pushes from nine sender kinds, presence of eight types from any resource, disconnect (resumable or not) over a six-JID universe; "
                   "after every step the exposed bare JIDs, each entry (through its serialisation), the received flag and the per-contact resource lists equal the reference model, item signals match model deltas one-to-one, authorised pushes are acknowledged exactly once and unauthorised ones never."),
    "level_note": "Trusted: the reference model in harness/c12_roster.cpp. 'Own account or server' = no from, or a from whose bare JID is the own bare JID (RFC 6121 2.1.6 as implemented; the bare server domain is not accepted by the library and is modelled as unauthorised). The socketless harness keeps the stream's ack manager switched on in every session so that packets count as sent; the XEP-0198 state the managers see is set separately.",
    "rule": "Non-trivial: the history contains an unauthorised push for an item that is in the view, or a new (non-resumed) session started while a previous view existed. Distinct = the history text.",
    "assumptions": ["presence types other than available/unavailable do not change the presence table (the quantifier names only those two)"],
    "subs": [
        {"name": "c12.roster", "engine": "rapid", "quick": R(8, 15000), "thorough": R(16, 800000)},
    ],
}

PROPS["C09"] = {
    "binary": "c09_sm",
    "level": "exploration",
    "technique": "stateful model-based testing: exhaustive enumeration of all operation sequences of a bounded depth (odometer over choice points) plus rapidcheck random sequences up to 60 operations, against a reference model of XEP-0198",
    "level_text": ("Operation sequences over {send stanza/nonza, server ack h (exact, stale, between, beyond, 2^32-1), server <r/>, receive message/presence/iq/nonza, connection loss, resume accepted with h, resume failed then new session with/without stream management, enable failed, send while disconnected} drive the real C2sStreamManager and StreamAckManager of a socketless client; "
                   "after every operation each delivery report is compared with the model (acknowledged iff covered, never twice), the stanzas re-sent at session start are compared with the model's uncovered queue (order, none of the covered), and h in every <a/> and <resume/> with the model's handled count."),
    "level_note": "Trusted: the reference model in harness/c09_sm.cpp (written from XEP-0198). <failed/> is generated without the optional h attribute (the codec has no such field). Without a socket a stanza sent while stream management is off fails at once with a write error; those are modelled as 'reported as error, never queued'.",
    "rule": "Non-trivial: the history contains a connection loss with at least one covered and one uncovered stanza, or an ack that is stale, beyond the sent count, or 2^32-1. Distinct = the history text.",
    "assumptions": ["the server's h is trusted as received (a conforming server never acks more than it got; 'beyond' acks are still generated and must only cover what exists)"],
    "exhaustive_claim": True,
    "exhaustive_scope": "c09.enum: every sequence of `depth` operations (depth 5 quick, 6 thorough) over the reduced alphabet {send message, ack exact|stale|between, <r/>, receive message|nonza, loss, reconnect new+sm|resume(h at, +1)|new without sm}",
    "subs": [
        {"name": "c09.enum", "engine": "enum", "quick": {"workers": 8, "cases": 0, "params": {"depth": 5, "partition_depth": 2}, "max_seconds": 300},
         "thorough": {"workers": 16, "cases": 0, "params": {"depth": 6, "partition_depth": 3}, "max_seconds": 3000}},
        {"name": "c09.random", "engine": "rapid", "quick": R(6, 10000), "thorough": R(16, 500000)},
    ],
}

PROPS["C07"] = {
    "binary": "c07_requests",
    "level": "exploration",
    "technique": "stateful model-based property testing (rapidcheck) with re-entrant operations from inside completion handlers; table-driven sweep of the managers' request APIs against scripted server behaviours",
    "level_text": ("Histories of up to 40 operations over send(to, id incl. empty and duplicates), stanzas carrying a pending id (type result/error/get/set/none x nine sender kinds x payloads), duplicate replies, unrelated IQs, disconnect (resumable or not) and reconnect (resumed, new with/without stream management), "
                   "with completion handlers that send another request or close the session, run against the real client; after every operation each task's completion count and value equal the reference model, and after a final non-resumable close every task has completed exactly once. "
                   "34 manager request APIs are each exercised against empty result, error, unexpected payload, malformed error and silence followed by a non-resumable disconnect: the returned task completes exactly once."),
    "level_note": "Trusted: the reference model in harness/c07_requests.cpp. A reply without 'from' is treated as coming from the user's own server (the documented rule of the IQ manager). ASan/UBSan/Q_ASSERT (a promise finished twice) are part of the oracle.",
    "rule": "Non-trivial (c07.iq): >=2 requests outstanding together with a wrong-sender stanza, a duplicate id, a disconnect with pending requests, or a re-entrant handler; (c07.managers): every (API, behaviour) pair. Distinct = history text / pair.",
    "assumptions": ["completion handlers do not destroy the client object itself"],
    "subs": [
        {"name": "c07.iq", "engine": "rapid", "quick": R(8, 8000), "thorough": R(16, 600000)},
        {"name": "c07.managers", "engine": "rapid", "quick": R(4, 1500), "thorough": R(8, 60000)},
    ],
}

PROPS["C03"] = {
    "binary": "c03_framing",
    "seeds": True,
    "level": "exploration",
    "technique": "differential property-based testing (rapidcheck) over real loopback sockets with a harness-owned read schedule: chunked delivery vs. single-read delivery of the same generated stream; exhaustive 2-way splits per stream",
    "level_text": ("Generated streams (5 header shapes incl. XML declaration / leading newline / non-ASCII id; 1-12 stanzas from the repository's tests and from hard text with 2-, 3- and 4-byte characters, entities and quotes in text and attribute values; whitespace keep-alives; optional </stream:stream>) "
                   "are written to a real XmppSocket through a loopback TCP connection chunk by chunk, the next chunk only after the receiver consumed the previous one; every 2-way split of each small stream, random k-way splits biased into tags/attribute values/entities/multi-byte characters and one-byte-at-a-time delivery "
                   "must produce exactly the event sequence (stream-open start tag, canonical stanzas, stream-close) of the single-read run."),
    "level_note": "Trusted: the loopback transport delivering each flushed chunk as one read (checked: the harness counts bytesAvailable at every readyRead and waits for equality; a stalled delivery is reported as inconclusive, never as a violation). The keep-alive notification (stanzaReceived with a null element) is not a stanza and is filtered. Headers with a raw '>' in an attribute value and bytes after </stream:stream> are outside the domain.",
    "rule": "Non-trivial: at least one cut strictly inside a tag, an attribute value, an entity or a multi-byte character. Distinct = (stream bytes, partition mode).",
    "assumptions": ["the peer sends a valid XMPP stream"],
    "subs": [
        {"name": "c03.split2", "engine": "rapid", "quick": R(8, 60), "thorough": R(16, 3000)},
        {"name": "c03.random", "engine": "rapid", "quick": R(6, 2500), "thorough": R(16, 60000)},
    ],
}

PROPS["C18"] = {
    "binary": "c18_atm",
    "level": "exploration",
    "technique": "stateful model-based property testing (rapidcheck): generated histories of manual decisions, trust messages and automatic trust changes against the real ATM manager over the in-memory trust storage, compared with a reference model of XEP-0450 after every step",
    "level_text": ("Histories of up to 25 operations over a universe of the own account and two contacts with 2-3 keys each, under both security policies: manual authenticate/distrust, trust messages from every (account, key) incl. messages without e2ee metadata, from this very device and with a wrong usage namespace, naming trusted/distrusted keys for up to three owners (in and out of the sender's scope), and keys becoming automatically trusted. "
                   "After every operation every key's trust level and the multiset of held-back decisions (read through the public trust manager / storage API) equal the reference model: decisions apply iff the sender key is authenticated and in scope, are held back otherwise, fire exactly when the sender key becomes authenticated (cascading), and are discarded when it is distrusted."),
    "level_note": "Trusted: the reference model in harness/c18_atm.cpp (written from XEP-0450 and the statement). Histories in which one cascade assigns both polarities to a key, or a fired decision is simultaneously held for another unauthenticated sender, depend on an order the statement does not fix: they are discarded and counted in the labels (about 19% of generated histories), never reported.",
    "rule": "Non-trivial: a held-back decision later fires or is discarded, or a message makes an out-of-scope claim. Distinct = the history text.",
    "assumptions": ["key ids are globally unique (one owner per id)", "storage tasks complete synchronously (in-memory storage), so each operation is atomic"],
    "subs": [
        {"name": "c18.atm", "engine": "rapid", "quick": R(8, 12000), "thorough": R(16, 800000)},
    ],
}

PROPS["C19"] = {
    "binary": "c19_transfer",
    "level": "fault_enumeration",
    "technique": "property-based fault injection (rapidcheck): generated (size, block size, content, single fault in the block sequence) transfers through a harness relay between two real clients and from a conforming scripted sender into the real receiver; byte-for-byte content oracle",
    "level_text": ("Transfers with sizes around block boundaries (0, 1, b-1, b, b+1, 2b, random) and, for the scripted sender, every block size 1..4096 plus the 65535/65536/65537-block cases that wrap the 16-bit sequence counter, are run with no fault and with each of eleven single faults "
                   "(drop, duplicate, swap, bit flip keeping valid base64, truncated payload, early close, missing close, wrong session id, block from a third JID replacing or accompanying the real one, sequence number off by one) at a generated position. "
                   "Fault-free: the receiver's device holds exactly the sender's bytes and the jobs finish with NoError. Always: the receiver reports NoError only if the delivered bytes are identical."),
    "level_note": "Trusted: the relay / scripted sender in harness/c19_transfer.cpp (a conforming XEP-0047/XEP-0096 sender: stop-and-wait, sequence modulo 65536, close after the last block). Offers carry size and MD5 hash as the library's own file sender produces them (without a hash an altered block is undetectable by any receiver). The library's sender always proposes 4096-byte blocks, so other block sizes are only reachable with the scripted sender.",
    "rule": "Non-trivial: size not a multiple of the block size, or >=65536 blocks, or a fault present. Distinct = (path, size, block size, fault, position).",
    "assumptions": ["in-band bytestreams and SOCKS5 via a local stream host on 127.0.0.1 only (no network in the sandbox)"],
    "subs": [
        {"name": "c19.ibb", "engine": "rapid", "quick": R(4, 1200), "thorough": R(8, 60000)},
        {"name": "c19.receiver", "engine": "rapid", "quick": R(4, 5000), "thorough": R(8, 300000)},
        {"name": "c19.socks", "engine": "rapid", "quick": R(4, 150), "thorough": R(8, 6000)},
        {"name": "c19.wrap", "engine": "enum", "quick": {"workers": 3, "cases": 0, "params": {"max_block": 1, "faults": 1, "partition_depth": 2, "case_timeout": 900}, "max_seconds": 600},
         "thorough": {"workers": 16, "cases": 0, "params": {"max_block": 3, "faults": 5, "partition_depth": 3, "case_timeout": 900}, "max_seconds": 3000}},
    ],
}

PROPS["C04"] = {
    "binary": "c04_tls",
    "level": "exploration",
    "technique": "stateful property-based testing (rapidcheck) over real loopback TCP/TLS: generated server scripts and client configurations against a real QXmppClient; history invariant over the plaintext the scripted peer receives before its link is encrypted",
    "level_text": ("Generated scripts of up to 11 server actions (3 header shapes; features with any subset of starttls optional/required/absent, SASL mechanisms, SASL 2 with bind2/FAST/sm, iq-auth, bind, session, sm; <proceed/> followed by a real TLS handshake with a committed test certificate; <failure/>; SASL challenge/success/failure; legacy-auth field offers; six server IQs; <r/>; message; stream errors) "
                   "x client configurations (SASL, SASL 2, legacy auth on/off, PLAIN allowed, preferred mechanism, user agent, FAST token, extension set). Everything the peer reads before its socket is encrypted is searched for the planted password/token and their derivatives (base64, PLAIN message, XEP-0078 digest) and for SASL/SASL2 exchange elements, legacy-auth IQs, bind, and any iq/message/presence. "
                   "A third of the cases give the client two candidate addresses (what an SRV lookup or the built-in fall-back list yields); the first peer may drop the connection at any point (half of these cases: after the TLS upgrade, while the client authenticates) and the script goes on with the second peer, which may continue the authentication as if it had carried over; what either peer received in clear is judged. "
                   "'Gives up and disconnects' is judged as soon as the script has made encryption impossible (no starttls offered, or <failure/>). A control arm with TLS merely enabled shows the classifier does see plaintext authentication (non-vacuity); labels sent-data-after-encryption / authenticated-after-encryption count the cases in which the real handshake completed."),
    "level_note": "Trusted: the scripted peer and plaintext classifier in harness/c04_tls.cpp, Qt's TLS stack (OpenSSL) with the throw-away key pair in fixtures/. Quiescence is detected by an idle window on socket activity; a slow machine can only shorten a script (fewer observations), never create a violation. Nonzas the statement does not name (<a/>, <r/>, csi, sm enable/resume) are not judged.",
    "rule": "Non-trivial: the script reaches an authentication-capable state (features with a mechanism / SASL 2 / iq-auth, or a version-less header) while the link is still unencrypted. Distinct = (script text, configuration).",
    "assumptions": ["after <proceed/> the peer speaks TLS (a clear-text element after <proceed/> is not a possible server behaviour)"],
    "subs": [
        {"name": "c04.required", "engine": "rapid", "quick": R(10, 300), "thorough": R(16, 20000)},
        {"name": "c04.control", "engine": "rapid", "quick": R(2, 150), "thorough": R(4, 3000)},
    ],
}

PROPS["C10"] = {
    "binary": "c10_connloss",
    "level": "fault_enumeration",
    "technique": "property-based fault injection (rapidcheck) over real loopback sockets: generated conforming server scripts x generated cut point per attempt (after any event, also mid-element, or on the established session) x up to three consecutive attempts; history invariants on client state, signals and outstanding requests",
    "level_text": ("A scripted, protocol-conforming server (SASL PLAIN + restart + bind, optionally + stream management; SASL 2 + bind2, optionally + inline stream management; each optionally behind a see-other-host redirect to a second listener; resumption accepted or refused on later attempts) negotiates with a real QXmppClient (TLS disabled). "
                   "For every attempt but the last the connection is cut at a generated event (connection accepted, header or element received or sent, half an element sent, or after establishment with a request outstanding), on the first or the redirected host. "
                   "After each cut: state Disconnected, no session, not authenticated, no self-started reconnection, outstanding requests completed unless the session is resumable, connected() at most once per TCP connection and never before the server's final negotiation element; the last attempt must connect with a fresh stream header and a probe IQ must round-trip."),
    "level_note": "Trusted: the scripted server in harness/c10_connloss.cpp. Quiescence is detected by idle windows on socket activity (a slow machine lengthens a case, it cannot create a violation except through the 3 s connect guard of the final attempt, which is why that guard is generous). Legacy XEP-0078 iq-auth is not among the property's scripts and is excluded.",
    "rule": "Non-trivial: a cut strictly inside negotiation (after the header, before the session opens) or with a request outstanding. Distinct = the full history (script kind, redirect, per-attempt cut and the resulting event trace).",
    "assumptions": ["automatic reconnection is switched off so that the harness owns the attempts"],
    "subs": [
        {"name": "c10.loss", "engine": "rapid", "quick": R(12, 200), "thorough": R(16, 4000)},
    ],
}

# C15 (ICE) and C16 (server) were built as separate modules
from props_c15 import PROPS_C15  # noqa: E402
PROPS["C15"] = PROPS_C15
from props_c16 import PROPS_C16  # noqa: E402
PROPS["C16"] = PROPS_C16
