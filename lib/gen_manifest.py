#!/usr/bin/env python3
"""Regenerates MANIFEST.json from lib/props.py (claimed checks) and properties.jsonl (everything else -> not_applicable)."""
import json, os, sys
ROOT = os.path.dirname(os.path.dirname(os.path.abspath(__file__)))
sys.path.insert(0, os.path.join(ROOT, "lib"))
from props import PROPS

props = [json.loads(l) for l in open(os.path.join(ROOT, "properties.jsonl"))]
NA_REASONS = {}
na_file = os.path.join(ROOT, "lib", "not_applicable.json")
if os.path.exists(na_file):
    NA_REASONS = json.load(open(na_file))

checks = []
for pid in sorted(PROPS):
    P = PROPS[pid]
    if P.get("unclaimed"):
        continue
    checks.append({
        "property_id": pid,
        "quick_cmd": "./check %s --tier quick" % pid,
        "thorough_cmd": "./check %s --tier thorough" % pid,
        "evidence_file": "/verif/evidence/%s.json" % pid,
        "replay_cmd_template": "./check %s --replay {path}" % pid,
        "engine": P.get("engine_name", "rapidcheck+libFuzzer tape harness"),
        "level_claimed": {"category": P.get("level", "exploration"), "text": P["level_text"], "design_ref": "DESIGN.md section 3, " + pid},
        "level_note": P["level_note"],
        "technique": P["technique"],
    })
claimed = {c["property_id"] for c in checks}
na = []
for p in props:
    if p["id"] not in claimed:
        na.append({"property_id": p["id"], "reason": NA_REASONS.get(p["id"], "check not built yet in this round (work in progress; see DESIGN.md section 3 for the planned generated-input check)")})

m = {
    "version": 1,
    "setup_cmd": "./check --setup",
    "hooks": {
        "guard": "QXMPP_VERIF",
        "enable": "harness/CMakeLists.txt compiles /repo with -DQXMPP_VERIF=1 (plus ASan/UBSan, QT_FORCE_ASSERTS, gcc trace-pc coverage); no source hook exists in /repo, the harnesses use the friend class TestClient access the test-suite uses",
        "baseline_off_cmd": "cmake -G Ninja -S /repo -B /repo/_build -DBUILD_TESTS=ON -DBUILD_INTERNAL_TESTS=ON && cmake --build /repo/_build && ctest --test-dir /repo/_build -j8 --timeout 900",
        "source_commits": [],
        "add_only": True,
    },
    "engines": [
        {"name": "tape-harness", "path": "/verif/harness/common/vharness.h",
         "serves_properties": sorted(claimed),
         "kind_free_text": "one executable property body per sub-check, all random choices drawn from a choice tape; tape produced by rapidcheck (custom generator + choice-sequence shrinker), by odometer enumeration (exhaustive small scope) or by libFuzzer bytes (coverage-guided, gcc trace-pc shim); failing tapes are the replay files"},
        {"name": "driver", "path": "/verif/lib/driver.py", "serves_properties": sorted(claimed),
         "kind_free_text": "builds sanitizer library + harness from /repo's working tree, runs workers in parallel, merges counters into evidence, matches failures against known_findings.json, replays 3x before reporting"},
    ],
    "checks": checks,
    "not_applicable": na,
    "notes": "All checks are property-based tests / fuzzers with explicit oracles (DESIGN.md). Exit 2 from a check means the tree did not build, which is not a verdict about the property.",
}
json.dump(m, open(os.path.join(ROOT, "MANIFEST.json"), "w"), indent=1)
print("MANIFEST.json: %d checks, %d not_applicable" % (len(checks), len(na)))
