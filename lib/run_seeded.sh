#!/bin/sh
# usage: lib/run_seeded.sh [<seeded-id>...]      (default: every directory under /verif/seeded)
# Runs each seeded change against the check of its property (quick tier) in ONE scratch worktree + build directory that is
# reused between changes (only the touched files rebuild), and prints one line per change.  /repo and /verif/.build are
# not touched.  Result lines:  SEEDED <id> property=<P> caught|MISSED|patch-does-not-apply  (<signature of the first violation>)
set -u
wt=/tmp/mw-seeded
bd=/root/scratch/mb-seeded
git -C /repo worktree remove --force "$wt" 2>/dev/null
git -C /repo worktree add -q --detach "$wt" HEAD || exit 3
mkdir -p "$bd"
ids="$*"
[ -z "$ids" ] && ids=$(ls /verif/seeded)
for id in $ids; do
  p=$(echo "$id" | cut -c1-3)
  git -C "$wt" checkout -q -- . 
  if ! git -C "$wt" apply "/verif/seeded/$id/patch.diff" 2>/dev/null; then echo "SEEDED $id property=$p patch-does-not-apply"; continue; fi
  VERIF_REPO="$wt" VERIF_BUILD="$bd" VERIF_EVIDENCE_DIR="$bd/evidence" VERIF_REPLAY_DIR="$bd/replays" /verif/check "$p" --tier "${TIER:-quick}" > "$bd/$id.out" 2>&1
  rc=$?
  sig=$(grep -m1 "^DETAIL" "$bd/$id.out" | sed 's/^DETAIL property=[^ ]* //' | cut -c1-160)
  if [ $rc -eq 1 ] && grep -q "^VIOLATION" "$bd/$id.out"; then echo "SEEDED $id property=$p caught ($sig)"; 
  elif [ $rc -eq 0 ]; then echo "SEEDED $id property=$p MISSED"; else echo "SEEDED $id property=$p check-error rc=$rc ($(grep -m1 BUILD-ERROR "$bd/$id.out"))"; fi
done
git -C /repo worktree remove --force "$wt"
rm -rf "$bd"
