#!/bin/sh
# usage: lib/verify_seeded.sh <worktree> <name>     e.g. lib/verify_seeded.sh /tmp/wt-C01-a C01-a
# Confirms an agent-made seeded change independently: patch applies to a clean checkout, library+tests build, the stable
# test-suite passes with it, the demo fails with it and passes without it.  On success copies it to /verif/seeded/<name>/
# and removes the worktree (with its build output).
set -u
wt="$1"; name="$2"
log=/root/scratch/verify-$name.log
exec > "$log" 2>&1
cd "$wt" || exit 2
[ -f mutant/patch.diff ] || { echo "no patch"; exit 2; }
cp -r mutant /root/scratch/mutant-$name
git checkout -- src tests 2>/dev/null
git apply --check mutant/patch.diff || { echo "RESULT patch does not apply to clean tree"; exit 1; }
# without the change
ninja -C _build -j8 >/dev/null 2>&1 || { echo "RESULT clean build failed"; exit 1; }
sh mutant/build_and_run.sh "$wt" > /root/scratch/demo-$name-clean.out 2>&1; rc_clean=$?
git apply mutant/patch.diff
ninja -C _build -j8 > /root/scratch/build-$name.out 2>&1 || { echo "RESULT build with change failed"; tail -20 /root/scratch/build-$name.out; exit 1; }
ctest --test-dir _build -j8 --timeout 300 -E "tst_qxmppiceconnection|tst_qxmppserver" > /root/scratch/ctest-$name.out 2>&1; rc_tests=$?
sh mutant/build_and_run.sh "$wt" > /root/scratch/demo-$name-mut.out 2>&1; rc_mut=$?
tests_line=$(grep "tests passed" /root/scratch/ctest-$name.out)
echo "clean demo rc=$rc_clean ; mutated demo rc=$rc_mut ; ctest rc=$rc_tests ; $tests_line"
if [ $rc_clean -eq 0 ] && [ $rc_mut -ne 0 ] && [ $rc_tests -eq 0 ]; then
  d=/verif/seeded/$name
  mkdir -p "$d"
  cp mutant/patch.diff "$d/patch.diff"
  cp mutant/demo.cpp mutant/build_and_run.sh "$d/" 2>/dev/null
  for f in mutant/*; do case "$f" in *.diff|*/demo.cpp|*/build_and_run.sh|*/meta.json) ;; *) [ -f "$f" ] && [ $(stat -c %s "$f") -lt 200000 ] && cp "$f" "$d/" ;; esac; done
  python3 - "$d" "$name" "$rc_clean" "$rc_mut" "$tests_line" <<'PY'
import json,sys
d,name,rc_clean,rc_mut,tests=sys.argv[1:6]
try: meta=json.load(open('mutant/meta.json'))
except Exception as e: meta={"note":"agent meta.json unreadable: %s"%e}
meta["verified_by_main_session"]={"patch_applies_to_clean_HEAD":True,"ctest_stable_suite_with_change":tests,"demo_exit_without_change":int(rc_clean),"demo_exit_with_change":int(rc_mut),
  "how":"lib/verify_seeded.sh: git apply --check on clean worktree; ninja; demo (clean) ; git apply; ninja; ctest -E 'iceconnection|server'; demo (mutated)"}
json.dump(meta,open(d+'/meta.json','w'),indent=1)
PY
  echo "RESULT confirmed -> $d"
  cd / && git -C /repo worktree remove --force "$wt"
  exit 0
fi
echo "RESULT not confirmed"
exit 1
