#!/usr/bin/env python3
"""Harvest XML documents from the string literals of /repo/tests/*/*.cpp (DESIGN.md section 2, 'Seeds').
Adjacent C string literals are concatenated, raw strings handled; a literal sequence is kept if it parses
as exactly one element inside the stream wrapper.  Output: JSON array of strings."""
import json, os, re, sys, glob
import xml.parsers.expat

WRAP_OPEN = "<stream:stream xmlns='jabber:client' xmlns:stream='http://etherx.jabber.org/streams'>"
WRAP_CLOSE = "</stream:stream>"

def well_formed_single(doc):
    p = xml.parsers.expat.ParserCreate(namespace_separator=" ")
    depth = [0]; tops = [0]
    def start(name, attrs):
        if depth[0] == 1: tops[0] += 1
        depth[0] += 1
    def end(name): depth[0] -= 1
    p.StartElementHandler = start; p.EndElementHandler = end
    try:
        p.Parse(WRAP_OPEN + doc + WRAP_CLOSE, True)
    except Exception:
        return False
    return tops[0] == 1

ESC = {'n': '\n', 't': '\t', 'r': '\r', '"': '"', "'": "'", '\\': '\\', '0': '\0', '?': '?'}
def unescape(s):
    out = []; i = 0
    while i < len(s):
        c = s[i]
        if c == '\\' and i + 1 < len(s):
            n = s[i + 1]
            if n in ESC: out.append(ESC[n]); i += 2; continue
            if n == 'x':
                m = re.match(r'[0-9a-fA-F]{1,2}', s[i + 2:])
                if m: out.append(chr(int(m.group(0), 16))); i += 2 + len(m.group(0)); continue
            if n == 'u':
                m = re.match(r'[0-9a-fA-F]{4}', s[i + 2:])
                if m: out.append(chr(int(m.group(0), 16))); i += 6; continue
            out.append(n); i += 2; continue
        out.append(c); i += 1
    return ''.join(out)

TOKEN = re.compile(r'''
    (?P<raw>(?:u8|u|L)?R"(?P<delim>[^()\\\s]{0,16})\((?P<rawbody>.*?)\)(?P=delim)")
  | (?P<str>(?:u8|u|L)?"(?P<body>(?:[^"\\\n]|\\.)*)")
  | (?P<lcomment>//[^\n]*)
  | (?P<bcomment>/\*.*?\*/)
  | (?P<chr>'(?:[^'\\]|\\.)+')
  | (?P<ws>\s+)
  | (?P<other>.)
''', re.S | re.X)

def literals(text):
    """yield concatenations of adjacent string literals"""
    cur = None
    for m in TOKEN.finditer(text):
        k = m.lastgroup
        if m.group('raw') is not None:
            cur = (cur or '') + m.group('rawbody')
        elif m.group('str') is not None:
            cur = (cur or '') + unescape(m.group('body'))
        elif m.group('ws') is not None or m.group('lcomment') is not None or m.group('bcomment') is not None:
            continue
        else:
            if cur is not None:
                yield cur
                cur = None
    if cur is not None:
        yield cur

def harvest(repo):
    seen = set(); docs = []
    for f in sorted(glob.glob(os.path.join(repo, 'tests', '*', '*.cpp')) + glob.glob(os.path.join(repo, 'tests', '*.h'))):
        try:
            text = open(f, encoding='utf-8', errors='replace').read()
        except OSError:
            continue
        for lit in literals(text):
            s = lit.strip()
            if not s.startswith('<') or len(s) < 5 or len(s) > 20000:
                continue
            if s.startswith('<?xml'):
                s = s[s.find('?>') + 2:].strip()
            if '\0' in s or s in seen:
                continue
            if well_formed_single(s):
                seen.add(s); docs.append(s)
    return docs

if __name__ == '__main__':
    repo = sys.argv[1] if len(sys.argv) > 1 else '/repo'
    out = sys.argv[2] if len(sys.argv) > 2 else '/dev/stdout'
    docs = harvest(repo)
    json.dump(docs, open(out, 'w'), ensure_ascii=False)
    print("harvested %d seed documents" % len(docs), file=sys.stderr)
