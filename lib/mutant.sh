#!/bin/sh
# usage: lib/mutant.sh <patch.diff> <ID> [<ID>...]   (env TIER=quick|thorough, REVERSE=1 to apply the patch reversed)
# Applies a patch to /repo, runs the given checks with evidence/replays redirected to a scratch dir, and reverts.
set -u
patch="$1"; shift
scratch=/root/scratch/mutant.$$
mkdir -p "$scratch"
rev=""; [ "${REVERSE:-0}" = 1 ] && rev="-R"
if ! git -C /repo apply $rev "$patch"; then echo "MUTANT: patch does not apply"; rm -rf "$scratch"; exit 3; fi
rc_all=0
for id in "$@"; do
  VERIF_EVIDENCE_DIR="$scratch/evidence" VERIF_REPLAY_DIR="$scratch/replays" /verif/check "$id" --tier "${TIER:-quick}" > "$scratch/$id.out" 2>&1
  rc=$?
  echo "MUTANT $(basename $(dirname "$patch"))/$(basename "$patch") check=$id exit=$rc"
  grep -E "^(VIOLATION|DETAIL|SUMMARY|BUILD-ERROR)" "$scratch/$id.out" | cut -c1-400 | head -8
  [ $rc -ne 0 ] && rc_all=1
done
git -C /repo checkout -- .
rm -rf "$scratch"
exit $rc_all
