// C08 — every incoming IQ request is answered exactly once; responses are never answered (DESIGN.md C08).
// Case = client state (extension set: none | the five defaults | every bundled manager | one manager alone; 0-3 own
// requests in flight) x incoming IQ (type get/set/result/error/absent/garbage; id from G-str, empty, or colliding with
// an in-flight request; from contact/own bare/own full/server/absent; payload = a query element harvested from the
// repository's tests, the same under the other type, an unknown element, none, several, child+<error/>).
// Oracle: get/set -> exactly one emitted <iq type=result|error> with that id, addressed to the sender; result/error ->
// no emitted <iq type=result|error> at all.  Handlers that leave the decision to the application (file offers) are
// answered by the harness playing the application (it declines).
#include "gens.h"
#include "tc.h"
#include "xmlmut.h"

using vh::Ctx;
using vh::Tape;

static std::string q(const QString &s) { return vh::s(s); }

struct Payloads {
    QStringList iqChildren;   // serialised child elements (possibly several) of the seed IQs
};
static const Payloads &payloads()
{
    static Payloads p;
    static bool init = false;
    if (!init) {
        init = true;
        QSet<QString> seen;
        for (const auto &tree : xm::corpus().trees) {
            if (tree.name != u"iq" || tree.ns != u"jabber:client")
                continue;
            QString kids;
            for (const auto &k : tree.kids)
                if (!k.isText && k.name != u"error")
                    xm::toXml(k, QStringLiteral("jabber:client"), kids);
            if (!kids.isEmpty() && !seen.contains(kids)) {
                seen.insert(kids);
                p.iqChildren << kids;
            }
        }
    }
    return p;
}

VCHECK("c08.iq", 300)
{
    TestClient::resetIdCounter();
    tc::Storages st;
    int extSet = int(t.weighted({ 2, 3, 4, 5 }));
    std::string setup;
    std::unique_ptr<TestClient> holder;
    if (extSet == 1) {
        holder = std::make_unique<TestClient>(QXmppClient::BasicExtensions);
        setup = "defaults";
    } else {
        holder = std::make_unique<TestClient>(QXmppClient::NoExtensions);
        if (extSet == 2) {
            tc::installAllManagers(*holder, st, false);
            setup = "all-managers";
        } else if (extSet == 3) {
            const auto &tab = tc::managerTable();
            const auto &m = tab[t.u(uint32_t(tab.size()))];
            m.install(*holder, st);
            setup = std::string("only-") + m.name;
        } else {
            setup = "no-extensions";
        }
    }
    TestClient &client = *holder;
    // the harness plays the application for handlers that defer the decision
    if (auto *tm = client.findExtension<QXmppTransferManager>())
        QObject::connect(tm, &QXmppTransferManager::fileReceived, [](QXmppTransferJob *job) { job->abort(); });
    client.setAuthenticated(true);
    client.enableSm(true);
    client.openSession();
    client.pump(2);

    // own requests in flight
    QStringList pendingIds, pendingTo;
    int nPending = int(t.weighted({ 5, 2, 1, 1 }));
    for (int i = 0; i < nPending; i++) {
        QXmppIq iq(t.b() ? QXmppIq::Get : QXmppIq::Set);
        QString id = t.b() ? QStringLiteral("qxmpp%1").arg(1 + t.u(6)) : QStringLiteral("own-%1").arg(i);
        iq.setId(id);
        QString to = t.pick<QString>({ "", "example.org", "bob@example.org/desk", "bob@example.org" });
        iq.setTo(to);
        client.sendIq(std::move(iq));
        pendingIds << id;
        pendingTo << to;
    }
    client.pump(1);
    // ids the client itself used so far (roster/vcard requests of the managers, etc.)
    QStringList usedIds = pendingIds;
    for (auto &x : client.take()) {
        auto p = xu::parseFragment(x);
        if (p.ok() && p.el.tagName() == u"iq" && p.el.hasAttribute(QStringLiteral("id"))) {
            usedIds << p.el.attribute(QStringLiteral("id"));
            pendingTo << p.el.attribute(QStringLiteral("to"));
        }
    }

    // ---- the incoming IQ
    QString type;
    bool typeAbsent = false;
    switch (t.weighted({ 5, 5, 2, 2, 1, 1 })) {
    case 0: type = QStringLiteral("get"); break;
    case 1: type = QStringLiteral("set"); break;
    case 2: type = QStringLiteral("result"); break;
    case 3: type = QStringLiteral("error"); break;
    case 4: typeAbsent = true; break;
    case 5: type = t.pick<QString>({ "GET", "query", "", "get ", "subscribe" }); break;
    }
    QString id;
    std::string idKind;
    switch (t.weighted({ 4, 1, 3 })) {
    case 0: id = gen::str(t, gen::AttrSafe, 12); idKind = "fresh"; break;
    case 1: id = QString(); idKind = "empty"; break;
    case 2:
        if (!usedIds.isEmpty()) {
            id = usedIds[int(t.u(uint32_t(usedIds.size())))];
            idKind = "collides-with-own-request";
        } else {
            id = QStringLiteral("qxmpp1");
            idKind = "fresh";
        }
        break;
    }
    QString from;
    bool fromAbsent = false;
    std::string fromKind;
    switch (t.u(8)) {
    case 0:
    case 1: from = QStringLiteral("bob@example.org/desk"); fromKind = "contact-full"; break;
    case 2: from = QStringLiteral("bob@example.org"); fromKind = "contact-bare"; break;
    case 3: from = QStringLiteral("alice@example.org"); fromKind = "own-bare"; break;
    case 4: from = QStringLiteral("alice@example.org/phone"); fromKind = "own-full"; break;
    case 5: from = QStringLiteral("example.org"); fromKind = "server"; break;
    case 6: fromAbsent = true; fromKind = "absent"; break;
    case 7: from = usedIds.isEmpty() || pendingTo.isEmpty() ? QStringLiteral("mallory@evil.example/x") : pendingTo[int(t.u(uint32_t(pendingTo.size())))]; fromKind = "addressee-of-own-request"; if (from.isEmpty()) { fromAbsent = true; } break;
    }
    const auto &pl = payloads();
    QString children;
    std::string payloadKind;
    switch (t.weighted({ 8, 1, 1, 1, 1 })) {
    case 0:
        children = pl.iqChildren[int(t.u(uint32_t(pl.iqChildren.size())))];
        payloadKind = "known-query";
        // the same query with each of its child elements 0-3 times (a roster push with no or several items, a disco result
        // without identities, ...): the tests' documents almost always have exactly one of each
        if (t.prob(1, 3)) {
            auto pq = xu::parseFragment(children);
            if (pq.ok()) {
                xm::XNode n = xm::fromDom(pq.el);
                QVector<xm::XNode> kids;
                for (const auto &k : n.kids) {
                    int rep = k.isText ? 1 : int(t.u(4));
                    for (int i = 0; i < rep; i++)
                        kids.push_back(k);
                }
                n.kids = kids;
                children.clear();
                xm::toXml(n, QStringLiteral("jabber:client"), children);
                payloadKind = "known-query-children-repeated";
            }
        }
        break;
    case 1: children = QStringLiteral("<unknown-query xmlns='urn:verif:unknown'/>"); payloadKind = "unknown-element"; break;
    case 2: payloadKind = "no-child"; break;
    case 3: children = pl.iqChildren[int(t.u(uint32_t(pl.iqChildren.size())))] + pl.iqChildren[int(t.u(uint32_t(pl.iqChildren.size())))]; payloadKind = "several-children"; break;
    case 4: children = pl.iqChildren[int(t.u(uint32_t(pl.iqChildren.size())))] + QStringLiteral("<error type='cancel'><item-not-found xmlns='urn:ietf:params:xml:ns:xmpp-stanzas'/></error>"); payloadKind = "child-plus-error"; break;
    }
    QString xml = QStringLiteral("<iq");
    if (!typeAbsent)
        xml += QStringLiteral(" type=\"%1\"").arg(type.toHtmlEscaped());
    xml += QStringLiteral(" id=\"%1\"").arg(xm::escAttr(id));
    if (!fromAbsent)
        xml += QStringLiteral(" from=\"%1\"").arg(xm::escAttr(from));
    xml += QStringLiteral(" to='alice@example.org/phone'>") + children + QStringLiteral("</iq>");
    auto parsed = xu::parseFragment(xml);
    if (!parsed.ok()) {
        c.label("skipped:payload-not-well-formed");
        return;
    }
    QString firstChild = parsed.el.firstChildElement().isNull() ? QStringLiteral("-") : parsed.el.firstChildElement().tagName() + u'|' + parsed.el.firstChildElement().namespaceURI();
    // all children, for signatures: sorted unique name|namespace joined by '+'
    QString allChildren;
    {
        QStringList l;
        for (QDomElement ch = parsed.el.firstChildElement(); !ch.isNull(); ch = ch.nextSiblingElement()) {
            QString k = ch.tagName() + u'|' + ch.namespaceURI();
            if (!l.contains(k))
                l << k;
        }
        l.sort();
        allChildren = l.isEmpty() ? QStringLiteral("-") : l.join(u'+');
    }
    std::string desc = "client=" + setup + " in-flight=" + std::to_string(nPending) + " iq{type=" + (typeAbsent ? "<absent>" : q(type)) + " id=" + idKind + " from=" + fromKind + " payload=" + payloadKind + "(" + q(firstChild) + ")}";
    c.sample([&] { return desc + " xml=" + q(xml.left(400)); });
    c.label("type:" + (typeAbsent ? std::string("absent") : type == u"get" || type == u"set" || type == u"result" || type == u"error" ? q(type) : std::string("garbage")));
    c.label("payload:" + payloadKind);
    c.label("id:" + idKind);

    client.inject(parsed.el);
    client.pump(3);
    QStringList out = client.take();

    int repliesWithId = 0, anyReply = 0;
    QString replyTo, replyType, replyXml;
    bool replyCondOk = false;
    for (auto &x : out) {
        auto p = xu::parseFragment(x);
        if (!p.ok() || p.el.tagName() != u"iq")
            continue;
        QString ty = p.el.attribute(QStringLiteral("type"));
        if (ty != u"result" && ty != u"error")
            continue;   // requests a manager starts in reaction are allowed
        anyReply++;
        if (p.el.attribute(QStringLiteral("id")) == id) {
            repliesWithId++;
            replyTo = p.el.attribute(QStringLiteral("to"));
            replyType = ty;
            replyXml = x;
            auto err = p.el.firstChildElement(QStringLiteral("error"));
            replyCondOk = !err.firstChildElement(QStringLiteral("feature-not-implemented")).isNull() || !err.firstChildElement(QStringLiteral("service-unavailable")).isNull();
        }
    }
    const bool isRequest = !typeAbsent && (type == u"get" || type == u"set");
    const bool isResponse = !typeAbsent && (type == u"result" || type == u"error");
    if (isRequest) {
        if (payloadKind == "known-query" || payloadKind == "known-query-children-repeated" || idKind == "collides-with-own-request")
            c.nontrivial(vh::fnv(desc));
        std::string what = q(allChildren);
        c.require(repliesWithId >= 1, "c08 request-not-answered " + what + " type=" + q(type), [&] {
            return "IQ " + q(type) + " request got no result/error reply\n " + desc + "\n request=" + q(xml.left(1500)) + "\n emitted=" + q(out.join(u" || ").left(1500));
        });
        c.require(repliesWithId == 1, "c08 request-answered-more-than-once " + what, [&] {
            return "IQ request got " + std::to_string(repliesWithId) + " replies\n " + desc + "\n request=" + q(xml.left(1500)) + "\n emitted=" + q(out.join(u" || ").left(2500));
        });
        // a reply without 'to' goes to the user's own server, which acts for the account (RFC 6120 10.3.3): accepted for
        // requests from the own account or the own server
        bool toServerOk = replyTo.isEmpty() && (from.section(u'/', 0, 0) == u"alice@example.org" || from == u"example.org");
        c.require(replyTo == (fromAbsent ? QString() : from) || toServerOk, "c08 reply-misaddressed", [&] {
            return "reply is addressed to '" + q(replyTo) + "', the request came from '" + (fromAbsent ? std::string("<absent>") : q(from)) + "'\n " + desc + "\n reply=" + q(replyXml.left(800));
        });
        if (extSet == 0)
            c.require(replyType == u"error" && replyCondOk, "c08 unhandled-request-wrong-error", "with no extension installed the reply must be feature-not-implemented / service-unavailable: " + q(replyXml.left(600)));
    } else if (isResponse) {
        c.nontrivial(vh::fnv(desc));
        c.require(anyReply == 0, std::string("c08 response-was-answered ") + q(type), [&] {
            return "an IQ of type " + q(type) + " was answered with a result/error IQ (endpoints could bounce forever)\n " + desc + "\n received=" + q(xml.left(1200)) + "\n emitted=" + q(out.join(u" || ").left(1500));
        });
    } else {
        c.label("not-judged:type-not-get-set-result-error");
    }
    client.closeSession();
    client.pump(1);
}

VH_MAIN()
