// development harness for the object-first tables of group "media" (not registered in MANIFEST.json)
#include "objgen_media.h"
#include "objgen_check.h"

VCHECK("c01.objects", 500)
{
    static bool once = (og::registerMedia(), true);
    (void)once;
    og::runObjectCheck(t, c);
}

VH_MAIN()
