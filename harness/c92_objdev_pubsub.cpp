// development harness for the object-first tables of group "pubsub" (not registered in MANIFEST.json)
#include "objgen_pubsub.h"
#include "objgen_check.h"

VCHECK("c01.objects", 500)
{
    static bool once = (og::registerPubSub(), true);
    (void)once;
    og::runObjectCheck(t, c);
}

VH_MAIN()
