// C06 — SASL exchanges follow their RFCs; a server that cannot prove itself is refused (DESIGN.md C06).
//   c06.responses  differential vs. an independent implementation (OpenSSL EVP/HMAC/PBKDF2): SCRAM-SHA-1/-256/-512/
//                  SHA3-512 (RFC 5802/7677), DIGEST-MD5 (RFC 2831, emitted directives read by an independent
//                  tokenizer), PLAIN (RFC 4616), HT-*-NONE (XEP-0484); user names/passwords are SASLprep-stable.
//   c06.refuse     server message sequences through the real SaslManager / Sasl2Manager: honest, bad server-first
//                  (nonce / salt / iteration count), bad or missing server signature, success sent early, signature
//                  delivered inside <success/>, DIGEST-MD5 rspauth wrong or missing.  Oracle: the login is reported
//                  successful only on histories in which the harness-as-server has shown the correct ServerSignature
//                  to the client; a must-reject server-first never yields a client proof.
#include "gens.h"
#include "xmlutil.h"

#include "QXmppConfiguration.h"
#include "QXmppSasl2UserAgent.h"
#include "QXmppSaslManager_p.h"
#include "QXmppSasl_p.h"
#include "XmppSocket.h"

#include <openssl/evp.h>
#include <openssl/hmac.h>

using vh::Ctx;
using vh::Tape;
using namespace QXmpp::Private;

static std::string q(const QString &s) { return vh::s(s); }
static std::string qb(const QByteArray &s)
{
    std::string o;
    for (unsigned char ch : s) {
        if (ch >= 0x20 && ch < 0x7f && ch != '\\')
            o += char(ch);
        else {
            char b[8];
            snprintf(b, sizeof b, "\\x%02x", ch);
            o += b;
        }
    }
    return o;
}

// ---- independent crypto ------------------------------------------------------------------------------
struct Alg {
    const char *scram;
    const EVP_MD *md;
};
static Alg algFor(int i)
{
    switch (i) {
    case 0: return { "SCRAM-SHA-1", EVP_sha1() };
    case 1: return { "SCRAM-SHA-256", EVP_sha256() };
    case 2: return { "SCRAM-SHA-512", EVP_sha512() };
    default: return { "SCRAM-SHA3-512", EVP_sha3_512() };
    }
}
static QByteArray H(const EVP_MD *md, const QByteArray &x)
{
    unsigned char out[EVP_MAX_MD_SIZE];
    unsigned int len = 0;
    EVP_Digest(x.constData(), size_t(x.size()), out, &len, md, nullptr);
    return QByteArray(reinterpret_cast<const char *>(out), int(len));
}
static QByteArray Hmac(const EVP_MD *md, const QByteArray &key, const QByteArray &msg)
{
    unsigned char out[EVP_MAX_MD_SIZE];
    unsigned int len = 0;
    static const char dummy = 0;
    HMAC(md, key.isEmpty() ? &dummy : key.constData(), key.size(), reinterpret_cast<const unsigned char *>(msg.constData()), size_t(msg.size()), out, &len);
    return QByteArray(reinterpret_cast<const char *>(out), int(len));
}
static QByteArray Hi(const EVP_MD *md, const QByteArray &pw, const QByteArray &salt, int iter)
{
    int dk = EVP_MD_get_size(md);
    QByteArray out(dk, 0);
    PKCS5_PBKDF2_HMAC(pw.constData(), pw.size(), reinterpret_cast<const unsigned char *>(salt.constData()), salt.size(), iter, md, dk, reinterpret_cast<unsigned char *>(out.data()));
    return out;
}
static QByteArray md5hex(const QByteArray &x) { return H(EVP_md5(), x).toHex(); }

struct ScramRef {
    QByteArray clientProof, serverSignature;
};
static ScramRef scramRef(const EVP_MD *md, const QByteArray &password, const QByteArray &salt, int iter, const QByteArray &authMessage)
{
    QByteArray salted = Hi(md, password, salt, iter);
    QByteArray clientKey = Hmac(md, salted, "Client Key");
    QByteArray storedKey = H(md, clientKey);
    QByteArray sig = Hmac(md, storedKey, authMessage);
    QByteArray proof = clientKey;
    for (int i = 0; i < proof.size(); i++)
        proof[i] = char(proof[i] ^ sig[i]);
    QByteArray serverKey = Hmac(md, salted, "Server Key");
    return { proof, Hmac(md, serverKey, authMessage) };
}
static QByteArray saslName(const QByteArray &user)
{
    QByteArray o;
    for (char ch : user) {
        if (ch == ',')
            o += "=2C";
        else if (ch == '=')
            o += "=3D";
        else
            o += ch;
    }
    return o;
}
// independent parser of "a=..,b=.." attribute lists (values may contain '=')
static QMap<char, QByteArray> gs2(const QByteArray &msg)
{
    QMap<char, QByteArray> m;
    for (const auto &part : msg.split(','))
        if (part.size() >= 2 && part[1] == '=')
            m[part[0]] = part.mid(2);
    return m;
}

// independent RFC 2831 directive tokenizer: key = token | quoted-string, comma separated, LWS tolerated
static bool digestTokenize(const QByteArray &s, QMap<QByteArray, QByteArray> &out)
{
    int i = 0, n = s.size();
    while (i < n) {
        while (i < n && (s[i] == ' ' || s[i] == '\t' || s[i] == ','))
            i++;
        if (i >= n)
            break;
        int ks = i;
        while (i < n && s[i] != '=')
            i++;
        if (i >= n)
            return false;
        QByteArray key = s.mid(ks, i - ks).trimmed();
        i++;
        QByteArray val;
        if (i < n && s[i] == '"') {
            i++;
            bool closed = false;
            while (i < n) {
                if (s[i] == '\\' && i + 1 < n) {
                    val += s[i + 1];
                    i += 2;
                } else if (s[i] == '"') {
                    closed = true;
                    i++;
                    break;
                } else {
                    val += s[i++];
                }
            }
            if (!closed)
                return false;
        } else {
            while (i < n && s[i] != ',')
                val += s[i++];
        }
        if (out.contains(key))
            return false;
        out[key] = val;
    }
    return true;
}
static QByteArray digestQuote(const QByteArray &v)
{
    QByteArray o = "\"";
    for (char ch : v) {
        if (ch == '"' || ch == '\\')
            o += '\\';
        o += ch;
    }
    return o + '"';
}
static QByteArray digestResponse(const QByteArray &method, const QByteArray &user, const QByteArray &realm, const QByteArray &password, const QByteArray &nonce, const QByteArray &cnonce,
                                 const QByteArray &nc, const QByteArray &digestUri)
{
    QByteArray a1 = H(EVP_md5(), user + ":" + realm + ":" + password) + ":" + nonce + ":" + cnonce;
    QByteArray a2 = method + ":" + digestUri;
    return md5hex(md5hex(a1) + ":" + nonce + ":" + nc + ":" + cnonce + ":auth:" + md5hex(a2));
}

// ---- generators ---------------------------------------------------------------------------------------
// SASLprep-stable strings: printable ASCII (incl. space , = " \) and NFKC-stable letters of Unicode 3.2
static QString prepStable(Tape &t, uint32_t maxLen)
{
    uint32_t n = 1 + t.len(maxLen - 1);
    QString s;
    for (uint32_t i = 0; i < n; i++) {
        switch (t.weighted({ 10, 3, 3 })) {
        case 0: s += QChar(ushort(0x21 + t.u(0x7e - 0x21 + 1))); break;
        case 1: s += t.pick<QChar>({ u',', u'=', u'"', u'\\', u' ', u':', u'@', u'/' }); break;
        case 2: {
            static const ushort ranges[][2] = { { 0x00C0, 0x00D6 }, { 0x00E0, 0x00F6 }, { 0x0391, 0x03A1 }, { 0x03B1, 0x03C9 }, { 0x0410, 0x044F }, { 0x4E00, 0x4E7F } };
            auto &r = ranges[t.u(6)];
            s += QChar(ushort(r[0] + t.u(uint32_t(r[1] - r[0] + 1))));
            break;
        }
        }
    }
    // edges not blank (a leading/trailing space is legal but makes reports unreadable); never empty
    if (s.front() == u' ')
        s[0] = u'a';
    if (s.back() == u' ')
        s[s.size() - 1] = u'z';
    return s;
}
static int genIterations(Tape &t)
{
    switch (t.u(5)) {
    case 0: return 1;
    case 1: return 4096;
    case 2: return int(t.pick<int>({ 2, 10, 1000, 4095 }));
    default: return 1 + int(t.u(1u << t.u(12)));
    }
}
static QByteArray genSalt(Tape &t) { return t.bytes(t.prob(1, 5) ? t.pick<uint32_t>({ 1, 16, 32, 64 }) : 1 + t.u(64)); }
static QByteArray genNonceSuffix(Tape &t)
{
    // printable, no ',' (RFC 5802)
    QByteArray s;
    uint32_t n = 1 + t.u(24);
    for (uint32_t i = 0; i < n; i++) {
        char ch = char(0x21 + t.u(0x7e - 0x21 + 1));
        if (ch == ',')
            ch = '.';
        s += ch;
    }
    return s;
}

static std::unique_ptr<QXmppSaslClient> makeClient(const QString &mech, const QString &user, const QString &password, QObject *parent)
{
    auto c = QXmppSaslClient::create(mech, parent);
    if (!c)
        return c;
    c->setHost(QStringLiteral("example.org"));
    c->setServiceType(QStringLiteral("xmpp"));
    c->setUsername(user);
    Credentials cr;
    cr.password = password;
    c->setCredentials(cr);
    return c;
}

VCHECK("c06.responses", 400)
{
    QObject parent;
    QString user = prepStable(t, 16), password = prepStable(t, 24);
    const QByteArray u8 = user.toUtf8(), p8 = password.toUtf8();
    bool hardName = gen::hasNonAlnum(user) || gen::hasNonAlnum(password);
    int mech = int(t.u(7));   // 0..3 SCRAM, 4 DIGEST-MD5, 5 PLAIN, 6 HT
    if (mech <= 3) {
        Alg alg = algFor(mech);
        QByteArray salt = genSalt(t);
        int iter = genIterations(t);
        QByteArray suffix = genNonceSuffix(t);
        c.sample([&] { return std::string(alg.scram) + " user='" + q(user) + "' password='" + q(password) + "' salt=" + salt.toHex().toStdString() + " i=" + std::to_string(iter); });
        c.label(alg.scram);
        if (hardName || iter == 1 || iter == 4096 || salt.size() == 1 || salt.size() == 64)
            c.nontrivial(vh::fnv(u8, vh::fnv(p8, vh::fnv(salt, vh::fnvInt(uint64_t(iter) * 8 + mech)))));
        auto cl = makeClient(QString::fromLatin1(alg.scram), user, password, &parent);
        c.require(bool(cl), "c06 scram client-not-created", std::string("no client for ") + alg.scram);
        auto first = cl->respond(QByteArray());
        c.require(first.has_value(), "c06 scram no-client-first", "no client-first message");
        // RFC 5802: "n,," gs2 header (no channel binding, no authzid), n=saslname, r=nonce
        c.require(first->startsWith("n,,"), "c06 scram client-first-gs2-header", "client-first does not start with 'n,,': " + qb(*first));
        QByteArray bare = first->mid(3);
        // locate r= as the LAST ",r=" so that an unescaped ',' in the user name does not confuse the reference
        int rpos = bare.lastIndexOf(",r=");
        c.require(bare.startsWith("n=") && rpos > 0, "c06 scram client-first-shape", "client-first-bare is not n=..,r=..: " + qb(bare));
        QByteArray sentName = bare.mid(2, rpos - 2), cnonce = bare.mid(rpos + 3);
        bool needsEscape = u8.contains(',') || u8.contains('=');
        c.require(sentName == saslName(u8), std::string("c06 scram saslname ") + (needsEscape ? "comma-or-equals-not-escaped" : "differs"),
                  "client-first carries n=" + qb(sentName) + " but RFC 5802 saslname of the user name is " + qb(saslName(u8)) + " (',' -> =2C, '=' -> =3D); user='" + q(user) + "'");
        c.require(!cnonce.isEmpty() && !cnonce.contains(','), "c06 scram client-nonce", "client nonce empty or contains ',': " + qb(cnonce));
        QByteArray serverFirst = "r=" + cnonce + suffix + ",s=" + salt.toBase64() + ",i=" + QByteArray::number(iter);
        auto fin = cl->respond(serverFirst);
        c.require(fin.has_value(), "c06 scram honest-server-first-rejected", "client rejected an honest server-first: " + qb(serverFirst));
        QByteArray finalBare = "c=biws,r=" + cnonce + suffix;
        c.require(fin->startsWith(finalBare + ",p="), "c06 scram client-final-shape", "client-final is not 'c=biws,r=<nonce>,p=...': " + qb(*fin));
        QByteArray authMessage = bare + "," + serverFirst + "," + finalBare;
        ScramRef ref = scramRef(alg.md, p8, salt, iter, authMessage);
        QByteArray proof = QByteArray::fromBase64(fin->mid(finalBare.size() + 3));
        c.require(proof == ref.clientProof, std::string("c06 scram proof-differs ") + alg.scram,
                  std::string(alg.scram) + " ClientProof differs from RFC 5802 value; user='" + q(user) + "' password='" + q(password) + "' salt=" + salt.toHex().toStdString() + " i=" + std::to_string(iter) +
                      "\n got=" + proof.toHex().toStdString() + "\n ref=" + ref.clientProof.toHex().toStdString());
        // server-final: right signature accepted
        auto done = cl->respond("v=" + ref.serverSignature.toBase64());
        c.require(done.has_value(), "c06 scram honest-server-final-rejected", "client rejected the correct ServerSignature");
        return;
    }
    if (mech == 4) {
        // DIGEST-MD5
        QByteArray realm = t.b() ? QByteArray() : prepStable(t, 12).toUtf8();
        QByteArray nonce = t.b() ? genNonceSuffix(t) + "=" : prepStable(t, 16).toUtf8();
        int qopForm = int(t.u(3));
        c.sample([&] { return "DIGEST-MD5 user='" + q(user) + "' password='" + q(password) + "' realm='" + qb(realm) + "' nonce='" + qb(nonce) + "'"; });
        c.label("DIGEST-MD5");
        if (hardName || realm.contains('"') || realm.contains('\\') || nonce.contains('"'))
            c.nontrivial(vh::fnv(u8, vh::fnv(p8, vh::fnv(realm, vh::fnv(nonce)))));
        auto cl = makeClient(QStringLiteral("DIGEST-MD5"), user, password, &parent);
        auto first = cl->respond(QByteArray());
        c.require(first.has_value() && first->isEmpty(), "c06 digest initial-response", "DIGEST-MD5 must not send an initial response");
        QByteArray challenge;
        if (!realm.isEmpty())
            challenge += "realm=" + digestQuote(realm) + ",";
        challenge += "nonce=" + digestQuote(nonce);
        if (qopForm == 1)
            challenge += ",qop=\"auth\"";
        else if (qopForm == 2)
            challenge += ",qop=\"auth,auth-int\"";
        challenge += ",charset=utf-8,algorithm=md5-sess";
        auto resp = cl->respond(challenge);
        bool trailingBackslash = realm.endsWith('\\') || nonce.endsWith('\\');
        c.require(resp.has_value(), std::string("c06 digest honest-challenge-rejected") + (trailingBackslash ? " value-ends-with-backslash" : ""), "client rejected a well-formed challenge: " + qb(challenge));
        QMap<QByteArray, QByteArray> d;
        c.require(digestTokenize(*resp, d), "c06 digest response-not-rfc2831", "digest-response is not a well-formed directive list: " + qb(*resp));
        auto sig = [&](const char *what) { return std::string("c06 digest ") + what + (trailingBackslash ? " value-ends-with-backslash" : ""); };
        c.require(d.value("username") == u8, sig("username"), "username directive '" + qb(d.value("username")) + "' != user name; response: " + qb(*resp));
        c.require(d.value("realm") == realm, sig("realm"), "realm directive '" + qb(d.value("realm")) + "' != offered realm '" + qb(realm) + "'; response: " + qb(*resp));
        c.require(d.value("nonce") == nonce, sig("nonce"), "nonce directive '" + qb(d.value("nonce")) + "' != server nonce '" + qb(nonce) + "'; response: " + qb(*resp));
        c.require(!d.value("cnonce").isEmpty(), "c06 digest cnonce", "no cnonce: " + qb(*resp));
        c.require(d.value("nc") == "00000001", "c06 digest nc", "nc != 00000001: " + qb(*resp));
        c.require(d.value("qop") == "auth", "c06 digest qop", "qop != auth: " + qb(*resp));
        c.require(d.value("digest-uri") == "xmpp/example.org", "c06 digest digest-uri", "digest-uri: " + qb(d.value("digest-uri")));
        c.require(d.value("charset") == "utf-8", "c06 digest charset", "charset=utf-8 missing although the server offered it and the credentials are sent as UTF-8: " + qb(*resp));
        QByteArray expect = digestResponse("AUTHENTICATE", u8, realm, p8, nonce, d.value("cnonce"), d.value("nc"), d.value("digest-uri"));
        c.require(d.value("response") == expect, sig("response-differs"),
                  "response=" + qb(d.value("response")) + " but RFC 2831 gives " + qb(expect) + "; user='" + q(user) + "' password='" + q(password) + "' realm='" + qb(realm) + "' nonce='" + qb(nonce) + "'");
        QByteArray rspauth = digestResponse("", u8, realm, p8, nonce, d.value("cnonce"), d.value("nc"), d.value("digest-uri"));
        if (t.b()) {
            auto ok = cl->respond("rspauth=" + rspauth);
            c.require(ok.has_value(), "c06 digest honest-rspauth-rejected", "client rejected the correct rspauth");
        } else {
            QByteArray bad = rspauth;
            switch (t.u(4)) {
            case 0: bad[int(t.u(uint32_t(bad.size())))] = bad[0] == 'f' ? '0' : 'f'; break;
            case 1: bad.chop(1 + int(t.u(31))); break;
            case 2: bad = QByteArray(); break;
            case 3: bad = digestResponse("", u8, realm, p8 + "x", nonce, d.value("cnonce"), d.value("nc"), d.value("digest-uri")); break;
            }
            if (bad != rspauth) {
                auto ok = cl->respond(bad.isEmpty() && t.b() ? QByteArray() : "rspauth=" + bad);
                c.require(!ok.has_value(), "c06 digest wrong-rspauth-accepted", "client accepted rspauth '" + qb(bad) + "' (correct: " + qb(rspauth) + ")");
            }
        }
        return;
    }
    if (mech == 5) {
        c.label("PLAIN");
        c.sample([&] { return "PLAIN user='" + q(user) + "' password='" + q(password) + "'"; });
        if (hardName)
            c.nontrivial(vh::fnv(u8, vh::fnv(p8)));
        auto cl = makeClient(QStringLiteral("PLAIN"), user, password, &parent);
        auto first = cl->respond(QByteArray());
        QByteArray expect = QByteArray(1, '\0') + u8 + QByteArray(1, '\0') + p8;
        c.require(first.has_value() && *first == expect, "c06 plain message", "PLAIN message is " + qb(first.value_or("<none>")) + ", RFC 4616 prescribes " + qb(expect));
        return;
    }
    // HT-*-NONE
    {
        int h = int(t.u(2));
        QString name = h ? QStringLiteral("HT-SHA3-512-NONE") : QStringLiteral("HT-SHA-256-NONE");
        const EVP_MD *md = h ? EVP_sha3_512() : EVP_sha256();
        QString token = prepStable(t, 40);
        c.label("HT");
        c.sample([&] { return q(name) + " user='" + q(user) + "' token='" + q(token) + "'"; });
        if (gen::hasNonAlnum(user) || gen::hasNonAlnum(token))
            c.nontrivial(vh::fnv(u8, vh::fnv(token.toUtf8(), vh::fnvInt(h))));
        auto cl = QXmppSaslClient::create(name, &parent);
        c.require(bool(cl), "c06 ht client-not-created", "no client for " + q(name));
        cl->setUsername(user);
        Credentials cr;
        cr.htToken = HtToken { *SaslHtMechanism::fromString(name), token, QDateTime() };
        cl->setCredentials(cr);
        auto first = cl->respond(QByteArray());
        QByteArray expect = u8 + QByteArray(1, '\0') + Hmac(md, token.toUtf8(), "Initiator");
        c.require(first.has_value() && *first == expect, "c06 ht message", "HT initial response differs from XEP-0484 (authcid NUL HMAC(token,'Initiator')): got " + qb(first.value_or("<none>")));
    }
}

// ---- c06.refuse ---------------------------------------------------------------------------------------------------
struct Wire : SendDataInterface {
    QList<QByteArray> sent;
    bool sendData(const QByteArray &d) override
    {
        sent << d;
        return true;
    }
};
static QByteArray b64text(const QDomElement &e) { return QByteArray::fromBase64(e.text().toLatin1()); }

VCHECK("c06.refuse", 300)
{
    const bool sasl2 = t.b();
    const int algI = int(t.u(4));
    const Alg alg = algFor(algI);
    const QString user = QStringLiteral("alice"), password = QStringLiteral("pencil");
    QXmppConfiguration cfg;
    cfg.setJid(QStringLiteral("alice@example.org"));
    cfg.setPassword(password);
    cfg.setSasl2UserAgent(QXmppSasl2UserAgent(QUuid::fromString(QStringLiteral("d4565fa7-4d72-4749-b3d3-740edbf87770")), QStringLiteral("verif"), QStringLiteral("harness")));
    Wire wire;
    QXmppLoggable loggable;
    SaslManager m1(&wire);
    Sasl2Manager m2(&wire);
    std::optional<bool> outcome;   // true = success reported
    QString errorText;
    if (!sasl2) {
        auto task = m1.authenticate(cfg, { QString::fromLatin1(alg.scram) }, &loggable);
        task.then(&loggable, [&](SaslManager::AuthResult &&r) {
            outcome = std::holds_alternative<QXmpp::Success>(r);
            if (auto *e = std::get_if<SaslManager::AuthError>(&r))
                errorText = e->first;
        });
    } else {
        Sasl2::StreamFeature f;
        f.mechanisms << QString::fromLatin1(alg.scram);
        auto task = m2.authenticate(Sasl2::Authenticate(), cfg, f, &loggable);
        task.then(&loggable, [&](Sasl2Manager::AuthResult &&r) {
            outcome = std::holds_alternative<Sasl2::Success>(r);
            if (auto *e = std::get_if<Sasl2Manager::AuthError>(&r))
                errorText = e->first;
        });
    }
    c.require(wire.sent.size() == 1, "c06 refuse no-auth-sent", "no <auth/> sent");
    auto pa = xu::parseFragment(wire.sent.first());
    QByteArray clientFirst = sasl2 ? QByteArray::fromBase64(pa.el.firstChildElement(QStringLiteral("initial-response")).text().toLatin1()) : b64text(pa.el);
    c.require(clientFirst.startsWith("n,,n="), "c06 refuse client-first", "unexpected client-first: " + qb(clientFirst));
    QByteArray bare = clientFirst.mid(3);
    QByteArray cnonce = bare.mid(bare.lastIndexOf(",r=") + 3);

    const char *ns = sasl2 ? "urn:xmpp:sasl:2" : "urn:ietf:params:xml:ns:xmpp-sasl";
    std::string history;
    bool proofShown = false;   // the correct ServerSignature has been delivered to (and processed by) the client
    bool clientProofSent = false;
    auto deliver = [&](const QByteArray &xml) {
        auto p = xu::parseFragment(xml);
        if (!p.ok())
            return;
        if (sasl2)
            m2.handleElement(p.el);
        else
            m1.handleElement(p.el);
    };
    auto challenge = [&](const QByteArray &data) { return QByteArray("<challenge xmlns='") + ns + "'>" + data.toBase64() + "</challenge>"; };
    auto success = [&](const std::optional<QByteArray> &data) {
        if (sasl2)
            return QByteArray("<success xmlns='urn:xmpp:sasl:2'>") + (data ? "<additional-data>" + data->toBase64() + "</additional-data>" : QByteArray()) +
                "<authorization-identifier>alice@example.org</authorization-identifier></success>";
        return QByteArray("<success xmlns='urn:ietf:params:xml:ns:xmpp-sasl'>") + (data ? data->toBase64() : QByteArray()) + "</success>";
    };

    // ---- step 1: what the server does after client-first
    int plan = int(t.weighted({ 5, 4, 2 }));   // 0 proper server-first, 1 must-reject server-first, 2 early success
    QByteArray salt = genSalt(t);
    int iter = 1 + int(t.u(64));
    QByteArray suffix = genNonceSuffix(t);
    QByteArray serverFirst;
    std::string rejectKind;
    if (plan == 2) {
        // the success may carry data: nothing, an (otherwise honest) server-first message, a signature the server cannot
        // know, garbage, or an empty payload - none of them proves knowledge of the password
        std::optional<QByteArray> data;
        std::string dataKind = "no-data";
        switch (t.u(5)) {
        case 1: data = "r=" + cnonce + suffix + ",s=" + salt.toBase64() + ",i=" + QByteArray::number(iter); dataKind = "server-first-as-data"; break;
        case 2: data = "v=" + t.bytes(uint32_t(EVP_MD_size(alg.md))).toBase64(); dataKind = "unverifiable-signature"; break;
        case 3: data = t.bytes(1 + t.len(30)); dataKind = "garbage"; break;
        case 4: data = QByteArray(); dataKind = "empty-data"; break;
        default: break;
        }
        history += " <success/>(before server-first, " + dataKind + ")";
        deliver(success(data));
        c.label("early-success");
        c.label("early-success:" + dataKind);
        c.nontrivial(vh::fnvInt(uint64_t(sasl2) * 16 + algI, vh::fnv(history)));
        c.sample([&] { return std::string(sasl2 ? "SASL2 " : "SASL1 ") + alg.scram + ":" + history; });
        c.require(!(outcome && *outcome), std::string("c06 refuse success-without-server-proof early ") + (sasl2 ? "sasl2" : "sasl1"),
                  std::string(alg.scram) + " login reported successful although the server never sent a server-first message, let alone a ServerSignature; history:" + history);
        return;
    }
    if (plan == 1) {
        QByteArray nonce = cnonce + suffix;
        QByteArray s = "s=" + salt.toBase64(), i = "i=" + QByteArray::number(iter);
        switch (t.u(10)) {
        case 0: nonce[0] = nonce[0] == 'A' ? 'B' : 'A'; rejectKind = "nonce-first-byte-changed"; break;
        case 1: nonce[cnonce.size() / 2] = nonce[cnonce.size() / 2] == 'A' ? 'B' : 'A'; rejectKind = "nonce-middle-byte-changed"; break;
        case 2: nonce[cnonce.size() - 1] = nonce[cnonce.size() - 1] == 'A' ? 'B' : 'A'; rejectKind = "nonce-last-client-byte-changed"; break;
        case 3: nonce = cnonce.left(cnonce.size() - 1 - int(t.u(uint32_t(cnonce.size() - 1)))); rejectKind = "nonce-truncated"; break;
        case 4: nonce = QByteArray(); rejectKind = "nonce-empty"; break;
        case 5: s = QByteArray(); rejectKind = "salt-missing"; break;
        case 6: s = "s="; rejectKind = "salt-empty"; break;
        case 7: i = t.pick<QByteArray>({ "i=0", "i=-1", "i=-4096" }); rejectKind = "iterations-not-positive"; break;
        case 8: i = t.pick<QByteArray>({ "i=abc", "i=", "i=4096x", "i=1e3" }); rejectKind = "iterations-not-numeric"; break;
        case 9: i = QByteArray(); rejectKind = "iterations-missing"; break;
        }
        QList<QByteArray> parts;
        parts << "r=" + nonce;
        if (!s.isEmpty())
            parts << s;
        if (!i.isEmpty())
            parts << i;
        serverFirst = parts.join(',');
        history += " server-first(" + rejectKind + ")";
    } else {
        serverFirst = "r=" + cnonce + suffix + ",s=" + salt.toBase64() + ",i=" + QByteArray::number(iter);
        history += " server-first(honest)";
    }
    int before = wire.sent.size();
    deliver(challenge(serverFirst));
    QByteArray clientFinal;
    if (wire.sent.size() > before) {
        auto pr = xu::parseFragment(wire.sent.last());
        clientFinal = b64text(pr.el);
        clientProofSent = clientFinal.contains(",p=");
    }
    if (plan == 1) {
        c.label("bad-server-first:" + rejectKind);
        c.nontrivial(vh::fnvInt(uint64_t(sasl2) * 16 + algI, vh::fnv(history)));
        c.sample([&] { return std::string(sasl2 ? "SASL2 " : "SASL1 ") + alg.scram + ":" + history + " serverFirst=" + qb(serverFirst); });
        c.require(!clientProofSent, "c06 refuse proof-sent-for-invalid-server-first " + rejectKind, "client answered an invalid server-first (" + rejectKind + ") with a proof: " + qb(serverFirst) + " -> " + qb(clientFinal));
        // whatever follows, the login must not be reported successful
        deliver(success(std::nullopt));
        c.require(!(outcome && *outcome), "c06 refuse success-after-invalid-server-first " + rejectKind, "login reported successful after an invalid server-first (" + rejectKind + ")");
        return;
    }
    c.require(clientProofSent, "c06 refuse honest-server-first-rejected", "no client-final after an honest server-first; error: " + q(errorText));
    QByteArray finalBare = clientFinal.left(clientFinal.indexOf(",p="));
    QByteArray authMessage = bare + "," + serverFirst + "," + finalBare;
    ScramRef ref = scramRef(alg.md, password.toUtf8(), salt, iter, authMessage);
    const QByteArray goodV = "v=" + ref.serverSignature.toBase64();

    // ---- step 2: server-final
    // 0 correct in challenge, 1 wrong in challenge, 2 none (success straight away), 3 correct inside <success/>, 4 wrong inside <success/>, 5 e=error
    int fin = int(t.weighted({ 4, 5, 3, 3, 4, 1 }));
    auto wrongSignature = [&](std::string &kind) {
        QByteArray sg = ref.serverSignature;
        switch (t.u(6)) {
        case 0: sg[int(t.u(uint32_t(sg.size())))] = char(sg[0] ^ char(1 << t.u(8))); sg[0] = char(sg[0] ^ 1); kind = "bit-flipped"; break;
        case 1: sg = sg.left(1 + int(t.u(uint32_t(sg.size() - 1)))); kind = "truncated-prefix"; break;
        case 2: sg = sg + t.bytes(1 + t.u(8)); kind = "extended"; break;
        case 3: sg = QByteArray(); kind = "empty"; break;
        case 4: sg = scramRef(alg.md, "other-password", salt, iter, authMessage).serverSignature; kind = "other-password"; break;
        case 5: sg = t.bytes(uint32_t(sg.size())); kind = "random"; break;
        }
        if (sg == ref.serverSignature) {
            sg[0] = char(sg[0] ^ 0x55);
            kind += "(adjusted)";
        }
        return sg;
    };
    std::string kind;
    switch (fin) {
    case 0:
        history += " server-final(correct)";
        deliver(challenge(goodV));
        proofShown = true;
        history += " <success/>";
        deliver(success(std::nullopt));
        break;
    case 1: {
        QByteArray w = wrongSignature(kind);
        history += " server-final(wrong:" + kind + ")";
        deliver(challenge("v=" + w.toBase64()));
        history += " <success/>";
        deliver(success(std::nullopt));
        break;
    }
    case 2:
        history += " <success/>(no server-final)";
        deliver(success(std::nullopt));
        break;
    case 3:
        history += " <success>(correct signature inside)";
        proofShown = true;
        deliver(success(goodV));
        break;
    case 4: {
        QByteArray w = wrongSignature(kind);
        history += " <success>(wrong signature inside:" + kind + ")";
        deliver(success("v=" + w.toBase64()));
        break;
    }
    case 5:
        history += " server-final(e=invalid-proof) <success/>";
        deliver(challenge("e=invalid-proof"));
        deliver(success(std::nullopt));
        break;
    }
    c.label(std::string("final:") + std::to_string(fin));
    c.nontrivial(vh::fnvInt(uint64_t(sasl2) * 16 + algI, vh::fnv(history)));
    c.sample([&] { return std::string(sasl2 ? "SASL2 " : "SASL1 ") + alg.scram + ":" + history; });
    bool ok = outcome && *outcome;
    if (!proofShown) {
        std::string cls = fin == 1 ? "wrong-signature-in-challenge " + kind : fin == 2 ? "no-server-final" : fin == 4 ? "wrong-signature-in-success " + kind : "error-in-server-final";
        c.require(!ok, "c06 refuse success-without-server-proof " + cls + (sasl2 ? " sasl2" : " sasl1"),
                  std::string(alg.scram) + " login reported successful although the server never proved knowledge of the password (" + cls + "); history:" + history);
    } else if (fin == 0) {
        c.require(ok, "c06 refuse honest-exchange-not-successful", "honest SCRAM exchange did not end in success (" + q(errorText) + "); history:" + history);
    }
    // fin == 3 (signature inside <success/>): an RFC 6120 / XEP-0388 conforming server; accepting is right, and a client that
    // cannot read it may also fail: not judged either way.
}

VH_MAIN()
