// The generic oracle over the object-first tables (C01, sub-check c01.objects): see objgen.h for what an entry does.
//   (1) every getter equal after parse(serialize(x));  (2) re-serialisation equal up to sibling order;
//   (3) structure lock: the element skeleton does not depend on the string values;  (4) well-formed output;
//   and the class's own parser admits the class's own output.
#pragma once

#include "objgen.h"

namespace og {

inline std::string q(const QString &s) { return vh::s(s); }

// the registry must have been filled by the caller
inline void runObjectCheck(vh::Tape &t, vh::Ctx &c)
{
    auto &reg = registry();

    // --param class=<name> restricts the run to one class (triage)
    static const std::string only = c.params.count("class") ? c.params.at("class") : std::string();
    size_t k = t.u(uint32_t(reg.size()));
    if (!only.empty()) {
        for (size_t i = 0; i < reg.size(); i++)
            if (only == reg[i].name)
                k = i;
    }
    const auto &e = reg[k];
    const std::string name = e.name;
    Tape benignTape = t;
    msggen::Vals v { t, msggen::Hard };
    Outcome o;
    e.run(v, o);
    c.label("class:" + name);
    c.sample([&] { return name + " xml=" + o.xml.left(300).toStdString(); });
    if (o.xml.isEmpty()) {
        c.label("empty-output");
        return;
    }
    c.nontrivial(vh::fnv(o.before.join(QChar(0x1e)).toUtf8(), vh::fnv(QByteArray(e.name))));
    if (v.sawHard)
        c.label("hard-string");
    // (4) well-formed
    QString werr;
    c.require(xu::wellFormed(QString::fromUtf8(o.xml), &werr), "c01.objects " + name + " not-well-formed", [&] { return name + ": output is not well-formed (" + q(werr) + "): " + o.xml.toStdString(); });
    // the class's own parser must admit the class's own output
    c.require(o.reparsed, "c01.objects " + name + " own-output-rejected", [&] { return name + ": the class's parser rejects (or cannot reach) what its serialiser wrote: " + o.xml.toStdString(); });
    // (1) getters
    c.require(o.before == o.after, "c01.objects " + name + " field-lost " + q(msggen::firstDifferenceKey(o.before, o.after)), [&] {
        return name + ": getter differs after parse(serialize(x)): " + q(msggen::firstDifference(o.before, o.after)) + "\n xml=" + o.xml.toStdString();
    });
    // (2) re-serialise, up to sibling order
    auto p = xu::parseFragment(o.xml), p2 = xu::parseFragment(o.xml2);
    c.require(p2.ok() && xu::canonical(p2.el, true) == xu::canonical(p.el, true), "c01.objects " + name + " reserialize-differs",
              [&] { return name + ": serialize(parse(serialize(x))) differs\n first =" + o.xml.toStdString() + "\n second=" + o.xml2.toStdString(); });
    // (3) structure lock against the benign twin (same tape, every free-text value replaced by a short marker)
    msggen::Vals vb { benignTape, msggen::Benign };
    Outcome ob;
    e.run(vb, ob);
    auto pb = xu::parseFragment(ob.xml);
    c.require(pb.ok() && xu::skeleton(p.el) == xu::skeleton(pb.el), "c01.objects " + name + " structure-depends-on-values", [&] {
        return name + ": element structure changes with field values (markup injection or value-dependent loss)\n hard  =" + o.xml.toStdString() + "\n benign=" + ob.xml.toStdString();
    });
}

}   // namespace og
