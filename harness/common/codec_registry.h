// Registry of every stanza / payload / nonza class of QXmpp that can be parsed from a QDomElement
// and serialized back to XML ("codec").  Header-only; used by the wire-format properties.
//
// One entry per class (per template instantiation for the PubSub templates):
//   name            class name as written in the library (unique within the registry); structs of
//                   namespace QXmpp::Private are named relative to it ("SmAck", "Sasl2::Success",
//                   "PubSubIq<QXmppGeolocItem>").  Note that "QXmppPubSubIq" is the deprecated
//                   pre-1.5 class from compat/, NOT the template QXmpp::Private::PubSubIq<T>.
//   typed           the class carries its own type check (static isXxx(dom), fromDom() returning
//                   std::optional / std::variant, bool parse(dom) that can say no, or a
//                   fromDataForm() that checks FORM_TYPE); false = it parses whatever it is given
//   accepts         that type check, applied exactly the way the library's dispatch code applies
//                   it; constant true for untyped classes
//   parseSerialize  FRESH default-constructed object -> parse(dom) -> toXml() -> UTF-8 bytes.
//                   Returns an empty QByteArray when a fromDom()/bool-parse()/fromDataForm() style
//                   parser rejects the element.
//
// Rules followed by every entry: no state survives a call, nothing is caught, serialization goes
// through a QXmlStreamWriter on a local QByteArray, QXmppIq subclasses are driven through the public
// QXmppIq::parse(dom) / toXml(writer) pair, QXmppMessage / QXmppPresence / QXmppIq through the plain
// one-argument parse(dom) / toXml(writer).
//
// Parser shapes found in the library and the builder used for each (see namespace detail):
//   void parse(dom) + toXml(w), no type check .................. untyped<T>()
//   void parse(dom) + toXml(w) + static bool isXxx(dom) ........ CODEC_IS(T, isXxx)
//   bool parse(dom) + toXml(w) ................................. boolParse<T>()
//   static std::optional<T> fromDom(dom) + toXml(w) ............ fromDom<T>()
//   QXmppDataForm::parse(dom) -> T::fromDataForm(form) ......... dataForm<T>()
//   anything else .............................................. hand-written lambda pair
//
// ---------------------------------------------------------------------------------------------
// NOT REGISTERED (and why)
//   QXmpp::Private::StreamErrorElement    fromDom() only; no toXml (stream errors are written by
//                                         hand in QXmppIncomingClient / QXmppOutgoingServer).
//   QXmpp::Private::StreamOpen            toXml only; the stream header is never a complete
//                                         element, handleStream() reads attributes directly.
//   QXmpp::Private::CsiActive/CsiInactive toXml only, no parser.
//   QXmppCallInviteElement::External      toXml only (parsed inline by QXmppCallInviteElement).
//   QXmppFileSourcesAttachment            fromDom()/toXml() are private, friend QXmppMessage only;
//                                         exercised through QXmppMessage.
//   QXmppPubSubPublishOptions             fromDataForm() is declared in QXmppPubSubNodeConfig.h but
//                                         defined nowhere (link error); the class is serialize-only
//                                         in practice (toDataForm()).
//   QXmppCredentials                      fromXml(QXmlStreamReader &) / toXml(QXmlStreamWriter &):
//                                         not QDomElement based.
//   QXmppOmemoElement, QXmppOmemoEnvelope,
//   QXmppOmemoDeviceElement/DeviceList/DeviceBundle/OmemoIq/Omemo*Item
//                                         only compiled with BUILD_OMEMO (base/QXmppOmemoDataBase.cpp
//                                         and src/omemo are not part of this build).
//   QXmppE2eeMetadata, QXmppStanzaId, QXmpp::Reply, QXmppSasl2UserAgent,
//   QXmppDiscoveryIq::Identity/Item, QXmppByteStreamIq::StreamHost, QXmppBookmarkConference/Url,
//   QXmppArchiveMessage, QXmppDataForm::Field/Media/MediaSource, QXmppBitsOfBinaryContentId
//                                         plain value classes: no parse(dom)/toXml of their own,
//                                         (de)serialized inline by their owning class.
//   Classes private to a .cpp file (no declaration reachable from a header):
//     BlocklistIq, BlockIq, UnblockIq (QXmppBlockingManager.cpp), CarbonEnableIq
//     (QXmppCarbonManagerV2.cpp), QXmppPrivateStorageIq (QXmppBookmarkManager.cpp), MamMessage
//     (QXmppMamManager.cpp), MixData, RosterData, VCardData (account-export payloads of the
//     Mix/Roster/VCard managers; reached indirectly through QXmppExportData), FileSources
//     (QXmppFileShare.cpp; reached through QXmppFileShare).
//   QXmppSceEnvelopeReader/Writer         not a codec: reader exposes child elements of an
//                                         <envelope/>, writer emits pieces; there is no object that is
//                                         parsed and re-serialized.
//   QXmppStunMessage, QXmppUri            not XML.
//
// Remarks on registered classes
//   QXmppHashUsed::parse() returns false on every input (src/base/QXmppHash.cpp:164), so its
//     `accepts` is constant false and parseSerialize always yields an empty array.  It is registered
//     with the same rule as the other bool-parse() classes rather than special-cased.
//   QXmppOutOfBandUrl::parse() always returns true and QXmppFileMetadata::parse() only rejects a
//     null element: both are registered as untyped.
//   QXmppPubSubSubAuthorization::fromDataForm() never rejects and QXmppPubSubMetadata has no public
//     fromDataForm() at all (the generic protected QXmppDataFormBase::fromDataForm(form, obj) is
//     reached through a derived accessor): both untyped.
//   QXmppExportData: which child elements it understands depends on a process-wide parser table that
//     the Roster/VCard/Mix managers fill in from their constructors.  all() constructs (and
//     destroys) one QXmppClient and one QXmppMixManager before building the table so that the
//     codec always sees the same three registered extensions (roster, vcard, mix).
// ---------------------------------------------------------------------------------------------
#pragma once

#include <functional>
#include <optional>
#include <variant>
#include <vector>

#include <QByteArray>
#include <QDomElement>
#include <QXmlStreamWriter>

// public headers, src/base
#include "QXmppArchiveIq.h"
#include "QXmppBindIq.h"
#include "QXmppBitsOfBinaryData.h"
#include "QXmppBitsOfBinaryDataList.h"
#include "QXmppBitsOfBinaryIq.h"
#include "QXmppBookmarkSet.h"
#include "QXmppByteStreamIq.h"
#include "QXmppDataForm.h"
#include "QXmppDataFormBase.h"
#include "QXmppDiscoveryIq.h"
#include "QXmppElement.h"
#include "QXmppEncryptedFileSource.h"
#include "QXmppEntityTimeIq.h"
#include "QXmppExternalService.h"
#include "QXmppExternalServiceDiscoveryIq.h"
#include "QXmppFallback.h"
#include "QXmppFileMetadata.h"
#include "QXmppFileShare.h"
#include "QXmppGeolocItem.h"
#include "QXmppHash.h"
#include "QXmppHttpFileSource.h"
#include "QXmppHttpUploadIq.h"
#include "QXmppIbbIq.h"
#include "QXmppIq.h"
#include "QXmppJingleData.h"
#include "QXmppMamIq.h"
#include "QXmppMessage.h"
#include "QXmppMessageReaction.h"
#include "QXmppMixConfigItem.h"
#include "QXmppMixInfoItem.h"
#include "QXmppMixInvitation.h"
#include "QXmppMixIq.h"
#include "QXmppMixParticipantItem.h"
#include "QXmppMucIq.h"
#include "QXmppNonSASLAuth.h"
#include "QXmppOutOfBandUrl.h"
#include "QXmppPingIq.h"
#include "QXmppPresence.h"
#include "QXmppPubSubAffiliation.h"
#include "QXmppPubSubBaseItem.h"
#include "QXmppPubSubEvent.h"
#include "QXmppPubSubMetadata.h"
#include "QXmppPubSubNodeConfig.h"
#include "QXmppPubSubSubAuthorization.h"
#include "QXmppPubSubSubscribeOptions.h"
#include "QXmppPubSubSubscription.h"
#include "QXmppPushEnableIq.h"
#include "QXmppRegisterIq.h"
#include "QXmppResultSet.h"
#include "QXmppRosterIq.h"
#include "QXmppRpcIq.h"
#include "QXmppStanza.h"
#include "QXmppStreamFeatures.h"
#include "QXmppThumbnail.h"
#include "QXmppTrustMessageElement.h"
#include "QXmppTrustMessageKeyOwner.h"
#include "QXmppUserTuneItem.h"
#include "QXmppVCardIq.h"
#include "QXmppVersionIq.h"
// deprecated-but-still-compiled API, src/base/compat
#include "compat/QXmppPubSubIq.h"
#undef QXMPPPUBSUBIQ_H   // compat/QXmppPubSubIq.h and QXmppPubSubIq_p.h share one include guard
#include "compat/QXmppPubSubItem.h"
#include "compat/QXmppSessionIq.h"
#include "compat/QXmppStartTlsPacket.h"
// private headers, src/base
#include "QXmppMixIq_p.h"
#include "QXmppPubSubIq_p.h"
#include "QXmppSasl_p.h"
#include "QXmppStreamInitiationIq_p.h"
#include "QXmppStreamManagement_p.h"
#include "Stream.h"
// src/client, src/server
#include "QXmppAccountMigrationManager.h"
#include "QXmppClient.h"
#include "QXmppDialback.h"
#include "QXmppMixManager.h"
#include "QXmppMovedItem_p.h"
#include "QXmppTransferManager.h"

namespace codec {

struct Codec {
    const char *name;
    bool typed;
    std::function<bool(const QDomElement &)> accepts;
    std::function<QByteArray(const QDomElement &)> parseSerialize;
};

namespace detail {

QT_WARNING_PUSH
QT_WARNING_DISABLE_DEPRECATED   // compat classes: deprecated constructors / parse / toXml / isXxx

using Pred = std::function<bool(const QDomElement &)>;

// Runs `emit(QXmlStreamWriter *)` against a writer on a local byte array and returns the bytes.
template<typename Emit>
QByteArray written(Emit &&emit)
{
    // Serialised inside a throw-away parent element: QXmlStreamWriter completes a pending empty-element tag
    // (writeEmptyElement) only when the next token is written, which in the library is always the parent's end
    // tag.  An emitter that leaves elements open makes the wrapper unbalanced: the raw bytes are returned then,
    // and the well-formedness oracle reports them.
    static const QByteArray open = QByteArrayLiteral("<verif-wrap>"), close = QByteArrayLiteral("</verif-wrap>");
    QByteArray out;
    {
        QXmlStreamWriter w(&out);
        w.writeStartElement(QStringLiteral("verif-wrap"));
        w.writeCharacters(QString());
        emit(&w);
        w.writeEndElement();
    }
    if (out.startsWith(open) && out.endsWith(close)) {
        return out.mid(open.size(), out.size() - open.size() - close.size());
    }
    return out;
}

// T t; t.parse(dom); t.toXml(&w);  -- the common shape
template<typename T>
QByteArray parseThenToXml(const QDomElement &dom)
{
    T obj;
    obj.parse(dom);
    return written([&](QXmlStreamWriter *w) { obj.toXml(w); });
}

inline bool always(const QDomElement &) { return true; }

// void parse(dom) / toXml(w), no type check of its own
template<typename T>
Codec untyped(const char *name)
{
    return { name, false, always, parseThenToXml<T> };
}

// void parse(dom) / toXml(w) guarded by the class's static isXxx(dom)
template<typename T>
Codec typedBy(const char *name, Pred is)
{
    return { name, true, std::move(is), parseThenToXml<T> };
}

// bool parse(dom) / toXml(w): the return value of parse() is the type check
template<typename T>
Codec boolParse(const char *name, bool typed = true)
{
    return { name, typed,
             [](const QDomElement &dom) {
                 T obj;
                 return obj.parse(dom);
             },
             [](const QDomElement &dom) {
                 T obj;
                 if (!obj.parse(dom)) {
                     return QByteArray();
                 }
                 return written([&](QXmlStreamWriter *w) { obj.toXml(w); });
             } };
}

// static std::optional<T> fromDom(dom) / toXml(w)
template<typename T>
Codec fromDom(const char *name)
{
    return { name, true,
             [](const QDomElement &dom) { return T::fromDom(dom).has_value(); },
             [](const QDomElement &dom) {
                 auto obj = T::fromDom(dom);
                 if (!obj) {
                     return QByteArray();
                 }
                 return written([&](QXmlStreamWriter *w) { obj->toXml(w); });
             } };
}

// <x xmlns='jabber:x:data'/> -> QXmppDataForm -> T::fromDataForm(form) -> toDataForm() -> toXml
template<typename T>
Codec dataForm(const char *name, bool typed)
{
    return { name, typed,
             [](const QDomElement &dom) {
                 QXmppDataForm form;
                 form.parse(dom);
                 return T::fromDataForm(form).has_value();
             },
             [](const QDomElement &dom) {
                 QXmppDataForm form;
                 form.parse(dom);
                 auto obj = T::fromDataForm(form);
                 if (!obj) {
                     return QByteArray();
                 }
                 const QXmppDataForm out = obj->toDataForm();
                 return written([&](QXmlStreamWriter *w) { out.toXml(w); });
             } };
}

// QXmppPubSubMetadata has no fromDataForm() of its own; the generic one is protected in the base.
struct MetadataAccess : QXmppPubSubMetadata {
    static bool parseInto(const QXmppDataForm &form, QXmppPubSubMetadata &out)
    {
        return QXmppDataFormBase::fromDataForm(form, out);
    }
};

// Fills QXmppExportData's process-wide extension-parser table (roster, vcard, mix) exactly once.
inline void registerExportDataExtensions()
{
    // The managers register their parser from the constructor; none of them has to be used.
    QXmppClient client;     // default extensions include QXmppRosterManager and QXmppVCardManager
    QXmppMixManager mix;    // not added to the client (that would need PubSub + AccountMigration managers)
}

#define CODEC_UNTYPED(T) ::codec::detail::untyped<T>(#T)
#define CODEC_IS(T, isFn) ::codec::detail::typedBy<T>(#T, [](const QDomElement &e) { return bool(T::isFn(e)); })
#define CODEC_BOOLPARSE(T) ::codec::detail::boolParse<T>(#T)
#define CODEC_FROMDOM(T) ::codec::detail::fromDom<T>(#T)

inline std::vector<Codec> build()
{
    using namespace QXmpp::Private;   // codec names of private structs are relative to this namespace

    registerExportDataExtensions();

    std::vector<Codec> r;
    auto add = [&r](Codec c) { r.push_back(std::move(c)); };

    // ------------------------------------------------------------------ the three stanzas
    add(CODEC_UNTYPED(QXmppMessage));
    add(CODEC_UNTYPED(QXmppPresence));
    add(CODEC_UNTYPED(QXmppIq));

    // ------------------------------------------------------------------ generic building blocks
    add(CODEC_UNTYPED(QXmppStanza::Error));
    add(CODEC_UNTYPED(QXmppExtendedAddress));
    add({ "QXmppElement", false, always,
          [](const QDomElement &dom) {
              QXmppElement obj(dom);
              return written([&](QXmlStreamWriter *w) { obj.toXml(w); });
          } });
    add(CODEC_UNTYPED(QXmppDataForm));
    add(CODEC_UNTYPED(QXmppResultSetQuery));
    add(CODEC_UNTYPED(QXmppResultSetReply));

    // ------------------------------------------------------------------ stream-level nonzas (public API)
    add(CODEC_IS(QXmppStreamFeatures, isStreamFeatures));
    add(CODEC_IS(QXmppDialback, isDialback));
    add(CODEC_IS(QXmppStartTlsPacket, isStartTlsPacket));   // deprecated compat class

    // ------------------------------------------------------------------ stream-level nonzas (private structs)
    // Stream.h
    add(CODEC_FROMDOM(StarttlsRequest));
    add(CODEC_FROMDOM(StarttlsProceed));
    // QXmppStreamManagement_p.h (XEP-0198)
    add(CODEC_FROMDOM(SmEnable));
    add(CODEC_FROMDOM(SmEnabled));
    add(CODEC_FROMDOM(SmResume));
    add(CODEC_FROMDOM(SmResumed));
    add(CODEC_FROMDOM(SmFailed));
    add(CODEC_FROMDOM(SmAck));
    add(CODEC_FROMDOM(SmRequest));
    // QXmppSasl_p.h: RFC 6120 SASL
    add(CODEC_FROMDOM(Sasl::Auth));
    add(CODEC_FROMDOM(Sasl::Challenge));
    add(CODEC_FROMDOM(Sasl::Failure));
    add(CODEC_FROMDOM(Sasl::Response));
    add(CODEC_FROMDOM(Sasl::Success));
    // QXmppSasl_p.h: XEP-0386 Bind 2, XEP-0484 FAST
    add(CODEC_FROMDOM(Bind2Feature));
    add(CODEC_FROMDOM(Bind2Request));
    add(CODEC_FROMDOM(Bind2Bound));
    add(CODEC_FROMDOM(FastFeature));
    add(CODEC_FROMDOM(FastTokenRequest));
    add(CODEC_FROMDOM(FastToken));
    add(CODEC_FROMDOM(FastRequest));
    // QXmppSasl_p.h: XEP-0388 SASL 2
    add(CODEC_FROMDOM(Sasl2::StreamFeature));
    add(CODEC_FROMDOM(Sasl2::UserAgent));
    add(CODEC_FROMDOM(Sasl2::Authenticate));
    add(CODEC_FROMDOM(Sasl2::Challenge));
    add(CODEC_FROMDOM(Sasl2::Response));
    add(CODEC_FROMDOM(Sasl2::Success));
    add(CODEC_FROMDOM(Sasl2::Failure));
    add(CODEC_FROMDOM(Sasl2::Continue));
    add(CODEC_FROMDOM(Sasl2::Abort));

    // ------------------------------------------------------------------ IQ payload classes
    add(CODEC_IS(QXmppBindIq, isBindIq));
    add(CODEC_IS(QXmppSessionIq, isSessionIq));   // deprecated compat class
    add(CODEC_IS(QXmppRosterIq, isRosterIq));
    add(CODEC_IS(QXmppDiscoveryIq, isDiscoveryIq));
    add(CODEC_IS(QXmppVCardIq, isVCard));
    add(CODEC_IS(QXmppVersionIq, isVersionIq));
    add(CODEC_IS(QXmppEntityTimeIq, isEntityTimeIq));
    add(CODEC_IS(QXmppPingIq, isPingIq));
    add(CODEC_IS(QXmppRegisterIq, isRegisterIq));
    add(CODEC_IS(QXmppNonSASLAuthIq, isNonSASLAuthIq));
    add(CODEC_IS(QXmppPushEnableIq, isPushEnableIq));
    add(CODEC_IS(QXmppExternalServiceDiscoveryIq, isExternalServiceDiscoveryIq));
    add(CODEC_IS(QXmppHttpUploadRequestIq, isHttpUploadRequestIq));
    add(CODEC_IS(QXmppHttpUploadSlotIq, isHttpUploadSlotIq));
    add(CODEC_IS(QXmppBitsOfBinaryIq, isBitsOfBinaryIq));
    add(CODEC_IS(QXmppMamQueryIq, isMamQueryIq));
    add(CODEC_IS(QXmppMamResultIq, isMamResultIq));
    add(CODEC_IS(QXmppArchiveChatIq, isArchiveChatIq));
    add(CODEC_IS(QXmppArchiveListIq, isArchiveListIq));
    add(CODEC_IS(QXmppArchiveRemoveIq, isArchiveRemoveIq));
    add(CODEC_IS(QXmppArchiveRetrieveIq, isArchiveRetrieveIq));
    add(CODEC_IS(QXmppArchivePrefIq, isArchivePrefIq));
    add(CODEC_IS(QXmppRpcInvokeIq, isRpcInvokeIq));
    add(CODEC_IS(QXmppRpcResponseIq, isRpcResponseIq));
    add(CODEC_IS(QXmppRpcErrorIq, isRpcErrorIq));
    add(CODEC_IS(QXmppMucAdminIq, isMucAdminIq));
    add(CODEC_IS(QXmppMucOwnerIq, isMucOwnerIq));
    add(CODEC_IS(QXmppIbbOpenIq, isIbbOpenIq));
    add(CODEC_IS(QXmppIbbCloseIq, isIbbCloseIq));
    add(CODEC_IS(QXmppIbbDataIq, isIbbDataIq));
    add(CODEC_IS(QXmppByteStreamIq, isByteStreamIq));
    add(CODEC_IS(QXmppStreamInitiationIq, isStreamInitiationIq));
    add(CODEC_IS(QXmppJingleIq, isJingleIq));
    add(CODEC_IS(QXmppMixIq, isMixIq));
    add(CODEC_IS(QXmppMixSubscriptionUpdateIq, isMixSubscriptionUpdateIq));
    add(CODEC_IS(QXmppMixInvitationRequestIq, isMixInvitationRequestIq));
    add(CODEC_IS(QXmppMixInvitationResponseIq, isMixInvitationResponseIq));
    add(CODEC_IS(QXmppPubSubIq, isPubSubIq));   // deprecated compat class (pre-1.5 API)

    // ------------------------------------------------------------------ XEP-0060 PubSub
    // item classes (each isItem() also validates the payload)
    add(CODEC_IS(QXmppPubSubBaseItem, isItem));
    add(CODEC_IS(QXmppGeolocItem, isItem));
    add(CODEC_IS(QXmppTuneItem, isItem));
    add(CODEC_IS(QXmppMixInfoItem, isItem));
    add(CODEC_IS(QXmppMixParticipantItem, isItem));
    add(CODEC_IS(QXmppMixConfigItem, isItem));
    add(CODEC_IS(QXmppMovedItem, isItem));
    add(CODEC_UNTYPED(QXmppPubSubItem));   // deprecated compat class
    // request/response IQ, one instantiation per item class
    add(CODEC_IS(PubSubIq<QXmppPubSubBaseItem>, isPubSubIq));
    add(CODEC_IS(PubSubIq<QXmppGeolocItem>, isPubSubIq));
    add(CODEC_IS(PubSubIq<QXmppTuneItem>, isPubSubIq));
    add(CODEC_IS(PubSubIq<QXmppMixInfoItem>, isPubSubIq));
    add(CODEC_IS(PubSubIq<QXmppMixParticipantItem>, isPubSubIq));
    add(CODEC_IS(PubSubIq<QXmppMixConfigItem>, isPubSubIq));
    add(CODEC_IS(PubSubIq<QXmppMovedItem>, isPubSubIq));
    // event message, one instantiation per item class
    add(CODEC_IS(QXmppPubSubEvent<QXmppPubSubBaseItem>, isPubSubEvent));
    add(CODEC_IS(QXmppPubSubEvent<QXmppGeolocItem>, isPubSubEvent));
    add(CODEC_IS(QXmppPubSubEvent<QXmppTuneItem>, isPubSubEvent));
    add(CODEC_IS(QXmppPubSubEvent<QXmppMixInfoItem>, isPubSubEvent));
    add(CODEC_IS(QXmppPubSubEvent<QXmppMixParticipantItem>, isPubSubEvent));
    add(CODEC_IS(QXmppPubSubEvent<QXmppMixConfigItem>, isPubSubEvent));
    add(CODEC_IS(QXmppPubSubEvent<QXmppMovedItem>, isPubSubEvent));
    // helper elements
    add(CODEC_IS(QXmppPubSubAffiliation, isAffiliation));
    add(CODEC_IS(QXmppPubSubSubscription, isSubscription));
    // data-form backed option sets
    add(dataForm<QXmppPubSubSubscribeOptions>("QXmppPubSubSubscribeOptions", true));
    add(dataForm<QXmppPubSubNodeConfig>("QXmppPubSubNodeConfig", true));
    add(dataForm<QXmppPubSubSubAuthorization>("QXmppPubSubSubAuthorization", false));
    add({ "QXmppPubSubMetadata", false, always,
          [](const QDomElement &dom) {
              QXmppDataForm form;
              form.parse(dom);
              QXmppPubSubMetadata obj;
              if (!MetadataAccess::parseInto(form, obj)) {
                  return QByteArray();
              }
              const QXmppDataForm out = obj.toDataForm();
              return written([&](QXmlStreamWriter *w) { out.toXml(w); });
          } });

    // ------------------------------------------------------------------ XEP-0166/0167/... Jingle parts
    add(CODEC_UNTYPED(QXmppJingleIq::Content));
    add(CODEC_UNTYPED(QXmppJingleCandidate));
    add(CODEC_UNTYPED(QXmppJinglePayloadType));
    add(CODEC_UNTYPED(QXmppJingleDescription));
    add(CODEC_UNTYPED(QXmppJingleReason));
    add(CODEC_IS(QXmppSdpParameter, isSdpParameter));
    add(CODEC_IS(QXmppJingleRtpCryptoElement, isJingleRtpCryptoElement));
    add(CODEC_IS(QXmppJingleRtpEncryption, isJingleRtpEncryption));
    add(CODEC_IS(QXmppJingleRtpFeedbackProperty, isJingleRtpFeedbackProperty));
    add(CODEC_IS(QXmppJingleRtpFeedbackInterval, isJingleRtpFeedbackInterval));
    add(CODEC_IS(QXmppJingleRtpHeaderExtensionProperty, isJingleRtpHeaderExtensionProperty));
    add(CODEC_IS(QXmppJingleMessageInitiationElement, isJingleMessageInitiationElement));
    add(CODEC_IS(QXmppCallInviteElement, isCallInviteElement));
    add(CODEC_UNTYPED(QXmppCallInviteElement::Jingle));

    // ------------------------------------------------------------------ message / presence extensions
    add(CODEC_IS(QXmppMessageReaction, isMessageReaction));
    add(CODEC_IS(QXmppMixInvitation, isMixInvitation));
    add(CODEC_IS(QXmppTrustMessageElement, isTrustMessageElement));
    add(CODEC_IS(QXmppTrustMessageKeyOwner, isTrustMessageKeyOwner));
    add(CODEC_FROMDOM(QXmppFallback));
    add(boolParse<QXmppOutOfBandUrl>("QXmppOutOfBandUrl", /*typed=*/false));
    add(CODEC_UNTYPED(QXmppBitsOfBinaryDataList));
    add({ "QXmppBitsOfBinaryData", true,
          [](const QDomElement &dom) { return QXmppBitsOfBinaryData::isBitsOfBinaryData(dom); },
          [](const QDomElement &dom) {
              QXmppBitsOfBinaryData obj;
              obj.parseElementFromChild(dom);
              return written([&](QXmlStreamWriter *w) { obj.toXmlElementFromChild(w); });
          } });
    // XEP-0447 stateless file sharing and the elements it is built from
    add(CODEC_BOOLPARSE(QXmppFileShare));
    add(boolParse<QXmppFileMetadata>("QXmppFileMetadata", /*typed=*/false));
    add(CODEC_BOOLPARSE(QXmppHash));
    add(CODEC_BOOLPARSE(QXmppHashUsed));   // see remark at the top: parse() never returns true
    add(CODEC_BOOLPARSE(QXmppThumbnail));
    add(CODEC_BOOLPARSE(QXmppHttpFileSource));
    add(CODEC_BOOLPARSE(QXmppEncryptedFileSource));

    // ------------------------------------------------------------------ children of IQ payloads
    add(CODEC_UNTYPED(QXmppRosterIq::Item));
    add(CODEC_UNTYPED(QXmppMucItem));
    add(CODEC_UNTYPED(QXmppVCardAddress));
    add(CODEC_UNTYPED(QXmppVCardEmail));
    add(CODEC_UNTYPED(QXmppVCardPhone));
    add(CODEC_UNTYPED(QXmppVCardOrganization));
    add(CODEC_UNTYPED(QXmppArchiveChat));
    add(CODEC_UNTYPED(QXmppTransferFileInfo));
    add(CODEC_IS(QXmppExternalService, isExternalService));
    add(CODEC_IS(QXmppBookmarkSet, isBookmarkSet));

    // ------------------------------------------------------------------ account export file
    add({ "QXmppExportData", true,
          [](const QDomElement &dom) {
              return std::holds_alternative<QXmppExportData>(QXmppExportData::fromDom(dom));
          },
          [](const QDomElement &dom) {
              auto res = QXmppExportData::fromDom(dom);
              if (auto *obj = std::get_if<QXmppExportData>(&res)) {
                  return written([&](QXmlStreamWriter *w) { obj->toXml(w); });
              }
              return QByteArray();
          } });

    return r;
}

#undef CODEC_UNTYPED
#undef CODEC_IS
#undef CODEC_BOOLPARSE
#undef CODEC_FROMDOM

QT_WARNING_POP

}  // namespace detail

// All codecs, built on first use.  Call from a thread that owns a QCoreApplication.
inline const std::vector<Codec> &all()
{
    static const std::vector<Codec> codecs = detail::build();
    return codecs;
}

}  // namespace codec
