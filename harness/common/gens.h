// Shared value generators (DESIGN.md section 2: G-str, G-typed).  All randomness comes from vh::Tape.
#pragma once

#include "vharness.h"

#include <QDateTime>
#include <QString>
#include <QStringList>
#include <QTimeZone>

namespace gen {

using vh::Tape;

// character classes of G-str
enum StrFlags : unsigned {
    Ascii = 1,          // letters/digits only
    Meta = 2,           // < > & " ' and ]]>
    InnerSpace = 4,     // blanks inside
    EdgeSpace = 8,      // leading/trailing blanks
    Unicode = 16,       // BMP non-ASCII (Latin-1, Greek, CJK, combining, RTL, U+FFFD, private use)
    Astral = 32,        // surrogate pairs
    CtlWs = 64,         // \t \n \r
    All = 127,
    AttrSafe = Ascii | Meta | InnerSpace | Unicode | Astral,           // survives attribute-value normalisation
    TextSafe = Ascii | Meta | InnerSpace | Unicode | Astral,           // never blank at the edges (parsers may trim)
};

inline void appendCp(QString &out, uint32_t cp)
{
    if (cp >= 0x10000) {
        out.append(QChar(QChar::highSurrogate(cp)));
        out.append(QChar(QChar::lowSurrogate(cp)));
    } else {
        out.append(QChar(ushort(cp)));
    }
}

// one XML-legal character of the selected classes
inline void appendChar(Tape &t, QString &out, unsigned flags)
{
    static const char *asciiAlpha = "abcdefghijklmnopqrstuvwxyzABCDEFGHIJKLMNOPQRSTUVWXYZ0123456789-_.:/@+=~!#$%*()[]{}|;,?^`\\";
    for (int attempt = 0; attempt < 4; attempt++) {
        switch (t.weighted({ 8, 4, 1, 4, 2, 1 })) {
        case 0:
            out.append(QChar::fromLatin1(asciiAlpha[t.u(62 + ((flags & Meta) ? 27 : 0))]));
            return;
        case 1:
            if (!(flags & Meta))
                break;
            switch (t.u(7)) {
            case 0: out.append(u'<'); break;
            case 1: out.append(u'>'); break;
            case 2: out.append(u'&'); break;
            case 3: out.append(u'"'); break;
            case 4: out.append(u'\''); break;
            case 5: out.append(QStringLiteral("]]>")); break;
            case 6: out.append(QStringLiteral("&lt;")); break;
            }
            return;
        case 2:
            if (!(flags & InnerSpace))
                break;
            out.append(u' ');
            return;
        case 3: {
            if (!(flags & Unicode))
                break;
            static const uint32_t ranges[][2] = {
                { 0x00A1, 0x00FF }, { 0x0391, 0x03C9 }, { 0x0410, 0x044F }, { 0x4E00, 0x4E7F }, { 0x0300, 0x0310 },
                { 0x05D0, 0x05EA }, { 0xFFFD, 0xFFFD }, { 0xE000, 0xE00F }, { 0xFF01, 0xFF20 }, { 0x0080, 0x00A0 },
                { 0xD7FF, 0xD7FF }, { 0xFFF0, 0xFFFD }, { 0x2028, 0x2029 }, { 0x00AD, 0x00AD }, { 0x200B, 0x200F },
            };
            auto &r = ranges[t.u(sizeof ranges / sizeof ranges[0])];
            appendCp(out, r[0] + t.u(r[1] - r[0] + 1));
            return;
        }
        case 4: {
            if (!(flags & Astral))
                break;
            static const uint32_t ranges[][2] = { { 0x1F600, 0x1F64F }, { 0x10000, 0x1000F }, { 0x10FFF0, 0x10FFFD }, { 0x20000, 0x2000F } };
            auto &r = ranges[t.u(4)];
            appendCp(out, r[0] + t.u(r[1] - r[0] + 1));
            return;
        }
        case 5:
            if (!(flags & CtlWs))
                break;
            out.append(QChar::fromLatin1("\t\n\r"[t.u(3)]));
            return;
        }
    }
    out.append(u'x');
}

// non-blank XML-legal string, 1..maxLen characters
inline QString str(Tape &t, unsigned flags = TextSafe, uint32_t maxLen = 64)
{
    uint32_t n = 1 + t.len(maxLen - 1);
    QString out;
    for (uint32_t i = 0; i < n; i++)
        appendChar(t, out, flags);
    // "blank" in the Unicode sense (NBSP, U+2028, U+0085 ... included): XML tooling strips such text nodes
    auto isBlank = [](QChar c) { return c.isSpace(); };
    if (!(flags & EdgeSpace)) {
        // edges must be non-blank
        if (isBlank(out.front()))
            out[0] = u'a';
        if (isBlank(out.back()))
            out[out.size() - 1] = u'z';
    } else {
        bool all = true;
        for (auto c : out)
            all = all && isBlank(c);
        if (all)
            out.append(u'b');
    }
    return out;
}

// short identifier-like token, unique-ish
inline QString token(Tape &t, const char *prefix = "t")
{
    return QString::fromLatin1(prefix) + QString::number(t.u(100000));
}

inline bool hasNonAlnum(const QString &s)
{
    for (auto c : s) {
        ushort u = c.unicode();
        if (!((u >= '0' && u <= '9') || (u >= 'a' && u <= 'z') || (u >= 'A' && u <= 'Z')))
            return true;
    }
    return false;
}
inline bool hasMeta(const QString &s)
{
    for (auto c : s)
        if (c == u'<' || c == u'>' || c == u'&' || c == u'"' || c == u'\'')
            return true;
    return false;
}
inline bool hasNonAscii(const QString &s)
{
    for (auto c : s)
        if (c.unicode() > 127)
            return true;
    return false;
}
// coarse class of a string for fingerprints
inline unsigned strClass(const QString &s)
{
    unsigned k = 0;
    if (hasMeta(s))
        k |= 1;
    if (hasNonAscii(s))
        k |= 2;
    for (auto c : s) {
        if (c.isHighSurrogate())
            k |= 4;
        if (c == u' ')
            k |= 8;
    }
    if (s.size() > 16)
        k |= 16;
    return k;
}

// integers at type bounds
template<typename T>
inline T intAtBounds(Tape &t)
{
    using L = std::numeric_limits<T>;
    switch (t.u(10)) {
    case 0: return L::min();
    case 1: return L::max();
    case 2: return T(L::max() - 1);
    case 3: return T(L::min() + 1);
    case 4: return 0;
    case 5: return T(t.pick<int>({ 1, 127, 128, 255, 256 }) & int(L::max()));
    case 6: {
        int bits = int(t.u(sizeof(T) * 8));
        return T(T(1) << bits);
    }
    default: {
        uint64_t x = t.u64();
        return T(x);
    }
    }
}

inline QDateTime dateTime(Tape &t, bool allowMs = true)
{
    // 1970..2199, UTC
    qint64 secs = t.range(0, 7258118399ll);
    QDateTime dt = QDateTime::fromSecsSinceEpoch(secs, Qt::UTC);
    if (allowMs && t.b())
        dt = dt.addMSecs(int(t.u(1000)));
    return dt;
}

struct JidParts {
    QString local, domain, resource;
    QString bare() const { return local.isEmpty() ? domain : local + u'@' + domain; }
    QString full() const { return resource.isEmpty() ? bare() : bare() + u'/' + resource; }
};

inline QString jidLocal(Tape &t)
{
    static const QStringList xs = { "alice", "bob", "carol", "dave", "Alice", "al.ice", "a", "juliet", "ro-meo", "müller", "αβ", "user_1", "x+y" };
    return t.pick(xs.toVector().toStdVector());
}
inline QString jidDomain(Tape &t)
{
    static const QStringList xs = { "example.org", "example.com", "xmpp.example.org", "capulet.example", "montague.example", "localhost", "example.org.evil.net", "xn--exmple-cua.org" };
    return t.pick(xs.toVector().toStdVector());
}
inline QString jidResource(Tape &t)
{
    static const QStringList xs = { "phone", "laptop", "QXmpp", "r1", "r2", "a/b", "with space", "été", "@home" };
    return t.pick(xs.toVector().toStdVector());
}
inline QString jid(Tape &t, bool allowBare = true, bool allowFull = true)
{
    JidParts p { jidLocal(t), jidDomain(t), jidResource(t) };
    if (allowBare && allowFull)
        return t.b() ? p.bare() : p.full();
    return allowFull ? p.full() : p.bare();
}

}   // namespace gen
