// Structure-aware XML mutation (DESIGN.md C02): seeds are parsed into a small tree, mutated by
// tape-chosen operators and re-serialised (always well-formed by construction).
#pragma once

#include "vharness.h"
#include "xmlutil.h"

#include <QFile>
#include <QJsonArray>
#include <QJsonDocument>
#include <QSet>

namespace xm {

using vh::Tape;

struct XNode {
    bool isText = false;
    QString text;      // for text nodes
    QString prefix;    // element prefix ("" = default namespace)
    QString name;      // local name
    QString ns;        // namespace URI
    QVector<QPair<QString, QString>> attrs;   // qualified name -> value (no xmlns declarations)
    QVector<XNode> kids;
};

inline XNode fromDom(const QDomElement &e)
{
    XNode n;
    n.prefix = e.prefix();
    n.name = e.localName().isEmpty() ? e.tagName() : e.localName();
    n.ns = e.namespaceURI();
    auto am = e.attributes();
    for (int i = 0; i < am.count(); i++) {
        QDomAttr a = am.item(i).toAttr();
        if (a.name() == u"xmlns" || a.name().startsWith(u"xmlns:"))
            continue;
        n.attrs.push_back({ a.name(), a.value() });
    }
    for (QDomNode c = e.firstChild(); !c.isNull(); c = c.nextSibling()) {
        if (c.isElement()) {
            n.kids.push_back(fromDom(c.toElement()));
        } else if (c.isText() || c.isCDATASection()) {
            XNode t;
            t.isText = true;
            t.text = c.nodeValue();
            n.kids.push_back(t);
        }
    }
    return n;
}

inline QString escAttr(const QString &s)
{
    QString o;
    o.reserve(s.size() + 8);
    for (QChar c : s) {
        switch (c.unicode()) {
        case '<': o += QStringLiteral("&lt;"); break;
        case '>': o += QStringLiteral("&gt;"); break;
        case '&': o += QStringLiteral("&amp;"); break;
        case '"': o += QStringLiteral("&quot;"); break;
        case '\n': o += QStringLiteral("&#10;"); break;
        case '\r': o += QStringLiteral("&#13;"); break;
        case '\t': o += QStringLiteral("&#9;"); break;
        default: o += c;
        }
    }
    return o;
}
inline QString escText(const QString &s)
{
    QString o;
    o.reserve(s.size() + 8);
    for (QChar c : s) {
        switch (c.unicode()) {
        case '<': o += QStringLiteral("&lt;"); break;
        case '>': o += QStringLiteral("&gt;"); break;
        case '&': o += QStringLiteral("&amp;"); break;
        case '\r': o += QStringLiteral("&#13;"); break;
        default: o += c;
        }
    }
    return o;
}

inline void toXml(const XNode &n, const QString &inheritedDefaultNs, QString &out)
{
    if (n.isText) {
        out += escText(n.text);
        return;
    }
    QString qname = n.prefix.isEmpty() ? n.name : n.prefix + u':' + n.name;
    out += u'<';
    out += qname;
    QString defaultNs = inheritedDefaultNs;
    if (n.prefix.isEmpty()) {
        if (n.ns != inheritedDefaultNs) {
            out += QStringLiteral(" xmlns=\"") + escAttr(n.ns) + u'"';
            defaultNs = n.ns;
        }
    } else if (n.prefix != u"xml") {
        out += QStringLiteral(" xmlns:") + n.prefix + QStringLiteral("=\"") + escAttr(n.ns) + u'"';
    }
    QSet<QString> seen;
    for (auto &a : n.attrs) {
        if (seen.contains(a.first))
            continue;
        seen.insert(a.first);
        int colon = a.first.indexOf(u':');
        if (colon > 0) {
            QString p = a.first.left(colon);
            if (p != u"xml" && p != n.prefix)
                out += QStringLiteral(" xmlns:") + p + QStringLiteral("=\"urn:x-verif:attr-prefix\"");
        }
        out += u' ';
        out += a.first;
        out += QStringLiteral("=\"") + escAttr(a.second) + u'"';
    }
    if (n.kids.isEmpty()) {
        out += QStringLiteral("/>");
        return;
    }
    out += u'>';
    for (auto &k : n.kids)
        toXml(k, defaultNs, out);
    out += QStringLiteral("</") + qname + u'>';
}
inline QString toXml(const XNode &n)
{
    QString out;
    toXml(n, QStringLiteral("jabber:client"), out);
    return out;
}

inline void collect(XNode &n, QVector<XNode *> &out)
{
    if (n.isText)
        return;
    out.push_back(&n);
    for (auto &k : n.kids)
        collect(k, out);
}
inline int countNodes(const XNode &n)
{
    int c = 1;
    for (auto &k : n.kids)
        c += countNodes(k);
    return c;
}

struct Corpus {
    QStringList docs;
    QVector<XNode> trees;
    QVector<QPair<QString, QString>> names;   // (ns, local name) seen anywhere in the seeds
    QStringList attrNames;
    QStringList namespaces;
};

inline Corpus &corpus()
{
    static Corpus c;
    static bool loaded = false;
    if (loaded)
        return c;
    loaded = true;
    QByteArray path = qgetenv("VERIF_SEEDS");
    QFile f(QString::fromLocal8Bit(path));
    if (path.isEmpty() || !f.open(QIODevice::ReadOnly)) {
        fprintf(stderr, "VERIF_SEEDS not set or unreadable\n");
        exit(3);
    }
    auto arr = QJsonDocument::fromJson(f.readAll()).array();
    QSet<QString> nameSet, attrSet, nsSet;
    std::function<void(const XNode &)> walk = [&](const XNode &n) {
        if (n.isText)
            return;
        QString key = n.ns + u'|' + n.name;
        if (!nameSet.contains(key)) {
            nameSet.insert(key);
            c.names.push_back({ n.ns, n.name });
        }
        if (!nsSet.contains(n.ns)) {
            nsSet.insert(n.ns);
            c.namespaces << n.ns;
        }
        for (auto &a : n.attrs)
            if (!attrSet.contains(a.first)) {
                attrSet.insert(a.first);
                c.attrNames << a.first;
            }
        for (auto &k : n.kids)
            walk(k);
    };
    for (const auto &v : arr) {
        QString doc = v.toString();
        auto p = xu::parseFragment(doc);
        if (!p.ok())
            continue;
        c.docs << doc;
        c.trees.push_back(fromDom(p.el));
        walk(c.trees.back());
    }
    if (c.trees.isEmpty()) {
        fprintf(stderr, "no usable seeds in VERIF_SEEDS\n");
        exit(3);
    }
    return c;
}

inline QString hostileValue(Tape &t)
{
    static const QStringList vals = {
        QString(), "0", "-1", "1", "2", "127", "128", "255", "256", "32767", "32768", "65535", "65536", "2147483647", "2147483648", "-2147483648", "-2147483649",
        "4294967295", "4294967296", "9223372036854775807", "9223372036854775808", "18446744073709551615", "18446744073709551616", "99999999999999999999999999",
        "-0", "+5", " 12 ", "12abc", "0x10", "1e9", "1.5", "NaN", "true", "false", "TRUE", "yes", "zzz-unknown", "result", "error", "get", "set", "chat", "subscribe",
        "2024-13-45T99:99:99Z", "1970-01-01T00:00:00Z", "2262-04-11T23:47:16.854Z", "0000-00-00T00:00:00Z", "20240101T00:00:00", "+01:00", "Z",
        "QUJD", "====", "not base64 !!", "QQ", "a@b/c", "@", "/", "a@@b", "a@b/", "@b", "\xF0\x9F\x98\x80", "&<>\"'", "]]>", "<x/>", "%00", "cid:sha1+00@bob.xmpp.org", "cid:", "sha1+@",
        "urn:xmpp:sm:3", "jabber:client", "http://jabber.org/protocol/pubsub", "-", ".", ",", ";", "=", "a=b,c=d", "\"", "\\",
    };
    uint32_t k = t.u(uint32_t(vals.size()) + 3);
    if (k < uint32_t(vals.size()))
        return vals[int(k)];
    // huge values: QDomNode::save() inside the library costs microseconds per character, so the really
    // large ones are rare (the size bound of the property is respected, the budget is not burnt on them)
    if (k == uint32_t(vals.size()))
        return QString(int(1 + t.u(t.prob(1, 20) ? 20000 : 600)), QChar(u'A'));
    if (k == uint32_t(vals.size()) + 1)
        return t.prob(1, 40) ? QString(100000, QChar(u'9')) : QString(int(300 + t.u(300)), QChar(u'9'));
    return QString::number(qint64(t.u64()));
}

// apply one mutation; returns a short description
inline QString mutate(Tape &t, XNode &root)
{
    Corpus &c = corpus();
    QVector<XNode *> nodes;
    collect(root, nodes);
    XNode *n = nodes[int(t.u(uint32_t(nodes.size())))];
    auto elementKids = [](XNode *x) {
        QVector<int> idx;
        for (int i = 0; i < x->kids.size(); i++)
            if (!x->kids[i].isText)
                idx << i;
        return idx;
    };
    switch (t.u(16)) {
    case 0: {   // delete a child
        auto idx = elementKids(n);
        if (idx.isEmpty())
            return QStringLiteral("noop");
        int i = idx[int(t.u(uint32_t(idx.size())))];
        QString nm = n->kids[i].name;
        n->kids.remove(i);
        return QStringLiteral("delete<%1>").arg(nm);
    }
    case 1: {   // duplicate a child
        auto idx = elementKids(n);
        if (idx.isEmpty())
            return QStringLiteral("noop");
        int i = idx[int(t.u(uint32_t(idx.size())))];
        XNode copy = n->kids[i];
        int times = t.prob(1, 8) ? int(2 + t.u(60)) : 1;
        for (int k = 0; k < times; k++)
            n->kids.insert(i, copy);
        return QStringLiteral("duplicate<%1>x%2").arg(copy.name).arg(times);
    }
    case 2: {   // reorder
        if (n->kids.size() < 2)
            return QStringLiteral("noop");
        int a = int(t.u(uint32_t(n->kids.size()))), b = int(t.u(uint32_t(n->kids.size())));
        std::swap(n->kids[a], n->kids[b]);
        return QStringLiteral("swap-children");
    }
    case 3: {   // splice a subtree of another seed under this node (wrong parent)
        XNode other = c.trees[int(t.u(uint32_t(c.trees.size())))];
        QVector<XNode *> on;
        collect(other, on);
        XNode sub = *on[int(t.u(uint32_t(on.size())))];
        if (countNodes(root) + countNodes(sub) > 3000)
            return QStringLiteral("noop");
        n->kids.insert(int(t.u(uint32_t(n->kids.size() + 1))), sub);
        return QStringLiteral("splice<%1>under<%2>").arg(sub.name, n->name);
    }
    case 4: {   // re-namespace
        QString old = n->ns;
        n->ns = t.prob(1, 4) ? QString() : c.namespaces[int(t.u(uint32_t(c.namespaces.size())))];
        if (!n->prefix.isEmpty() && n->ns.isEmpty())
            n->prefix.clear();
        return QStringLiteral("renamespace<%1>").arg(n->name);
    }
    case 5: {   // rename to a known element (name + namespace)
        auto &nm = c.names[int(t.u(uint32_t(c.names.size())))];
        n->name = nm.second;
        if (t.b())
            n->ns = nm.first;
        n->prefix.clear();
        return QStringLiteral("rename-to<%1>").arg(nm.second);
    }
    case 6: {   // drop an attribute
        if (n->attrs.isEmpty())
            return QStringLiteral("noop");
        int i = int(t.u(uint32_t(n->attrs.size())));
        QString a = n->attrs[i].first;
        n->attrs.remove(i);
        return QStringLiteral("drop@%1").arg(a);
    }
    case 7:
    case 8:
    case 9: {   // hostile attribute value
        if (n->attrs.isEmpty())
            return QStringLiteral("noop");
        int i = int(t.u(uint32_t(n->attrs.size())));
        n->attrs[i].second = hostileValue(t);
        return QStringLiteral("attr@%1=%2").arg(n->attrs[i].first, n->attrs[i].second.left(24));
    }
    case 10: {   // add a known attribute with a hostile value
        QString a = c.attrNames[int(t.u(uint32_t(c.attrNames.size())))];
        n->attrs.push_back({ a, hostileValue(t) });
        return QStringLiteral("add@%1").arg(a);
    }
    case 11:
    case 12: {   // hostile text
        QString v = hostileValue(t);
        bool done = false;
        for (auto &k : n->kids)
            if (k.isText) {
                k.text = v;
                done = true;
                break;
            }
        if (!done && !v.isEmpty()) {
            XNode tx;
            tx.isText = true;
            tx.text = v;
            n->kids.push_back(tx);
        }
        return QStringLiteral("text<%1>=%2").arg(n->name, v.left(24));
    }
    case 13: {   // remove all children
        n->kids.clear();
        return QStringLiteral("empty<%1>").arg(n->name);
    }
    case 14: {   // deep nesting: wrap the node 2^k times in copies of its own start tag
        int depth = 1 << t.u(9);
        if (countNodes(root) + depth > 6000)
            return QStringLiteral("noop");
        XNode shell = *n;
        shell.kids.clear();
        XNode cur = *n;
        for (int i = 0; i < depth; i++) {
            XNode w = shell;
            w.kids.push_back(cur);
            cur = w;
        }
        *n = cur;
        return QStringLiteral("nest<%1>x%2").arg(shell.name).arg(depth);
    }
    case 15: {   // replace whole node by a subtree of another seed
        XNode other = c.trees[int(t.u(uint32_t(c.trees.size())))];
        QVector<XNode *> on;
        collect(other, on);
        XNode sub = *on[int(t.u(uint32_t(on.size())))];
        if (n == &root)
            return QStringLiteral("noop");
        *n = sub;
        return QStringLiteral("replace-by<%1>").arg(sub.name);
    }
    }
    return QStringLiteral("noop");
}

}   // namespace xm
