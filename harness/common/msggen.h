// Generator and canonical "getter dump" for QXmppMessage with every known extension (used by C01-A and C17).
#pragma once

#include "gens.h"
#include "xmlutil.h"

#include "QXmppBitsOfBinaryContentId.h"
#include "QXmppBitsOfBinaryData.h"
#include "QXmppBitsOfBinaryDataList.h"
#include "QXmppEncryptedFileSource.h"
#include "QXmppFallback.h"
#include "QXmppFileMetadata.h"
#include "QXmppFileShare.h"
#include "QXmppHash.h"
#include "QXmppHttpFileSource.h"
#include "QXmppJingleData.h"
#include "QXmppMessage.h"
#include "QXmppMessageReaction.h"
#include "QXmppMixInvitation.h"
#include "QXmppOutOfBandUrl.h"
#include "QXmppThumbnail.h"
#include "QXmppTrustMessageElement.h"
#include "QXmppTrustMessageKeyOwner.h"

#include <QMimeDatabase>
#include <QUrl>

namespace msggen {

using vh::Tape;

// extension ids (bit positions of the presence mask)
enum Ext {
    // --- public
    XPrivate, XHints, XStanzaIds, XOriginId, XMixUser, XEme, XAddresses, XE2eeFallbackBody,
    // --- parsed in the public block, serialised in the sensitive block (see C17)
    XJmi, XCallInvite,
    // --- sensitive
    XBody, XSubject, XThread, XOob, XXhtml, XState, XStamp, XReceiptId, XReceiptRequest, XAttention, XMucInvite, XBob,
    XReplace, XMarkable, XMarker, XAttach, XSpoiler, XMixInvitation, XTrustMessage, XReaction, XSharedFiles, XFileSources, XReply,
    // --- both
    XFallback,
    XCount
};
static const char *extNames[] = {
    "private", "hints", "stanza-ids", "origin-id", "mix-user", "eme", "addresses", "e2ee-fallback-body",
    "jmi", "call-invite",
    "body", "subject", "thread", "oob", "xhtml", "chat-state", "delay", "receipt-id", "receipt-request", "attention", "muc-invite", "bob",
    "replace", "markable", "marker", "attach-to", "spoiler", "mix-invitation", "trust-message", "reaction", "shared-files", "file-sources", "reply",
    "fallback"
};
inline bool isPublicExt(int x) { return x <= XE2eeFallbackBody; }
inline bool isSensitiveExt(int x) { return x >= XBody && x <= XReply; }

enum ValueMode {
    Hard,     // G-str values (metacharacters, non-ASCII, ...)
    Benign,   // same tape consumption, every string replaced by a short alphanumeric marker
    Tokens,   // same tape consumption, every string replaced by a unique attributable token
};

struct Vals {
    Tape &t;
    ValueMode mode;
    int counter = 0;
    unsigned valueClasses = 0;
    bool sawHard = false;
    uint64_t forbidMask = 0;   // extensions never generated (out of the calling property's domain)
    // Tokens mode: token -> (extension id) for every text-bearing value
    std::vector<std::pair<QString, int>> tokens;
    int currentExt = -1;

    QString s(unsigned flags = gen::TextSafe, uint32_t maxLen = 24)
    {
        QString hard = gen::str(t, flags, maxLen);
        counter++;
        switch (mode) {
        case Hard:
            valueClasses |= gen::strClass(hard);
            if (gen::hasNonAlnum(hard))
                sawHard = true;
            return hard;
        case Benign:
            return QStringLiteral("v%1").arg(counter);
        case Tokens: {
            QString tok = QStringLiteral("TOK%1x%2q").arg(counter).arg(currentExt);
            tokens.push_back({ tok, currentExt });
            return tok;
        }
        }
        return hard;
    }
    // attribute values: no \n \r \t needed to be excluded (Qt escapes them), but keep edges non-blank
    QString attr(uint32_t maxLen = 24) { return s(gen::AttrSafe | gen::CtlWs, maxLen); }
    QString text(uint32_t maxLen = 40) { return s(gen::TextSafe, maxLen); }
    QString jid()
    {
        QString j = gen::jid(t);
        counter++;
        if (mode == Tokens) {
            QString tok = QStringLiteral("tok%1x%2q@example.org").arg(counter).arg(currentExt);
            tokens.push_back({ tok, currentExt });
            return tok;
        }
        return j;
    }
    QByteArray bytes(uint32_t max = 24)
    {
        // binary payloads: never empty
        return t.bytes(1 + t.len(max - 1));
    }
};

struct Generated {
    QXmppMessage m;
    uint64_t mask = 0;
    std::string desc;
    bool has(int x) const { return mask & (1ull << x); }
};

inline QXmppHash genHash(Vals &v)
{
    QXmppHash h;
    h.setAlgorithm(v.t.pick<QXmpp::HashAlgorithm>({ QXmpp::HashAlgorithm::Sha256, QXmpp::HashAlgorithm::Sha1, QXmpp::HashAlgorithm::Sha3_512, QXmpp::HashAlgorithm::Blake2b_256, QXmpp::HashAlgorithm::Md5 }));
    h.setHash(v.bytes(32));
    return h;
}
inline QXmppHttpFileSource genHttpSource(Vals &v)
{
    // URLs: a valid https URL with a generated path segment (percent-encoded by QUrl)
    QUrl u;
    u.setScheme(QStringLiteral("https"));
    u.setHost(QStringLiteral("files.example.org"));
    u.setPath(QStringLiteral("/f/") + (v.mode == Hard ? gen::str(v.t, gen::Ascii, 12) : v.s(gen::Ascii, 12)));
    return QXmppHttpFileSource(u);
}
inline QXmppThumbnail genThumb(Vals &v)
{
    QXmppThumbnail th;
    th.setUri(QStringLiteral("cid:sha1+") + QString::fromLatin1(v.t.bytes(20).toHex()) + QStringLiteral("@bob.xmpp.org"));
    th.setMediaType(QMimeDatabase().mimeTypeForName(v.t.pick<QString>({ "image/png", "image/jpeg" })));
    if (v.t.b())
        th.setWidth(gen::intAtBounds<uint32_t>(v.t));
    if (v.t.b())
        th.setHeight(gen::intAtBounds<uint32_t>(v.t));
    return th;
}
inline QXmppFileMetadata genMetadata(Vals &v)
{
    QXmppFileMetadata md;
    if (v.t.b())
        md.setFilename(v.text(20));
    if (v.t.b())
        md.setDescription(v.text(30));
    if (v.t.b())
        md.setSize(gen::intAtBounds<uint64_t>(v.t));
    if (v.t.b())
        md.setMediaType(QMimeDatabase().mimeTypeForName(v.t.pick<QString>({ "image/png", "text/plain", "application/pdf", "video/mp4" })));
    if (v.t.b())
        md.setWidth(gen::intAtBounds<uint32_t>(v.t));
    if (v.t.b())
        md.setHeight(gen::intAtBounds<uint32_t>(v.t));
    if (v.t.b())
        md.setLength(gen::intAtBounds<uint32_t>(v.t));
    if (v.t.b())
        md.setLastModified(gen::dateTime(v.t));
    if (v.t.b()) {
        QVector<QXmppHash> hs;
        int n = 1 + int(v.t.u(2));
        for (int i = 0; i < n; i++)
            hs.push_back(genHash(v));
        md.setHashes(hs);
    }
    if (v.t.prob(1, 3))
        md.setThumbnails({ genThumb(v) });
    return md;
}
inline QXmppEncryptedFileSource genEncSource(Vals &v)
{
    QXmppEncryptedFileSource e;
    e.setCipher(v.t.pick<QXmpp::Cipher>({ QXmpp::Aes128GcmNoPad, QXmpp::Aes256GcmNoPad, QXmpp::Aes256CbcPkcs7 }));
    e.setKey(v.bytes(32));
    e.setIv(v.bytes(16));
    if (v.t.b())
        e.setHashes({ genHash(v) });
    e.setHttpSources({ genHttpSource(v) });
    return e;
}

// Generate a message.  `only` (>=0) restricts the optional extensions to that single one (plus `also`).
inline Generated genMessage(Vals &v, bool allowXhtml = true)
{
    Tape &t = v.t;
    Generated g;
    QXmppMessage &m = g.m;
    std::string d;
    // subset shape: 0 = each ext with p=1/4, 1 = singleton, 2 = pair, 3 = all, 4 = each with p=1/2
    int shape = int(t.weighted({ 4, 2, 2, 1, 3 }));
    uint64_t want = 0;
    switch (shape) {
    case 0:
        for (int i = 0; i < XCount; i++)
            if (t.prob(1, 4))
                want |= 1ull << i;
        break;
    case 1: want = 1ull << t.u(XCount); break;
    case 2: want = (1ull << t.u(XCount)) | (1ull << t.u(XCount)); break;
    case 3: want = (1ull << XCount) - 1; break;
    case 4:
        for (int i = 0; i < XCount; i++)
            if (t.b())
                want |= 1ull << i;
        break;
    }
    want &= ~v.forbidMask;
    if (want & (1ull << XReceiptId))
        want &= ~(1ull << XReceiptRequest);   // documented: an ack never carries a receipt request
    auto on = [&](int x) {
        bool o = want & (1ull << x);
        if (o) {
            g.mask |= 1ull << x;
            d += std::string(d.empty() ? "" : ",") + extNames[x];
        }
        v.currentExt = x;
        return o;
    };

    // routing (always public)
    v.currentExt = -1;
    m.setType(t.pick<QXmppMessage::Type>({ QXmppMessage::Chat, QXmppMessage::Normal, QXmppMessage::GroupChat, QXmppMessage::Headline, QXmppMessage::Error }));
    if (t.b())
        m.setTo(gen::jid(t));
    if (t.b())
        m.setFrom(gen::jid(t));
    if (t.b()) {
        QString hardId = gen::str(t, gen::AttrSafe, 16);   // consumed in every mode (tape stays in sync)
        m.setId(v.mode == Hard ? hardId : QStringLiteral("id1"));
    } else {
        m.setId(QString());
    }

    if (on(XPrivate))
        m.setPrivate(true);
    if (on(XHints)) {
        int bits = 1 + int(t.u(15));
        for (int i = 0; i < 4; i++)
            if (bits & (1 << i))
                m.addHint(QXmppMessage::Hint(1 << i));
    }
    if (on(XStanzaIds)) {
        QVector<QXmppStanzaId> ids;
        int n = 1 + int(t.u(2));
        for (int i = 0; i < n; i++)
            ids.push_back({ v.attr(), t.b() ? v.jid() : QString() });
        m.setStanzaIds(ids);
    }
    if (on(XOriginId))
        m.setOriginId(v.attr());
    if (on(XMixUser)) {
        m.setMixUserJid(v.jid());
        m.setMixUserNick(v.text(16));
    }
    if (on(XEme)) {
        if (t.b()) {
            m.setEncryptionMethod(t.pick<QXmpp::EncryptionMethod>({ QXmpp::Omemo2, QXmpp::Omemo0, QXmpp::Ox, QXmpp::Otr, QXmpp::LegacyOpenPgp, QXmpp::Omemo1 }));
        } else {
            m.setEncryptionMethodNs(QStringLiteral("urn:example:enc:") + v.s(gen::Ascii, 8));
            m.setEncryptionName(v.attr(12));
        }
    }
    if (on(XAddresses)) {
        QList<QXmppExtendedAddress> as;
        int n = 1 + int(t.u(2));
        for (int i = 0; i < n; i++) {
            QXmppExtendedAddress a;
            a.setJid(v.jid());
            a.setType(t.pick<QString>({ "to", "cc", "bcc", "replyto", "ofrom" }));
            if (t.b())
                a.setDescription(v.attr());
            if (t.b())
                a.setDelivered(true);
            as << a;
        }
        m.setExtendedAddresses(as);
    }
    if (on(XE2eeFallbackBody))
        m.setE2eeFallbackBody(v.text());
    if (on(XJmi)) {
        QXmppJingleMessageInitiationElement j;
        using T = QXmppJingleMessageInitiationElement::Type;
        j.setType(t.pick<T>({ T::Propose, T::Ringing, T::Proceed, T::Reject, T::Retract, T::Finish }));
        j.setId(v.attr());
        if (j.type() == T::Reject || j.type() == T::Retract)
            j.setContainsTieBreak(t.b());
        if (j.type() == T::Finish && t.b())
            j.setMigratedTo(v.attr());
        m.setJingleMessageInitiationElement(j);
    }
    if (on(XCallInvite)) {
        QXmppCallInviteElement ci;
        using T = QXmppCallInviteElement::Type;
        ci.setType(t.pick<T>({ T::Invite, T::Retract, T::Accept, T::Reject, T::Left }));
        ci.setId(v.attr());
        if (ci.type() == T::Invite) {
            ci.setAudio(t.b());
            ci.setVideo(t.b());
        }
        if (ci.type() == T::Invite || ci.type() == T::Accept) {
            if (t.b())
                ci.setJingle(QXmppCallInviteElement::Jingle { v.attr(), t.b() ? std::optional<QString>(v.jid()) : std::nullopt });
            if (t.b())
                ci.setExternal(QVector<QXmppCallInviteElement::External> { { v.attr() } });
        }
        m.setCallInviteElement(ci);
    }
    if (on(XBody))
        m.setBody(v.text(60));
    if (on(XSubject))
        m.setSubject(v.text());
    if (on(XThread)) {
        m.setThread(v.text(20));
        if (t.b())
            m.setParentThread(v.attr(20));
    }
    if (on(XOob)) {
        QVector<QXmppOutOfBandUrl> urls;
        int n = 1 + int(t.u(2));
        for (int i = 0; i < n; i++) {
            QXmppOutOfBandUrl u;
            u.setUrl(QStringLiteral("https://example.org/") + v.text(16));
            if (t.b())
                u.setDescription(v.text(16));
            urls.push_back(u);
        }
        m.setOutOfBandUrls(urls);
    }
    if (on(XXhtml) && allowXhtml) {
        // documented raw-write exception: generate well-formed XHTML only, value-independent of G-str
        QString tok = v.mode == Tokens ? v.s() : QStringLiteral("hello");
        if (v.mode != Tokens)
            v.s();   // keep tape consumption equal across modes
        m.setXhtml(QStringLiteral("<p>") + tok + QStringLiteral("</p>"));
    }
    if (on(XState))
        m.setState(t.pick<QXmppMessage::State>({ QXmppMessage::Active, QXmppMessage::Inactive, QXmppMessage::Gone, QXmppMessage::Composing, QXmppMessage::Paused }));
    if (on(XStamp))
        m.setStamp(gen::dateTime(t));
    if (on(XReceiptId))
        m.setReceiptId(v.attr());
    if (on(XReceiptRequest))
        m.setReceiptRequested(true);
    if (on(XAttention))
        m.setAttentionRequested(true);
    if (on(XMucInvite)) {
        m.setMucInvitationJid(v.jid());
        if (t.b())
            m.setMucInvitationPassword(v.attr());
        if (t.b())
            m.setMucInvitationReason(v.attr());
    }
    if (on(XBob)) {
        QXmppBitsOfBinaryDataList list;
        int n = 1 + int(t.u(2));
        for (int i = 0; i < n; i++) {
            QXmppBitsOfBinaryData b = QXmppBitsOfBinaryData::fromByteArray(v.bytes(40));
            if (t.b())
                b.setMaxAge(int(t.range(0, 2147483647)));
            b.setContentType(QMimeDatabase().mimeTypeForName(t.pick<QString>({ "image/png", "text/plain" })));
            list << b;
        }
        m.setBitsOfBinaryData(list);
    }
    if (on(XReplace))
        m.setReplaceId(v.attr());
    if (on(XMarkable))
        m.setMarkable(true);
    if (on(XMarker)) {
        m.setMarker(t.pick<QXmppMessage::Marker>({ QXmppMessage::Received, QXmppMessage::Displayed, QXmppMessage::Acknowledged }));
        m.setMarkerId(v.attr());
        if (t.b())
            m.setMarkedThread(v.attr());
    }
    if (on(XAttach))
        m.setAttachId(v.attr());
    if (on(XSpoiler)) {
        m.setIsSpoiler(true);
        if (t.b())
            m.setSpoilerHint(v.text());
    }
    if (on(XMixInvitation)) {
        QXmppMixInvitation inv;
        inv.setInviterJid(v.jid());
        inv.setInviteeJid(v.jid());
        inv.setChannelJid(v.jid());
        inv.setToken(v.text(20));
        m.setMixInvitation(inv);
    }
    if (on(XTrustMessage)) {
        QXmppTrustMessageElement tm;
        tm.setUsage(QStringLiteral("urn:xmpp:atm:1"));
        tm.setEncryption(QStringLiteral("urn:xmpp:omemo:2"));
        QList<QXmppTrustMessageKeyOwner> owners;
        int n = 1 + int(t.u(2));
        for (int i = 0; i < n; i++) {
            QXmppTrustMessageKeyOwner o;
            o.setJid(v.jid());
            QList<QByteArray> tr, di;
            int a = int(t.u(3)), b = int(t.u(3));
            for (int k = 0; k < a; k++)
                tr << v.bytes(32);
            for (int k = 0; k < b; k++)
                di << v.bytes(32);
            o.setTrustedKeys(tr);
            o.setDistrustedKeys(di);
            owners << o;
        }
        tm.setKeyOwners(owners);
        m.setTrustMessageElement(tm);
    }
    if (on(XReaction)) {
        QXmppMessageReaction r;
        r.setMessageId(v.attr());
        QVector<QString> emojis;
        int n = int(t.u(3));
        static const QStringList pool = { QStringLiteral("👍"), QStringLiteral("🐢"), QStringLiteral("❤"), QStringLiteral("👋🏾"), QStringLiteral(":)") };
        for (int i = 0; i < n; i++) {
            QString e = pool[int(t.u(5))];
            if (!emojis.contains(e))
                emojis.push_back(e);
        }
        r.setEmojis(emojis);
        m.setReaction(r);
    }
    if (on(XSharedFiles)) {
        QVector<QXmppFileShare> fs;
        int n = 1 + int(t.u(2));
        for (int i = 0; i < n; i++) {
            QXmppFileShare f;
            f.setDisposition(t.b() ? QXmppFileShare::Inline : QXmppFileShare::Attachment);
            if (t.b())
                f.setId(v.attr(12));
            f.setMetadata(genMetadata(v));
            QVector<QXmppHttpFileSource> hs;
            int k = int(t.u(3));
            for (int j = 0; j < k; j++)
                hs.push_back(genHttpSource(v));
            f.setHttpSources(hs);
            if (t.b())
                f.setEncryptedSourecs({ genEncSource(v) });
            fs.push_back(f);
        }
        m.setSharedFiles(fs);
    }
    if (on(XFileSources)) {
        QXmppFileSourcesAttachment a;
        a.setId(v.attr(12));
        a.setHttpSources({ genHttpSource(v) });
        if (t.b())
            a.setEncryptedSources({ genEncSource(v) });
        m.setFileSourcesAttachments({ a });
    }
    if (on(XReply)) {
        m.setReply(QXmpp::Reply { t.b() ? v.jid() : QString(), v.attr() });
    }
    if (on(XFallback)) {
        QVector<QXmppFallback> fbs;
        int n = 1 + int(t.u(2));
        for (int i = 0; i < n; i++) {
            QVector<QXmppFallback::Reference> refs;
            int k = int(t.u(3));
            for (int j = 0; j < k; j++) {
                QXmppFallback::Reference r;
                r.element = t.b() ? QXmppFallback::Body : QXmppFallback::Subject;
                if (t.b()) {
                    uint32_t a = gen::intAtBounds<uint32_t>(t), b = gen::intAtBounds<uint32_t>(t);
                    r.range = QXmppFallback::Range { std::min(a, b), std::max(a, b) };
                }
                refs.push_back(r);
            }
            fbs.push_back(QXmppFallback(t.pick<QString>({ "urn:xmpp:reply:0", "urn:xmpp:sfs:0", "urn:xmpp:reactions:0" }), refs));
        }
        m.setFallbackMarkers(fbs);
    }
    g.desc = d;
    return g;
}

template<typename T>
inline QString xmlOf(const T &x)
{
    QByteArray out;
    QXmlStreamWriter w(&out);
    x.toXml(&w);
    return QString::fromUtf8(out);
}

// canonical dump of every public getter of a message (nested objects through their own serialisation)
inline QStringList dump(const QXmppMessage &m, bool includeFallbackMarkers = true)
{
    QStringList o;
    auto add = [&](const char *k, const QString &v) { o << QString::fromLatin1(k) + QStringLiteral("=") + v; };
    auto addB = [&](const char *k, bool v) { add(k, v ? QStringLiteral("1") : QStringLiteral("0")); };
    add("to", m.to());
    add("from", m.from());
    add("id", m.id());
    add("lang", m.lang());
    add("type", QString::number(m.type()));
    add("body", m.body());
    add("e2eeFallbackBody", m.e2eeFallbackBody());
    add("subject", m.subject());
    add("thread", m.thread());
    add("parentThread", m.parentThread());
    for (auto &u : m.outOfBandUrls())
        add("oob", u.url() + QStringLiteral("|") + u.description().value_or(QStringLiteral("<none>")));
    add("xhtml", m.xhtml());
    add("state", QString::number(m.state()));
    add("stamp", m.stamp().isValid() ? QString::number(m.stamp().toMSecsSinceEpoch()) : QStringLiteral("invalid"));
    addB("receiptRequested", m.isReceiptRequested());
    add("receiptId", m.receiptId());
    addB("attention", m.isAttentionRequested());
    for (auto &b : m.bitsOfBinaryData())
        add("bob", b.cid().toContentId() + QStringLiteral("|") + QString::number(b.maxAge()) + QStringLiteral("|") + b.contentType().name() + QStringLiteral("|") + QString::fromLatin1(b.data().toHex()));
    add("mucJid", m.mucInvitationJid());
    add("mucPassword", m.mucInvitationPassword());
    add("mucReason", m.mucInvitationReason());
    addB("private", m.isPrivate());
    add("replaceId", m.replaceId());
    addB("markable", m.isMarkable());
    add("marker", QString::number(m.marker()));
    add("markedId", m.markedId());
    add("markedThread", m.markedThread());
    for (int i = 0; i < 4; i++)
        addB("hint", m.hasHint(QXmppMessage::Hint(1 << i)));
    add("jmi", m.jingleMessageInitiationElement() ? xmlOf(*m.jingleMessageInitiationElement()) : QStringLiteral("<none>"));
    for (auto &s : m.stanzaIds())
        add("stanzaId", s.id + QStringLiteral("|") + s.by);
    add("originId", m.originId());
    add("attachId", m.attachId());
    add("mixUserJid", m.mixUserJid());
    add("mixUserNick", m.mixUserNick());
    add("encryptionMethodNs", m.encryptionMethodNs());
    add("encryptionName", m.encryptionName());
    addB("spoiler", m.isSpoiler());
    add("spoilerHint", m.spoilerHint());
    add("mixInvitation", m.mixInvitation() ? xmlOf(*m.mixInvitation()) : QStringLiteral("<none>"));
    if (includeFallbackMarkers)
        for (auto &f : m.fallbackMarkers())
            add("fallback", xmlOf(f));
    add("trustMessage", m.trustMessageElement() ? xmlOf(*m.trustMessageElement()) : QStringLiteral("<none>"));
    if (m.reaction()) {
        add("reactionId", m.reaction()->messageId());
        QStringList es;
        for (auto &e : m.reaction()->emojis())
            es << e;
        es.sort();   // XEP-0444: a set of emojis; order carries no meaning
        add("reactionEmojis", es.join(u','));
    } else {
        add("reaction", QStringLiteral("<none>"));
    }
    for (auto &f : m.sharedFiles())
        add("sharedFile", xmlOf(f));
    for (auto &f : m.fileSourcesAttachments()) {
        QString x = f.id();
        for (auto &h : f.httpSources())
            x += QStringLiteral("|") + xmlOf(h);
        for (auto &e : f.encryptedSources())
            x += QStringLiteral("|") + xmlOf(e);
        add("fileSources", x);
    }
    add("reply", m.reply() ? m.reply()->to + QStringLiteral("|") + m.reply()->id : QStringLiteral("<none>"));
    add("callInvite", m.callInviteElement() ? xmlOf(*m.callInviteElement()) : QStringLiteral("<none>"));
    for (auto &a : m.extendedAddresses())
        add("address", a.jid() + QStringLiteral("|") + a.type() + QStringLiteral("|") + a.description() + QStringLiteral("|") + (a.isDelivered() ? QStringLiteral("1") : QStringLiteral("0")));
    for (auto &e : m.extensions())
        add("unknownExtension", xmlOf(e));
    return o;
}

inline QString firstDifference(const QStringList &a, const QStringList &b)
{
    for (int i = 0; i < std::max(a.size(), b.size()); i++) {
        QString x = i < a.size() ? a[i] : QStringLiteral("<missing>");
        QString y = i < b.size() ? b[i] : QStringLiteral("<missing>");
        if (x != y)
            return QStringLiteral("expected [") + x + QStringLiteral("] got [") + y + QStringLiteral("]");
    }
    return QString();
}
// name of the first differing field (for signatures)
inline QString firstDifferenceKey(const QStringList &a, const QStringList &b)
{
    for (int i = 0; i < std::max(a.size(), b.size()); i++) {
        QString x = i < a.size() ? a[i] : QString();
        QString y = i < b.size() ? b[i] : QString();
        if (x != y) {
            QString k = (x.isEmpty() ? y : x);
            return k.left(k.indexOf(u'='));
        }
    }
    return QString();
}

}   // namespace msggen
