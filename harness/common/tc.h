// TC — socketless client harness (DESIGN.md section 2).  `class TestClient` is the name the library headers
// befriend (QXmppClient, QXmppOutgoingClient, C2sStreamManager, QXmppStanza) for the test-suite's own client,
// so a class of that name gets the receive entry point and the session switches without any source hook.
#pragma once

#include "QXmppClient.h"
#include "QXmppClientExtension.h"
#include "QXmppClient_p.h"
#include "QXmppConfiguration.h"
#include "QXmppLogger.h"
#include "QXmppOutgoingClient.h"
#include "QXmppOutgoingClient_p.h"
#include "QXmppStanza.h"

#include "QXmppAccountMigrationManager.h"
#include "QXmppArchiveManager.h"
#include "QXmppAtmManager.h"
#include "QXmppAtmTrustMemoryStorage.h"
#include "QXmppAttentionManager.h"
#include "QXmppBlockingManager.h"
#include "QXmppBookmarkManager.h"
#include "QXmppCallInviteManager.h"
#include "QXmppCarbonManager.h"
#include "QXmppCarbonManagerV2.h"
#include "QXmppDiscoveryManager.h"
#include "QXmppEntityTimeManager.h"
#include "QXmppExternalServiceDiscoveryManager.h"
#include "QXmppJingleMessageInitiationManager.h"
#include "QXmppMamManager.h"
#include "QXmppMessageReceiptManager.h"
#include "QXmppMixManager.h"
#include "QXmppMovedManager.h"
#include "QXmppMucManager.h"
#include "QXmppPubSubManager.h"
#include "QXmppRegistrationManager.h"
#include "QXmppRosterManager.h"
#include "QXmppRpcManager.h"
#include "QXmppTransferManager.h"
#include "QXmppTrustMemoryStorage.h"
#include "QXmppUploadRequestManager.h"
#include "QXmppUserLocationManager.h"
#include "QXmppUserTuneManager.h"
#include "QXmppVCardManager.h"
#include "QXmppVersionManager.h"

#include "xmlutil.h"

#include <QCoreApplication>
#include <QDomElement>

class TestClient : public QXmppClient
{
public:
    // what QXmppClient::connectToServer() does, but with an explicit list of candidate addresses (the list an SRV lookup
    // or the built-in "domain:5223 (TLS), domain:5222" fall-back would produce): on a connection error the client moves on
    // to the next candidate
    static void connectToAddressList(QXmppClient &c, const QXmppConfiguration &cfg, std::vector<QXmpp::Private::ServerAddress> list)
    {
        c.d->stream->configuration() = cfg;
        c.d->stream->d->connectToAddressList(std::move(list));
    }
    explicit TestClient(QXmppClient::InitialExtensions ext = QXmppClient::NoExtensions)
        : QXmppClient(ext)
    {
        m_logger.setLoggingType(QXmppLogger::SignalLogging);
        setLogger(&m_logger);
        QObject::connect(&m_logger, &QXmppLogger::message, this, [this](QXmppLogger::MessageType type, const QString &text) {
            if (type == QXmppLogger::SentMessage)
                sent << text;
        });
        QXmppStanza::s_uniqeIdNo = 0;
        configuration().setJid(QStringLiteral("alice@example.org/phone"));
        configuration().setPassword(QStringLiteral("secret"));
        configuration().setAutoReconnectionEnabled(false);
    }

    QXmppOutgoingClient *stream() const { return d->stream; }
    QXmppOutgoingClientPrivate *streamPrivate() const { return d->stream->d.get(); }
    QXmpp::Private::C2sStreamManager &c2s() const { return d->stream->c2sStreamManager(); }

    // full receive dispatch through the current listener, exactly as XmppSocket::stanzaReceived does
    void inject(const QDomElement &el) { d->stream->handlePacketReceived(el); }
    bool injectXml(const QString &xml)
    {
        auto p = xu::parseFragment(xml);
        if (!p.ok())
            return false;
        inject(p.el);
        return true;
    }
    void pump(int rounds = 3)
    {
        for (int i = 0; i < rounds; i++) {
            QCoreApplication::sendPostedEvents();
            QCoreApplication::processEvents();
        }
    }

    void enableSm(bool reset) { d->stream->enableStreamManagement(reset); }
    void setSmState(bool enabled, bool resumed)
    {
        c2s().setEnabled(enabled);
        c2s().setResumed(resumed);
    }
    void setSmCanResume(bool can) { c2s().m_canResume = can; }
    // Start a session the way the stream does after negotiation.  `sm`/`resumed` set the XEP-0198 state the
    // managers see (streamManagementState()); the stream's ack manager is switched on in every case because without
    // a socket a packet can only be "sent" into its unacknowledged queue (otherwise every send fails at once).
    void beginSession(bool sm, bool resumed)
    {
        setSmState(sm, resumed);
        setSmCanResume(sm);
        setAuthenticated(true);
        enableSm(!resumed);
        openSession();
    }
    void endSession()
    {
        closeSession();
    }
    bool sessionStarted() const { return d->stream->d->sessionStarted; }
    void openSession() { d->stream->openSession(); }
    void closeSession() { d->stream->closeSession(); }
    void setAuthenticated(bool a) { d->stream->d->isAuthenticated = a; }

    static void resetIdCounter() { QXmppStanza::s_uniqeIdNo = 0; }

    QStringList take()
    {
        QStringList s = sent;
        sent.clear();
        return s;
    }

    QStringList sent;

private:
    QXmppLogger m_logger;
};

namespace tc {

struct Storages {
    QXmppAtmTrustMemoryStorage atm;
};

// every bundled manager that exists in this build and can be constructed without external services
inline void installAllManagers(QXmppClient &c, Storages &st, bool withDefaults)
{
    if (withDefaults) {
        // the five defaults of QXmppClient::BasicExtensions are installed by the constructor in that mode
    } else {
        c.addNewExtension<QXmppRosterManager>(&c);
        c.addNewExtension<QXmppVCardManager>();
        c.addNewExtension<QXmppVersionManager>();
        c.addNewExtension<QXmppDiscoveryManager>();
        c.addNewExtension<QXmppEntityTimeManager>();
    }
    c.addNewExtension<QXmppPubSubManager>();
    c.addNewExtension<QXmppAccountMigrationManager>();
    c.addNewExtension<QXmppArchiveManager>();
    c.addNewExtension<QXmppAtmManager>(&st.atm);
    c.addNewExtension<QXmppAttentionManager>();
    c.addNewExtension<QXmppBlockingManager>();
    c.addNewExtension<QXmppBookmarkManager>();
    c.addNewExtension<QXmppCallInviteManager>();
    c.addNewExtension<QXmppCarbonManager>();
    c.addNewExtension<QXmppCarbonManagerV2>();
    c.addNewExtension<QXmppExternalServiceDiscoveryManager>();
    c.addNewExtension<QXmppJingleMessageInitiationManager>();
    c.addNewExtension<QXmppMamManager>();
    c.addNewExtension<QXmppMessageReceiptManager>();
    c.addNewExtension<QXmppMixManager>();
    c.addNewExtension<QXmppMovedManager>();
    c.addNewExtension<QXmppMucManager>();
    c.addNewExtension<QXmppRegistrationManager>();
    c.addNewExtension<QXmppRpcManager>();
    auto *tm = c.addNewExtension<QXmppTransferManager>();
    tm->setSupportedMethods(QXmppTransferJob::InBandMethod);   // never open sockets to peer-chosen addresses
    c.addNewExtension<QXmppUploadRequestManager>();
    c.addNewExtension<QXmppUserLocationManager>();
    c.addNewExtension<QXmppUserTuneManager>();
}

// each bundled manager alone (index into this table); returns the name
struct OneManager {
    const char *name;
    std::function<void(QXmppClient &, Storages &)> install;
};
inline const std::vector<OneManager> &managerTable()
{
    static const std::vector<OneManager> t = {
        { "Roster", [](QXmppClient &c, Storages &) { c.addNewExtension<QXmppRosterManager>(&c); } },
        { "VCard", [](QXmppClient &c, Storages &) { c.addNewExtension<QXmppVCardManager>(); } },
        { "Version", [](QXmppClient &c, Storages &) { c.addNewExtension<QXmppVersionManager>(); } },
        { "Discovery", [](QXmppClient &c, Storages &) { c.addNewExtension<QXmppDiscoveryManager>(); } },
        { "EntityTime", [](QXmppClient &c, Storages &) { c.addNewExtension<QXmppEntityTimeManager>(); } },
        { "PubSub", [](QXmppClient &c, Storages &) { c.addNewExtension<QXmppPubSubManager>(); } },
        { "AccountMigration", [](QXmppClient &c, Storages &) { c.addNewExtension<QXmppAccountMigrationManager>(); } },
        { "Archive", [](QXmppClient &c, Storages &) { c.addNewExtension<QXmppArchiveManager>(); } },
        { "Atm", [](QXmppClient &c, Storages &st) { c.addNewExtension<QXmppAtmManager>(&st.atm); } },
        { "Attention", [](QXmppClient &c, Storages &) { c.addNewExtension<QXmppAttentionManager>(); } },
        { "Blocking", [](QXmppClient &c, Storages &) { c.addNewExtension<QXmppBlockingManager>(); } },
        { "Bookmark", [](QXmppClient &c, Storages &) { c.addNewExtension<QXmppBookmarkManager>(); } },
        { "CallInvite", [](QXmppClient &c, Storages &) { c.addNewExtension<QXmppCallInviteManager>(); } },
        { "CarbonV1", [](QXmppClient &c, Storages &) { c.addNewExtension<QXmppCarbonManager>(); } },
        { "CarbonV2", [](QXmppClient &c, Storages &) { c.addNewExtension<QXmppCarbonManagerV2>(); } },
        { "ExternalServiceDiscovery", [](QXmppClient &c, Storages &) { c.addNewExtension<QXmppExternalServiceDiscoveryManager>(); } },
        { "JingleMessageInitiation", [](QXmppClient &c, Storages &) { c.addNewExtension<QXmppJingleMessageInitiationManager>(); } },
        { "Mam", [](QXmppClient &c, Storages &) { c.addNewExtension<QXmppMamManager>(); } },
        { "MessageReceipt", [](QXmppClient &c, Storages &) { c.addNewExtension<QXmppMessageReceiptManager>(); } },
        { "Mix", [](QXmppClient &c, Storages &) { c.addNewExtension<QXmppDiscoveryManager>(); c.addNewExtension<QXmppPubSubManager>(); c.addNewExtension<QXmppMixManager>(); } },
        { "Moved", [](QXmppClient &c, Storages &) { c.addNewExtension<QXmppDiscoveryManager>(); c.addNewExtension<QXmppPubSubManager>(); c.addNewExtension<QXmppMovedManager>(); } },
        { "Muc", [](QXmppClient &c, Storages &) { c.addNewExtension<QXmppMucManager>(); } },
        { "Registration", [](QXmppClient &c, Storages &) { c.addNewExtension<QXmppRegistrationManager>(); } },
        { "Rpc", [](QXmppClient &c, Storages &) { c.addNewExtension<QXmppRpcManager>(); } },
        { "Transfer", [](QXmppClient &c, Storages &) { auto *tm = c.addNewExtension<QXmppTransferManager>(); tm->setSupportedMethods(QXmppTransferJob::InBandMethod); } },
        { "UploadRequest", [](QXmppClient &c, Storages &) { c.addNewExtension<QXmppUploadRequestManager>(); } },
        { "UserLocation", [](QXmppClient &c, Storages &) { c.addNewExtension<QXmppPubSubManager>(); c.addNewExtension<QXmppUserLocationManager>(); } },
        { "UserTune", [](QXmppClient &c, Storages &) { c.addNewExtension<QXmppPubSubManager>(); c.addNewExtension<QXmppUserTuneManager>(); } },
    };
    return t;
}

}   // namespace tc
