// LB — loopback harness (DESIGN.md section 2): real QXmppClient / QXmppServer / sockets talking to scripted peers
// over 127.0.0.1 inside one process and one Qt event loop.  The harness owns the schedule: after every scripted
// action `settle()` pumps the event loop until nothing has moved for a short while.
#pragma once

#include "vharness.h"

#include <QDomDocument>
#include <QElapsedTimer>
#include <QRegularExpression>
#include <QTextStream>
#include <QFile>
#include <QSslCertificate>
#include <QSslKey>
#include <QSslSocket>
#include <QTcpServer>
#include <QTcpSocket>

namespace lb {

inline QString fixturesDir()
{
    QByteArray e = qgetenv("VERIF_ROOT");
    return (e.isEmpty() ? QStringLiteral("/verif") : QString::fromLocal8Bit(e)) + QStringLiteral("/fixtures");
}

// global activity stamp: every harness-visible socket event refreshes it
inline QElapsedTimer &clock()
{
    static QElapsedTimer t;
    if (!t.isValid())
        t.start();
    return t;
}
inline qint64 &lastActivity()
{
    static qint64 v = 0;
    return v;
}
inline void touch() { lastActivity() = clock().elapsed(); }

// pump the event loop until `idleMs` passed without activity (or maxMs in total)
inline void settle(int idleMs = 12, int maxMs = 1500)
{
    qint64 start = clock().elapsed();
    touch();
    while (clock().elapsed() - start < maxMs) {
        QCoreApplication::processEvents(QEventLoop::AllEvents, 2);
        QCoreApplication::sendPostedEvents();
        if (clock().elapsed() - lastActivity() >= idleMs)
            break;
    }
}
template<typename Cond>
inline bool settleUntil(Cond cond, int maxMs = 3000)
{
    qint64 start = clock().elapsed();
    while (clock().elapsed() - start < maxMs) {
        if (cond())
            return true;
        QCoreApplication::processEvents(QEventLoop::AllEvents, 2);
    }
    return cond();
}

// one accepted connection of the scripted server
struct Conn {
    QSslSocket *sock = nullptr;
    QByteArray plain;       // bytes received while the link was NOT encrypted
    QByteArray secure;      // application bytes received over TLS
    QByteArray all;         // both, in order
    bool encrypted = false;
    bool closedByPeer = false;
    int index = 0;
    QString errors;   // socket / TLS errors seen on this end (diagnostics only)
};

class ScriptedServer : public QTcpServer
{
public:
    std::vector<std::unique_ptr<Conn>> conns;
    std::function<void(Conn &)> onNewConnection;

    ScriptedServer()
    {
        listen(QHostAddress::LocalHost, 0);
    }
    ~ScriptedServer() override
    {
        for (auto &c : conns) {
            if (c->sock) {
                c->sock->disconnect();
                c->sock->abort();
                delete c->sock;
            }
        }
    }
    Conn *last() { return conns.empty() ? nullptr : conns.back().get(); }
    void send(Conn &c, const QByteArray &data)
    {
        if (c.sock && c.sock->state() == QAbstractSocket::ConnectedState) {
            c.sock->write(data);
            c.sock->flush();
            touch();
        }
    }
    void send(Conn &c, const QString &s) { send(c, s.toUtf8()); }
    void startTls(Conn &c)
    {
        QFile kf(fixturesDir() + QStringLiteral("/tls-test.key")), cf(fixturesDir() + QStringLiteral("/tls-test.crt"));
        kf.open(QIODevice::ReadOnly);
        cf.open(QIODevice::ReadOnly);
        c.sock->setPrivateKey(QSslKey(kf.readAll(), QSsl::Rsa));
        c.sock->setLocalCertificate(QSslCertificate(cf.readAll()));
        c.sock->setPeerVerifyMode(QSslSocket::VerifyNone);
        c.sock->startServerEncryption();
        touch();
    }
    void cut(Conn &c)
    {
        if (c.sock) {
            c.sock->abort();
            touch();
        }
    }

protected:
    void incomingConnection(qintptr handle) override
    {
        auto c = std::make_unique<Conn>();
        c->index = int(conns.size());
        c->sock = new QSslSocket;
        c->sock->setSocketDescriptor(handle);
        c->sock->setSocketOption(QAbstractSocket::LowDelayOption, 1);
        Conn *cp = c.get();
        QObject::connect(c->sock, &QSslSocket::readyRead, [cp] {
            QByteArray d = cp->sock->readAll();
            (cp->sock->isEncrypted() ? cp->secure : cp->plain) += d;
            cp->all += d;
            touch();
        });
        QObject::connect(c->sock, &QSslSocket::encrypted, [cp] {
            cp->encrypted = true;
            touch();
        });
        QObject::connect(c->sock, &QSslSocket::disconnected, [cp] {
            cp->closedByPeer = true;
            touch();
        });
        QObject::connect(c->sock, &QSslSocket::bytesWritten, [](qint64) { touch(); });
        QObject::connect(c->sock, QOverload<const QList<QSslError> &>::of(&QSslSocket::sslErrors), [cp](const QList<QSslError> &errs) {
            for (const auto &e : errs)
                cp->errors += QStringLiteral("[ssl: ") + e.errorString() + QStringLiteral("]");
        });
        QObject::connect(c->sock, &QAbstractSocket::errorOccurred, [cp](QAbstractSocket::SocketError) { cp->errors += QStringLiteral("[socket: ") + cp->sock->errorString() + QStringLiteral("]"); });
        conns.push_back(std::move(c));
        touch();
        if (onNewConnection)
            onNewConnection(*conns.back());
    }
};

// split a client->server byte stream into top-level elements (after the stream header); tolerant, for oracles only
inline QStringList topLevelElements(const QByteArray &bytes)
{
    QString s = QString::fromUtf8(bytes);
    QStringList out;
    // drop XML declarations and stream headers / closers, keep the rest as a sequence of elements
    s.remove(QRegularExpression(QStringLiteral("<\\?xml[^>]*\\?>")));
    s.replace(QRegularExpression(QStringLiteral("<stream:stream[^>]*>")), QStringLiteral("\n"));
    s.remove(QStringLiteral("</stream:stream>"));
    QDomDocument doc;
    if (doc.setContent(QStringLiteral("<stream:stream xmlns='jabber:client' xmlns:stream='http://etherx.jabber.org/streams'>") + s + QStringLiteral("</stream:stream>"), true)) {
        for (QDomElement e = doc.documentElement().firstChildElement(); !e.isNull(); e = e.nextSiblingElement()) {
            QString x;
            QTextStream ts(&x);
            e.save(ts, -1);
            out << x;
        }
    } else if (!s.trimmed().isEmpty()) {
        out << QStringLiteral("<!-- unparsable: ") + s.left(200) + QStringLiteral(" -->");
    }
    return out;
}

}   // namespace lb
