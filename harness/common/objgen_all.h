// All object-first tables (C01).  Each group lives in its own header so that groups can be written and reviewed apart;
// a group is listed here once its tables are triaged (a table under construction must not decide C01).
#pragma once

#include "objgen_stream.h"
#include "objgen_core.h"
#include "objgen_media.h"
#include "objgen_pubsub.h"

namespace og {
inline void registerAll()
{
    static bool done = false;
    if (done)
        return;
    done = true;
    registerStreamNonzas();
    registerCore();
    registerMedia();
    registerPubSub();
}
}   // namespace og
