// All object-first tables (C01).  Each group lives in its own header so that groups can be written and reviewed apart.
#pragma once

#include "objgen_stream.h"
#if __has_include("objgen_core.h")
#include "objgen_core.h"
#define OG_HAVE_CORE 1
#endif
#if __has_include("objgen_pubsub.h")
#include "objgen_pubsub.h"
#define OG_HAVE_PUBSUB 1
#endif
#if __has_include("objgen_media.h")
#include "objgen_media.h"
#define OG_HAVE_MEDIA 1
#endif

namespace og {
inline void registerAll()
{
    static bool done = false;
    if (done)
        return;
    done = true;
    registerStreamNonzas();
#ifdef OG_HAVE_CORE
    registerCore();
#endif
#ifdef OG_HAVE_PUBSUB
    registerPubSub();
#endif
#ifdef OG_HAVE_MEDIA
    registerMedia();
#endif
}
}   // namespace og
