/* Coverage shim: lets libFuzzer (an LLVM runtime) see coverage from a g++-built library.
 *
 * The library is compiled by g++ with -fsanitize-coverage=trace-pc,trace-cmp.  gcc emits calls to
 * __sanitizer_cov_trace_pc() at every basic block; libFuzzer no longer implements that callback
 * usefully, so this file provides it: the return address is hashed into a 64 Ki table placed in the
 * __libfuzzer_extra_counters section, which libFuzzer treats as 8-bit coverage counters.
 *
 * trace-cmp callbacks are libFuzzer's own in fuzz binaries (strong definitions there win); the weak
 * no-op definitions below only serve binaries/modes that do not link libFuzzer, plus the two
 * gcc-only callbacks (cmpf/cmpd) that libFuzzer lacks.
 *
 * This file must be compiled WITHOUT any -fsanitize* flag.
 */
#include <stdint.h>

#define NCOUNTERS (1u << 16)
__attribute__((section("__libfuzzer_extra_counters"), used)) uint8_t verif_cov_counters[NCOUNTERS];

uint8_t *verif_cov_table(void) { return verif_cov_counters; }
unsigned verif_cov_size(void) { return NCOUNTERS; }

void __sanitizer_cov_trace_pc(void)
{
    uintptr_t pc = (uintptr_t)__builtin_return_address(0);
    /* cheap mix; the low bits of code addresses are well distributed already */
    uint32_t h = (uint32_t)(pc ^ (pc >> 17));
    uint8_t *c = &verif_cov_counters[h & (NCOUNTERS - 1)];
    if (*c != 255)
        ++*c;
}

#define WEAK __attribute__((weak))
WEAK void __sanitizer_cov_trace_cmp1(uint8_t a, uint8_t b) { (void)a; (void)b; }
WEAK void __sanitizer_cov_trace_cmp2(uint16_t a, uint16_t b) { (void)a; (void)b; }
WEAK void __sanitizer_cov_trace_cmp4(uint32_t a, uint32_t b) { (void)a; (void)b; }
WEAK void __sanitizer_cov_trace_cmp8(uint64_t a, uint64_t b) { (void)a; (void)b; }
WEAK void __sanitizer_cov_trace_const_cmp1(uint8_t a, uint8_t b) { (void)a; (void)b; }
WEAK void __sanitizer_cov_trace_const_cmp2(uint16_t a, uint16_t b) { (void)a; (void)b; }
WEAK void __sanitizer_cov_trace_const_cmp4(uint32_t a, uint32_t b) { (void)a; (void)b; }
WEAK void __sanitizer_cov_trace_const_cmp8(uint64_t a, uint64_t b) { (void)a; (void)b; }
WEAK void __sanitizer_cov_trace_switch(uint64_t v, uint64_t *cases) { (void)v; (void)cases; }
WEAK void __sanitizer_cov_trace_div4(uint32_t v) { (void)v; }
WEAK void __sanitizer_cov_trace_div8(uint64_t v) { (void)v; }
WEAK void __sanitizer_cov_trace_gep(uintptr_t i) { (void)i; }
void __sanitizer_cov_trace_cmpf(float a, float b) { (void)a; (void)b; }
void __sanitizer_cov_trace_cmpd(double a, double b) { (void)a; (void)b; }
