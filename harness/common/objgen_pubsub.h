// Object-first tables: group "pubsub" - data forms, result set management, MAM IQs, the XEP-0060 family (IQ, event, items,
// subscription, affiliation, the data-form based option/config classes), MIX (items, IQs, invitation), trust messages,
// reactions, out-of-band URLs, fallback indication, and the deprecated pre-1.5 PubSub classes.
//
// Domain notes (read from the parse()/toXml() pairs in /repo/src/base and /repo/src/client):
//   * QXmppDataForm: a form of type None serialises to nothing, so the type ranges over Form/Submit/Cancel/Result.  title,
//     instructions, key, label, description: empty = unset.  The value kind follows the field type: bool for boolean,
//     QStringList for *-multi, QString for the rest (an unset single value is a null QVariant before and an empty QString
//     after parsing: the dump reads the value through the conversion that belongs to the field type, not the QVariant type).
//     Options exist for the two list types only (toXml writes them for those only).  <media/> is written only when there is
//     at least one media source; width/height are written when > 0 and read back as -1 when absent: the size is set only
//     together with sources, each dimension either -1 (unset) or 1..INT_MAX.  The content type of a source is a QMimeType:
//     an invalid one (no name) is the "absent" choice.
//   * QXmppResultSetQuery/Reply: -1 = unset for max/index/count (written when >= 0): domain -1 or 0..INT_MAX.  before/after/
//     first/last distinguish null (absent) from empty: <before/> (empty, XEP-0059 "last page") is generated, the dump
//     records isNull().  The reply's index is an attribute of <first/>: generated only together with first.  A null set
//     serialises to nothing.
//   * PubSubIq<T>: which members are written depends on the query type (see genPubSubIq).  The data form's type is not a
//     field of its own: toXml() forces it to result (IQ type result) or submit (cancel is kept for the forms living inside the
//     query element), so the generator sets the type toXml() will write.  maxItems: 0 = unset.  A null continuation set
//     serialises to nothing: only non-null ones are generated.  For the Subscription query type jid and node live in the
//     QXmppPubSubSubscription (queryJid/queryNode are not written: not set).
//   * QXmppPubSubSubscription / QXmppPubSubAffiliation write no namespace of their own and parse differently per parent
//     namespace: tested inside a parent of namespace pubsub / pubsub#event / pubsub#owner with the members that context
//     has (node+subid+configuration support / node+subid+expiry / jid+state only; affiliation: node required in pubsub,
//     jid required in pubsub#owner).
//   * QXmppPubSubEvent<T>: items belong to Items, retract ids (at least one: an empty <items/> is an Items event) to Retract,
//     the redirect URI to Delete, the form to Configuration, the subscription (required) to Subscription, whose node is the
//     subscription's node (the event's node is not written then).
//   * The data-form based classes (QXmppPubSubSubscribeOptions, QXmppPubSubNodeConfig, QXmppPubSubSubAuthorization,
//     QXmppPubSubMetadata) go object -> toDataForm() -> XML -> QXmppDataForm::parse -> fromDataForm().  Text members: null =
//     unset.  QXmppPubSubMetadata has no public fromDataForm(); the protected generic one of QXmppDataFormBase is reached
//     through a derived accessor (the same path codec_registry.h uses).
//   * QXmppMixConfigItem / QXmppMixInfoItem: with form type None (the default) the payload serialises to nothing, so the
//     form type ranges over Form/Submit/Cancel/Result.  Nodes: Configuration and Messages have no token in "Nodes Present"
//     (XEP-0369: they always exist) and AvatarData/AvatarMetadata share the token "avatar": the first two are not set, the
//     avatar pair is set together.
//   * QXmppMixIq (domain as exercised by the library's own unit test): channelJid belongs to client-join/client-leave of type
//     set, participantId to a join/client-join result, channelId to create/destroy, subscriptions to join/client-join/
//     update-subscription, nick to join/client-join/setnick, the invitation to join/client-join.  Action None writes nothing.
//   * QXmppMessageReaction: the emojis are a set (setEmojis: "Duplicates are not allowed"; parse() sorts): distinct by
//     construction, dumped sorted.
//   * QXmppTuneItem: rating 1..10 (the setter rejects the rest); QXmppGeolocItem: lat -90..90, lon -180..180 (ditto).
//
// FINDINGS of this table (the generators are left as they are; each is reported with the library lines responsible):
//   F1 QXmppResultSetReply::parse() reads <count/> without an ok-check: an absent count (-1) comes back as 0
//      (QXmppResultSet.cpp:234).  Seen through QXmppMamResultIq and PubSubIq<T>::itemsContinuation too.
//   F2 QXmppMamQueryIq writes the attribute "queryid" (QXmppMamIq.cpp:153) and reads "queryId" (:134): queryId is lost.
//   F3 QXmppGeolocItem writes doubles with QString::number(double) = 6 significant digits (QXmppGeolocItem.cpp:187):
//      accuracy, latitude and longitude lose everything beyond that.
//   F4 QXmppDataFormBase::serializeDatetime() writes Qt::ISODate, i.e. no milliseconds (QXmppDataFormBase.cpp:139):
//      QXmppPubSubSubscribeOptions::expire, QXmppPubSubMetadata::creationDate, QXmppMixConfigItem::channelDeletion.
//   F5 unknownFields() ("all additional fields to be serialized") are never written: the serializeForm() overrides of
//      QXmppPubSubSubscribeOptions, QXmppPubSubNodeConfig, QXmppPubSubSubAuthorization and QXmppPubSubMetadata do not call
//      QXmppExtensibleDataFormBase::serializeForm() (QXmppDataFormBase.cpp:204).
//   F6 PubSubIq with query type Subscription: the <options/> form is parsed (QXmppPubSubIq.cpp:435-441) but the code that
//      writes it sits in the else-branch of "queryType == Subscription" (:534-536, dead case label at :624): dataForm is lost.
// Observations (outside the generated domain, not counted as findings):
//   * QXmppPubSubSubscription::parse() reads node/subid only in the pubsub and pubsub#event namespaces although XEP-0060
//     8.8.1 shows subid in pubsub#owner subscriptions; toXml() writes them in any context.
//   * QXmppMixConfigItem::Nodes: Configuration/Messages are silently dropped and a single avatar flag comes back as both.
//
// Not in this table:
//   QXmppAvatarMetadataItem / QXmppAvatarDataItem   do not exist in this version of the library.
//   QXmppPubSubPublishOptions                        fromDataForm() is declared but defined nowhere (serialise-only).
//   QXmppSceEnvelope                                 not a codec.
#pragma once

#include "objgen.h"
#include "objgen_stream.h"   // genCondition

// all library headers of this group; codec_registry.h owns the include-guard dance between compat/QXmppPubSubIq.h and
// QXmppPubSubIq_p.h (they share one guard), so it is included instead of the single headers
#include "codec_registry.h"

#include <QMimeDatabase>
#include <QSize>
#include <QUrl>
#include <variant>

namespace og {
namespace ps {

using namespace QXmpp::Private;

// ------------------------------------------------------------------------------------------------ small helpers

// 0..INT_MAX, bounds favoured (same tape use as num<int>)
inline int nonNeg(Vals &v)
{
    int x = num<int>(v);
    return x < 0 ? ~x : x;
}
// 1..INT_MAX
inline int positive(Vals &v)
{
    int x = nonNeg(v);
    return x == 0 ? 1 : x;
}
inline QStringList textList(Vals &v, int min, int max, uint32_t len = 16)
{
    QStringList l;
    int n = min + int(v.t.u(uint32_t(max - min + 1)));
    for (int i = 0; i < n; i++)
        l << v.text(len);
    return l;
}
inline QStringList attrList(Vals &v, int min, int max, uint32_t len = 16)
{
    QStringList l;
    int n = min + int(v.t.u(uint32_t(max - min + 1)));
    for (int i = 0; i < n; i++)
        l << v.attr(len);
    return l;
}
inline QStringList jidList(Vals &v, int min, int max)
{
    QStringList l;
    int n = min + int(v.t.u(uint32_t(max - min + 1)));
    for (int i = 0; i < n; i++)
        l << v.jid();
    return l;
}
inline std::optional<bool> optBool(Vals &v)
{
    switch (v.t.u(3)) {
    case 1:
        return false;
    case 2:
        return true;
    default:
        return std::nullopt;
    }
}
template<typename E>
inline std::optional<E> optEnum(Vals &v, std::initializer_list<E> xs)
{
    if (!v.t.b())
        return std::nullopt;
    return v.t.pick<E>(xs);
}
template<typename I>
inline std::optional<I> optNum(Vals &v)
{
    if (!v.t.b())
        return std::nullopt;
    return num<I>(v);
}
inline QString optText(Vals &v, uint32_t len = 24) { return v.t.b() ? v.text(len) : QString(); }
inline QString optAttr(Vals &v, uint32_t len = 16) { return v.t.b() ? v.attr(len) : QString(); }
inline QString optJid(Vals &v) { return v.t.b() ? v.jid() : QString(); }
inline QDateTime optDateTime(Vals &v) { return v.t.b() ? gen::dateTime(v.t) : QDateTime(); }

// a double of [lo, hi] (lo <= 0 <= hi, integers): bounds, zero, whole numbers, three and six decimals
inline double genDouble(Vals &v, int lo, int hi)
{
    switch (v.t.u(6)) {
    case 0:
        return lo;
    case 1:
        return hi;
    case 2:
        return 0;
    case 3:
        return double(v.t.range(lo, hi));
    case 4:
        return double(v.t.range(lo, hi - 1)) + double(v.t.u(1000)) / 1000.0;
    default:
        return double(v.t.range(lo, hi - 1)) + double(v.t.u(1000000)) / 1000000.0;
    }
}
// an absolute https URL whose path is a generated string (QUrl percent-encodes what it has to)
inline QUrl genUrl(Vals &v)
{
    QUrl u;
    u.setScheme(QStringLiteral("https"));
    u.setHost(QStringLiteral("files.example.org"));
    u.setPath(QStringLiteral("/f/") + v.text(12));
    return u;
}

// ------------------------------------------------------------------------------------------------ IQ stanza fields

// id / to / from / type; type error together with a (type, condition, optional text) error.  The thorough table of
// QXmppStanza::Error is in the core group.  lang and the XEP-0033 addresses are left unset (exercised in the core group).
template<typename T>
inline void genIq(Vals &v, T &iq, std::initializer_list<QXmppIq::Type> types)
{
    using E = QXmppStanza::Error;
    iq.setId(v.t.b() ? v.attr(16) : QString());   // always set: the constructor draws an id from a process-wide counter
    iq.setTo(optJid(v));
    iq.setFrom(optJid(v));
    if (v.t.prob(1, 6)) {
        iq.setType(QXmppIq::Error);
        auto type = v.t.pick<E::Type>({ E::Cancel, E::Continue, E::Modify, E::Auth, E::Wait });
        auto cond = genCondition(v);
        iq.setError(E(type, cond, optText(v)));
    } else {
        iq.setType(v.t.pick<QXmppIq::Type>(types));
    }
}
inline void dumpIq(const QXmppIq &iq, D &d)
{
    d("iq.type", iq.type());
    d("iq.id", iq.id());
    d("iq.to", iq.to());
    d("iq.from", iq.from());
    d("iq.lang", iq.lang());
    const auto e = iq.error();
    d("iq.error.type", e.type());
    d("iq.error.condition", e.condition());
    d("iq.error.text", e.text());
    d("iq.error.code", e.code());
    d("iq.error.by", e.by());
    d("iq.extensions", iq.extensions().size());
    d("iq.addresses", iq.extendedAddresses().size());
}

// ------------------------------------------------------------------------------------------------ XEP-0004 / XEP-0221

inline QXmppDataForm::Field genField(Vals &v)
{
    using F = QXmppDataForm::Field;
    F f;
    const auto type = v.t.pick<F::Type>({ F::BooleanField, F::FixedField, F::HiddenField, F::JidMultiField, F::JidSingleField, F::ListMultiField, F::ListSingleField,
                                          F::TextMultiField, F::TextPrivateField, F::TextSingleField });
    f.setType(type);
    if (v.t.b())
        f.setKey(v.attr(16));
    if (v.t.b())
        f.setLabel(v.attr(16));
    if (v.t.b())
        f.setDescription(v.text(24));
    f.setRequired(v.t.b());
    switch (type) {
    case F::BooleanField:
        f.setValue(v.t.b());
        break;
    case F::JidMultiField:
        f.setValue(jidList(v, 0, 3));
        break;
    case F::ListMultiField:
    case F::TextMultiField:
        f.setValue(textList(v, 0, 3));
        break;
    case F::JidSingleField:
        if (v.t.b())
            f.setValue(v.jid());
        break;
    default:
        if (v.t.b())
            f.setValue(v.text(24));
        break;
    }
    if (type == F::ListMultiField || type == F::ListSingleField) {
        QList<QPair<QString, QString>> options;
        int n = int(v.t.u(4));
        for (int i = 0; i < n; i++) {
            QString label = optAttr(v);
            options << qMakePair(label, v.text(16));
        }
        f.setOptions(options);
    }
    if (v.t.prob(1, 3)) {
        QVector<QXmppDataForm::MediaSource> sources;
        int n = 1 + int(v.t.u(2));
        for (int i = 0; i < n; i++) {
            QUrl uri = genUrl(v);
            // "" = no content type (an invalid QMimeType)
            const auto mime = QMimeDatabase().mimeTypeForName(v.t.pick<QString>({ "", "image/png", "image/jpeg", "text/plain", "application/pdf" }));
            sources << QXmppDataForm::MediaSource(uri, mime);
        }
        f.setMediaSources(sources);
        int w = v.t.b() ? positive(v) : -1;
        int h = v.t.b() ? positive(v) : -1;
        f.setMediaSize(QSize(w, h));
    }
    return f;
}
inline void dumpField(const QXmppDataForm::Field &f, D &d)
{
    using F = QXmppDataForm::Field;
    d("field.type", f.type());
    d("field.key", f.key());
    d("field.label", f.label());
    d("field.description", f.description());
    d("field.required", f.isRequired());
    switch (f.type()) {
    case F::BooleanField:
        d("field.value", f.value().toBool());
        break;
    case F::JidMultiField:
    case F::ListMultiField:
    case F::TextMultiField:
        d("field.values", f.value().toStringList());
        break;
    default:
        d("field.value", f.value().toString());
        break;
    }
    const auto options = f.options();
    d("field.options", options.size());
    for (const auto &o : options) {
        d("option.label", o.first);
        d("option.value", o.second);
    }
    const auto sources = f.mediaSources();
    d("field.mediaSources", sources.size());
    for (const auto &s : sources) {
        d("media.uri", s.uri());
        d("media.type", s.contentType().name());
    }
    d("field.mediaWidth", f.mediaSize().width());
    d("field.mediaHeight", f.mediaSize().height());
}
inline QList<QXmppDataForm::Field> genFields(Vals &v, int max = 3)
{
    QList<QXmppDataForm::Field> fields;
    int n = int(v.t.u(uint32_t(max + 1)));
    for (int i = 0; i < n; i++)
        fields << genField(v);
    return fields;
}
// forcedType >= 0: the type the owning class is going to write anyway (the type choice is drawn all the same)
inline QXmppDataForm genForm(Vals &v, int forcedType = -1)
{
    using T = QXmppDataForm::Type;
    QXmppDataForm f;
    const auto t = v.t.pick<T>({ QXmppDataForm::Form, QXmppDataForm::Submit, QXmppDataForm::Cancel, QXmppDataForm::Result });
    f.setType(forcedType >= 0 ? T(forcedType) : t);
    if (v.t.b())
        f.setTitle(v.text(24));
    if (v.t.b())
        f.setInstructions(v.text(40));
    f.setFields(genFields(v));
    return f;
}
inline void dumpForm(const QXmppDataForm &f, D &d)
{
    d("form.type", f.type());
    d("form.isNull", f.isNull());
    d("form.title", f.title());
    d("form.instructions", f.instructions());
    d("form.formType", f.formType());
    const auto fields = f.fields();
    d("form.fields", fields.size());
    for (const auto &fld : fields)
        dumpField(fld, d);
}
inline void dumpOptForm(const char *k, const std::optional<QXmppDataForm> &f, D &d)
{
    d(k, f.has_value());
    if (f)
        dumpForm(*f, d);
}

// ------------------------------------------------------------------------------------------------ XEP-0059

inline QXmppResultSetQuery genRsmQuery(Vals &v)
{
    QXmppResultSetQuery q;
    if (v.t.b())
        q.setMax(nonNeg(v));
    if (v.t.b())
        q.setIndex(nonNeg(v));
    switch (v.t.u(3)) {
    case 1:
        q.setBefore(QStringLiteral(""));   // <before/>: the last page
        break;
    case 2:
        q.setBefore(v.text(20));
        break;
    default:
        break;
    }
    if (v.t.b())
        q.setAfter(v.text(20));
    return q;
}
inline void dumpRsmQuery(const QXmppResultSetQuery &q, D &d)
{
    d("rsm.max", q.max());
    d("rsm.index", q.index());
    d("rsm.before.isNull", q.before().isNull());
    d("rsm.before", q.before());
    d("rsm.after.isNull", q.after().isNull());
    d("rsm.after", q.after());
    d("rsm.isNull", q.isNull());
}
inline QXmppResultSetReply genRsmReply(Vals &v, bool nonNull = false)
{
    QXmppResultSetReply r;
    bool first = v.t.b(), last = v.t.b(), count = v.t.b();
    if (nonNull && !first && !last)
        count = true;
    if (first) {
        r.setFirst(v.text(20));
        if (v.t.b())
            r.setIndex(nonNeg(v));
    }
    if (last)
        r.setLast(v.text(20));
    if (count)
        r.setCount(nonNeg(v));
    return r;
}
inline void dumpRsmReply(const QXmppResultSetReply &r, D &d)
{
    d("rsm.first.isNull", r.first().isNull());
    d("rsm.first", r.first());
    d("rsm.last.isNull", r.last().isNull());
    d("rsm.last", r.last());
    d("rsm.count", r.count());
    d("rsm.index", r.index());
    d("rsm.isNull", r.isNull());
}

// ------------------------------------------------------------------------------------------------ XEP-0060 pieces

enum Ctx { CtxPubSub, CtxEvent, CtxOwner };
inline QString ctxNamespace(int ctx)
{
    switch (ctx) {
    case CtxEvent:
        return QStringLiteral("http://jabber.org/protocol/pubsub#event");
    case CtxOwner:
        return QStringLiteral("http://jabber.org/protocol/pubsub#owner");
    default:
        return QStringLiteral("http://jabber.org/protocol/pubsub");
    }
}

inline QXmppPubSubSubscription genSubscription(Vals &v, int ctx)
{
    using S = QXmppPubSubSubscription;
    S s;
    s.setJid(v.jid());   // "jid is required"
    if (ctx == CtxOwner) {
        // pubsub#owner: the subscription state is required, node and subid are not read in this namespace
        s.setState(v.t.pick<S::State>({ S::None, S::Pending, S::Subscribed, S::Unconfigured }));
        return s;
    }
    s.setState(v.t.pick<S::State>({ S::Invalid, S::None, S::Pending, S::Subscribed, S::Unconfigured }));   // Invalid = no state attribute
    if (v.t.b())
        s.setNode(v.attr(16));
    if (v.t.b())
        s.setSubId(v.attr(16));
    if (ctx == CtxEvent) {
        if (v.t.b())
            s.setExpiry(gen::dateTime(v.t));   // read in pubsub#event only
    } else {
        s.setConfigurationSupport(v.t.pick<S::ConfigurationSupport>({ S::Unavailable, S::Available, S::Required }));   // read in pubsub only
    }
    return s;
}
inline void dumpSubscription(const QXmppPubSubSubscription &s, D &d)
{
    d("sub.jid", s.jid());
    d("sub.node", s.node());
    d("sub.subId", s.subId());
    d("sub.state", s.state());
    d("sub.expiry", s.expiry());
    d("sub.configurationSupport", s.configurationSupport());
    d("sub.isConfigurationSupported", s.isConfigurationSupported());
    d("sub.isConfigurationRequired", s.isConfigurationRequired());
}
inline QXmppPubSubAffiliation genAffiliation(Vals &v, int ctx)
{
    using A = QXmppPubSubAffiliation;
    A a;
    a.setType(v.t.pick<A::Affiliation>({ A::None, A::Member, A::Outcast, A::Owner, A::Publisher, A::PublishOnly }));
    // pubsub: the node is required; pubsub#owner: the jid is required (isAffiliation())
    if (ctx == CtxOwner) {
        a.setJid(v.jid());
        if (v.t.b())
            a.setNode(v.attr(16));
    } else {
        a.setNode(v.attr(16));
        if (v.t.b())
            a.setJid(v.jid());
    }
    return a;
}
inline void dumpAffiliation(const QXmppPubSubAffiliation &a, D &d)
{
    d("aff.type", a.type());
    d("aff.node", a.node());
    d("aff.jid", a.jid());
}

// ---- items
inline void genItemBase(Vals &v, QXmppPubSubBaseItem &it)
{
    it.setId(optAttr(v));
    it.setPublisher(optJid(v));
}
inline void dumpItemBase(const QXmppPubSubBaseItem &it, D &d)
{
    d("item.id", it.id());
    d("item.publisher", it.publisher());
}
inline QXmppPubSubBaseItem genBaseItem(Vals &v)
{
    QXmppPubSubBaseItem it;
    genItemBase(v, it);
    return it;
}
inline void dumpBaseItem(const QXmppPubSubBaseItem &it, D &d) { dumpItemBase(it, d); }

inline QXmppGeolocItem genGeolocItem(Vals &v)
{
    QXmppGeolocItem it;
    genItemBase(v, it);
    if (v.t.b())
        it.setAccuracy(genDouble(v, 0, 100000));
    if (v.t.b())
        it.setCountry(v.text(16));
    if (v.t.b())
        it.setLatitude(genDouble(v, -90, 90));
    if (v.t.b())
        it.setLocality(v.text(16));
    if (v.t.b())
        it.setLongitude(genDouble(v, -180, 180));
    return it;
}
inline void dumpGeolocItem(const QXmppGeolocItem &it, D &d)
{
    dumpItemBase(it, d);
    d("geoloc.accuracy", it.accuracy());
    d("geoloc.country", it.country());
    d("geoloc.latitude", it.latitude());
    d("geoloc.locality", it.locality());
    d("geoloc.longitude", it.longitude());
}
inline QXmppTuneItem genTuneItem(Vals &v)
{
    QXmppTuneItem it;
    genItemBase(v, it);
    if (v.t.b())
        it.setArtist(v.text(16));
    if (v.t.b())
        it.setLength(num<quint16>(v));
    if (v.t.b())
        it.setRating(quint8(v.t.range(1, 10)));
    if (v.t.b())
        it.setSource(v.text(16));
    if (v.t.b())
        it.setTitle(v.text(16));
    if (v.t.b())
        it.setTrack(v.text(16));
    if (v.t.b())
        it.setUri(genUrl(v));
    return it;
}
inline void dumpTuneItem(const QXmppTuneItem &it, D &d)
{
    dumpItemBase(it, d);
    d("tune.artist", it.artist());
    d("tune.length", it.length());
    d("tune.rating", it.rating());
    d("tune.source", it.source());
    d("tune.title", it.title());
    d("tune.track", it.track());
    d("tune.uri", it.uri());
}
inline QXmppMixConfigItem::Nodes genConfigNodes(Vals &v)
{
    using N = QXmppMixConfigItem::Node;
    QXmppMixConfigItem::Nodes nodes;
    for (auto n : { N::AllowedJids, N::BannedJids, N::Information, N::JidMap, N::Participants, N::Presence })
        if (v.t.b())
            nodes |= n;
    if (v.t.b())
        nodes |= QXmppMixConfigItem::Nodes(N::AvatarData) | N::AvatarMetadata;   // one token "avatar" for both
    return nodes;
}
// every node has its own name in the MIX IQs
inline QXmppMixConfigItem::Nodes genMixNodes(Vals &v)
{
    using N = QXmppMixConfigItem::Node;
    QXmppMixConfigItem::Nodes nodes;
    for (auto n : { N::AllowedJids, N::AvatarData, N::AvatarMetadata, N::BannedJids, N::Configuration, N::Information, N::JidMap, N::Messages, N::Participants, N::Presence })
        if (v.t.b())
            nodes |= n;
    return nodes;
}
inline QXmppMixConfigItem genMixConfigItem(Vals &v)
{
    using R = QXmppMixConfigItem::Role;
    auto role = [&] { return optEnum<R>(v, { R::Owner, R::Administrator, R::Participant, R::Allowed, R::Anyone, R::Nobody }); };
    QXmppMixConfigItem it;
    genItemBase(v, it);
    it.setFormType(v.t.pick<QXmppDataForm::Type>({ QXmppDataForm::Form, QXmppDataForm::Submit, QXmppDataForm::Cancel, QXmppDataForm::Result }));
    if (v.t.b())
        it.setLastEditorJid(v.jid());
    it.setOwnerJids(jidList(v, 0, 3));
    it.setAdministratorJids(jidList(v, 0, 3));
    it.setChannelDeletion(optDateTime(v));
    it.setNodes(genConfigNodes(v));
    it.setMessagesSubscribeRole(role());
    it.setMessagesRetractRole(role());
    it.setPresenceSubscribeRole(role());
    it.setParticipantsSubscribeRole(role());
    it.setInformationSubscribeRole(role());
    it.setInformationUpdateRole(role());
    it.setAllowedJidsSubscribeRole(role());
    it.setBannedJidsSubscribeRole(role());
    it.setConfigurationReadRole(role());
    it.setAvatarUpdateRole(role());
    it.setNicknameRequired(optBool(v));
    it.setPresenceRequired(optBool(v));
    it.setOnlyParticipantsPermittedToSubmitPresence(optBool(v));
    it.setOwnMessageRetractionPermitted(optBool(v));
    it.setInvitationsPermitted(optBool(v));
    it.setPrivateMessagesPermitted(optBool(v));
    return it;
}
inline void dumpMixConfigItem(const QXmppMixConfigItem &it, D &d)
{
    dumpItemBase(it, d);
    d("mixcfg.formType", it.formType());
    d("mixcfg.lastEditorJid", it.lastEditorJid());
    d("mixcfg.ownerJids", it.ownerJids());
    d("mixcfg.administratorJids", it.administratorJids());
    d("mixcfg.channelDeletion", it.channelDeletion());
    d("mixcfg.nodes", int(it.nodes()));
    d("mixcfg.messagesSubscribeRole", it.messagesSubscribeRole());
    d("mixcfg.messagesRetractRole", it.messagesRetractRole());
    d("mixcfg.presenceSubscribeRole", it.presenceSubscribeRole());
    d("mixcfg.participantsSubscribeRole", it.participantsSubscribeRole());
    d("mixcfg.informationSubscribeRole", it.informationSubscribeRole());
    d("mixcfg.informationUpdateRole", it.informationUpdateRole());
    d("mixcfg.allowedJidsSubscribeRole", it.allowedJidsSubscribeRole());
    d("mixcfg.bannedJidsSubscribeRole", it.bannedJidsSubscribeRole());
    d("mixcfg.configurationReadRole", it.configurationReadRole());
    d("mixcfg.avatarUpdateRole", it.avatarUpdateRole());
    d("mixcfg.nicknameRequired", it.nicknameRequired());
    d("mixcfg.presenceRequired", it.presenceRequired());
    d("mixcfg.onlyParticipantsPermittedToSubmitPresence", it.onlyParticipantsPermittedToSubmitPresence());
    d("mixcfg.ownMessageRetractionPermitted", it.ownMessageRetractionPermitted());
    d("mixcfg.invitationsPermitted", it.invitationsPermitted());
    d("mixcfg.privateMessagesPermitted", it.privateMessagesPermitted());
}
inline QXmppMixInfoItem genMixInfoItem(Vals &v)
{
    QXmppMixInfoItem it;
    genItemBase(v, it);
    it.setFormType(v.t.pick<QXmppDataForm::Type>({ QXmppDataForm::Form, QXmppDataForm::Submit, QXmppDataForm::Cancel, QXmppDataForm::Result }));
    if (v.t.b())
        it.setName(v.text(20));
    if (v.t.b())
        it.setDescription(v.text(30));
    it.setContactJids(jidList(v, 0, 3));
    return it;
}
inline void dumpMixInfoItem(const QXmppMixInfoItem &it, D &d)
{
    dumpItemBase(it, d);
    d("mixinfo.formType", it.formType());
    d("mixinfo.name", it.name());
    d("mixinfo.description", it.description());
    d("mixinfo.contactJids", it.contactJids());
}
inline QXmppMixParticipantItem genMixParticipantItem(Vals &v)
{
    QXmppMixParticipantItem it;
    genItemBase(v, it);
    if (v.t.b())
        it.setNick(v.text(20));
    if (v.t.b())
        it.setJid(v.jid());
    return it;
}
inline void dumpMixParticipantItem(const QXmppMixParticipantItem &it, D &d)
{
    dumpItemBase(it, d);
    d("mixpart.nick", it.nick());
    d("mixpart.jid", it.jid());
}
inline QXmppMovedItem genMovedItem(Vals &v)
{
    QXmppMovedItem it;
    genItemBase(v, it);   // the constructor's default id "current" is replaced
    if (v.t.b())
        it.setNewJid(v.jid());
    return it;
}
inline void dumpMovedItem(const QXmppMovedItem &it, D &d)
{
    dumpItemBase(it, d);
    d("moved.newJid", it.newJid());
}

// ---- PubSubIq<T>
template<typename T, typename GenItem>
inline PubSubIq<T> genPubSubIq(Vals &v, GenItem genItem)
{
    using B = PubSubIqBase;
    PubSubIq<T> iq;
    genIq(v, iq, { QXmppIq::Get, QXmppIq::Set, QXmppIq::Result });
    const auto qt = v.t.pick<B::QueryType>({ B::Affiliations, B::OwnerAffiliations, B::Configure, B::Create, B::Default, B::OwnerDefault, B::Delete, B::Items, B::Options, B::Publish,
                                             B::Purge, B::Retract, B::Subscribe, B::Subscription, B::Subscriptions, B::OwnerSubscriptions, B::Unsubscribe });
    iq.setQueryType(qt);
    // the form type toXml() writes (see the header comment)
    const int outer = iq.type() == QXmppIq::Result ? QXmppDataForm::Result : QXmppDataForm::Submit;
    auto items = [&](int min) {
        QVector<T> l;
        int n = min + int(v.t.u(uint32_t(4 - min)));
        for (int i = 0; i < n; i++)
            l << genItem(v);
        return l;
    };
    if (qt == B::Subscription) {
        iq.setSubscription(genSubscription(v, CtxPubSub));
        // parseElementFromChild() reads the <options/> form that follows <subscription/>
        if (v.t.b())
            iq.setDataForm(genForm(v, outer));
        return iq;
    }
    // isPubSubIq(): node required for OwnerAffiliations/Items/Publish/Retract/Delete/Purge, jid for Options/OwnerSubscriptions/Subscribe/Unsubscribe
    const bool nodeRequired = qt == B::OwnerAffiliations || qt == B::Items || qt == B::Publish || qt == B::Retract || qt == B::Delete || qt == B::Purge;
    const bool jidRequired = qt == B::Options || qt == B::OwnerSubscriptions || qt == B::Subscribe || qt == B::Unsubscribe;
    if (nodeRequired || v.t.b())
        iq.setQueryNode(v.attr(16));
    if (jidRequired || v.t.b())
        iq.setQueryJid(v.jid());
    switch (qt) {
    case B::Items:
        iq.setSubscriptionId(optAttr(v));
        if (v.t.b()) {
            quint32 m = num<quint32>(v);
            iq.setMaxItems(m == 0 ? 1 : m);
        }
        iq.setItems(items(0));
        if (v.t.b())
            iq.setItemsContinuation(genRsmReply(v, true));
        break;
    case B::Publish:
        iq.setItems(items(0));
        if (v.t.b())
            iq.setDataForm(genForm(v, outer));   // <publish-options/>
        break;
    case B::Retract:
        iq.setItems(items(1));
        break;
    case B::Affiliations:
    case B::OwnerAffiliations: {
        QVector<QXmppPubSubAffiliation> l;
        int n = int(v.t.u(4));
        for (int i = 0; i < n; i++)
            l << genAffiliation(v, qt == B::OwnerAffiliations ? CtxOwner : CtxPubSub);
        iq.setAffiliations(l);
        break;
    }
    case B::Subscriptions:
    case B::OwnerSubscriptions: {
        QVector<QXmppPubSubSubscription> l;
        int n = int(v.t.u(4));
        for (int i = 0; i < n; i++)
            l << genSubscription(v, qt == B::OwnerSubscriptions ? CtxOwner : CtxPubSub);
        iq.setSubscriptions(l);
        break;
    }
    case B::Options:
        iq.setSubscriptionId(optAttr(v));
        [[fallthrough]];
    case B::Configure:
    case B::Default:
    case B::OwnerDefault:
        if (v.t.b()) {
            // inside the query element: result for a result IQ, else submit or cancel
            bool cancel = v.t.b();
            iq.setDataForm(genForm(v, iq.type() == QXmppIq::Result ? QXmppDataForm::Result : cancel ? QXmppDataForm::Cancel
                                                                                                    : QXmppDataForm::Submit));
        }
        break;
    case B::Create:      // <configure/>
    case B::Subscribe:   // <options/>
        if (v.t.b())
            iq.setDataForm(genForm(v, outer));
        break;
    case B::Unsubscribe:
        iq.setSubscriptionId(optAttr(v));
        break;
    case B::Delete:
    case B::Purge:
    case B::Subscription:
        break;
    }
    return iq;
}
template<typename T, typename DumpItem>
inline void dumpPubSubIq(const PubSubIq<T> &iq, D &d, DumpItem dumpItem)
{
    dumpIq(iq, d);
    d("queryType", iq.queryType());
    d("queryJid", iq.queryJid());
    d("queryNode", iq.queryNode());
    d("subscriptionId", iq.subscriptionId());
    const auto subs = iq.subscriptions();
    d("subscriptions", subs.size());
    for (const auto &s : subs)
        dumpSubscription(s, d);
    d("subscription", iq.subscription().has_value());
    const auto affs = iq.affiliations();
    d("affiliations", affs.size());
    for (const auto &a : affs)
        dumpAffiliation(a, d);
    d("maxItems", iq.maxItems());
    dumpOptForm("dataForm", iq.dataForm(), d);
    const auto cont = iq.itemsContinuation();
    d("itemsContinuation", cont.has_value());
    if (cont)
        dumpRsmReply(*cont, d);
    const auto its = iq.items();
    d("items", its.size());
    for (const auto &it : its)
        dumpItem(it, d);
}
template<typename T, typename GenItem, typename DumpItem>
inline void addPubSubIq(const char *name, GenItem genItem, DumpItem dumpItem)
{
    add<PubSubIq<T>>(
        name, [=](Vals &v) { return genPubSubIq<T>(v, genItem); }, [=](const PubSubIq<T> &iq, D &d) { dumpPubSubIq<T>(iq, d, dumpItem); });
}

// ---- QXmppPubSubEvent<T>
template<typename T, typename GenItem>
inline QXmppPubSubEvent<T> genEvent(Vals &v, GenItem genItem)
{
    using E = QXmppPubSubEventBase;
    QXmppPubSubEvent<T> e;
    // the message part: routing only (QXmppMessage has its own table)
    e.setId(optAttr(v));
    e.setTo(optJid(v));
    e.setFrom(optJid(v));
    e.setType(v.t.pick<QXmppMessage::Type>({ QXmppMessage::Normal, QXmppMessage::Headline }));
    const auto et = v.t.pick<E::EventType>({ E::Configuration, E::Delete, E::Items, E::Retract, E::Purge, E::Subscription });
    e.setEventType(et);
    switch (et) {
    case E::Configuration:
        e.setNode(optAttr(v));   // "node attribute is optional"
        if (v.t.b())
            e.setConfigurationForm(genForm(v));
        break;
    case E::Delete:
        e.setNode(v.attr(16));
        e.setRedirectUri(optAttr(v, 30));
        break;
    case E::Items: {
        e.setNode(v.attr(16));
        QVector<T> l;
        int n = int(v.t.u(4));
        for (int i = 0; i < n; i++)
            l << genItem(v);
        e.setItems(l);
        break;
    }
    case E::Retract:
        e.setNode(v.attr(16));
        e.setRetractIds(attrList(v, 1, 3));
        break;
    case E::Purge:
        e.setNode(v.attr(16));
        break;
    case E::Subscription:
        e.setSubscription(genSubscription(v, CtxEvent));
        break;
    }
    return e;
}
template<typename T, typename DumpItem>
inline void dumpEvent(const QXmppPubSubEvent<T> &e, D &d, DumpItem dumpItem)
{
    d.l << msggen::dump(e);   // every QXmppMessage getter: all but the routing stay default
    d("eventType", e.eventType());
    d("node", e.node());
    d("retractIds", e.retractIds());
    d("redirectUri", e.redirectUri());
    const auto sub = e.subscription();
    d("subscription", sub.has_value());
    if (sub)
        dumpSubscription(*sub, d);
    dumpOptForm("configurationForm", e.configurationForm(), d);
    const auto its = e.items();
    d("items", its.size());
    for (const auto &it : its)
        dumpItem(it, d);
}
template<typename T, typename GenItem, typename DumpItem>
inline void addEvent(const char *name, GenItem genItem, DumpItem dumpItem)
{
    add<QXmppPubSubEvent<T>>(
        name, [=](Vals &v) { return genEvent<T>(v, genItem); }, [=](const QXmppPubSubEvent<T> &e, D &d) { dumpEvent<T>(e, d, dumpItem); });
}

// ------------------------------------------------------------------------------------------------ entry shapes

// a class that writes no namespace of its own: serialised inside <verif-ctx xmlns='ns'/>, the parser gets the child element.
// build(Vals &, QString &ns) chooses the context.
template<typename T, typename Build, typename Dump>
inline void addInContext(const char *name, Build build, Dump dump)
{
    registry().push_back({ name, [=](Vals &v, Outcome &o) {
                              QString ns;
                              T obj = build(v, ns);
                              auto ser = [&](const T &x) {
                                  QByteArray out;
                                  {
                                      QXmlStreamWriter w(&out);
                                      w.writeStartElement(QStringLiteral("verif-ctx"));
                                      w.writeDefaultNamespace(ns);
                                      x.toXml(&w);
                                      w.writeEndElement();
                                  }
                                  return out;
                              };
                              {
                                  D d;
                                  dump(obj, d);
                                  o.before = d.l;
                              }
                              o.xml = ser(obj);
                              auto p = xu::parseFragment(o.xml);
                              if (!p.ok())
                                  return;
                              auto back = parseFresh<T>(p.el.firstChildElement());
                              if (!back)
                                  return;
                              o.reparsed = true;
                              {
                                  D d;
                                  dump(*back, d);
                                  o.after = d.l;
                              }
                              o.xml2 = ser(*back);
                          } });
}
// a data-form based class: object -> toDataForm() -> XML -> QXmppDataForm::parse() -> parse(form) -> std::optional<T>
template<typename T, typename Build, typename Dump, typename Parse>
inline void addFormBased(const char *name, Build build, Dump dump, Parse parse)
{
    registry().push_back({ name, [=](Vals &v, Outcome &o) {
                              T obj = build(v);
                              {
                                  D d;
                                  dump(obj, d);
                                  o.before = d.l;
                              }
                              o.xml = serWrapped(obj.toDataForm());
                              auto p = xu::parseFragment(o.xml);
                              if (!p.ok())
                                  return;
                              QXmppDataForm form;
                              form.parse(p.el);
                              std::optional<T> back = parse(form);
                              if (!back)
                                  return;
                              o.reparsed = true;
                              {
                                  D d;
                                  dump(*back, d);
                                  o.after = d.l;
                              }
                              o.xml2 = serWrapped(back->toDataForm());
                          } });
}
// additional fields of the extensible forms ("Sets all additional fields to be serialized"); a generated key cannot be one of
// the pubsub#... keys of the class.  FORM_TYPE is the class's own hidden field and is not generated.
inline QList<QXmppDataForm::Field> genUnknownFields(Vals &v)
{
    QList<QXmppDataForm::Field> l;
    int n = int(v.t.weighted({ 3, 1, 1 }));
    for (int i = 0; i < n; i++) {
        using F = QXmppDataForm::Field;
        F f;
        f.setType(v.t.pick<F::Type>({ F::TextSingleField, F::BooleanField, F::ListMultiField }));
        f.setKey(QStringLiteral("x-verif#") + v.attr(12));
        switch (f.type()) {
        case F::BooleanField:
            f.setValue(v.t.b());
            break;
        case F::ListMultiField:
            f.setValue(textList(v, 0, 2));
            break;
        default:
            f.setValue(v.text(16));
            break;
        }
        l << f;
    }
    return l;
}
inline void dumpUnknownFields(const QList<QXmppDataForm::Field> &l, D &d)
{
    d("unknownFields", l.size());
    for (const auto &f : l)
        dumpField(f, d);
}
template<typename V>
inline void dumpLimit(const char *k, const V &lim, D &d)
{
    if (lim.index() == 0)
        d(k, "unset");
    else if (lim.index() == 2)
        d(k, "max");
    else
        d(k, quint64(std::get<1>(lim)));
}
struct MetadataAccess : QXmppPubSubMetadata {
    static std::optional<QXmppPubSubMetadata> parse(const QXmppDataForm &form)
    {
        QXmppPubSubMetadata out;
        if (!QXmppDataFormBase::fromDataForm(form, out))
            return std::nullopt;
        return out;
    }
};

// ------------------------------------------------------------------------------------------------ MIX, misc

inline QXmppMixInvitation genMixInvitation(Vals &v)
{
    QXmppMixInvitation i;
    i.setInviterJid(optJid(v));
    i.setInviteeJid(optJid(v));
    i.setChannelJid(optJid(v));
    i.setToken(optText(v, 20));
    return i;
}
inline void dumpMixInvitation(const QXmppMixInvitation &i, D &d)
{
    d("inv.inviterJid", i.inviterJid());
    d("inv.inviteeJid", i.inviteeJid());
    d("inv.channelJid", i.channelJid());
    d("inv.token", i.token());
}
inline QXmppTrustMessageKeyOwner genKeyOwner(Vals &v)
{
    QXmppTrustMessageKeyOwner o;
    o.setJid(v.jid());
    QList<QByteArray> tr, di;
    int a = int(v.t.u(4)), b = int(v.t.u(4));
    for (int k = 0; k < a; k++)
        tr << v.bytes(32);
    for (int k = 0; k < b; k++)
        di << v.bytes(32);
    o.setTrustedKeys(tr);
    o.setDistrustedKeys(di);
    return o;
}
inline void dumpKeyOwner(const QXmppTrustMessageKeyOwner &o, D &d)
{
    d("owner.jid", o.jid());
    d("owner.trusted", o.trustedKeys());
    d("owner.distrusted", o.distrustedKeys());
}

}   // namespace ps

inline void registerPubSub()
{
    using namespace ps;

    // ---- XEP-0004
    add<QXmppDataForm>("QXmppDataForm", [](Vals &v) { return genForm(v); }, dumpForm);

    // ---- XEP-0059
    add<QXmppResultSetQuery>("QXmppResultSetQuery", genRsmQuery, dumpRsmQuery);
    add<QXmppResultSetReply>("QXmppResultSetReply", [](Vals &v) { return genRsmReply(v); }, dumpRsmReply);

    // ---- XEP-0313
    add<QXmppMamQueryIq>(
        "QXmppMamQueryIq",
        [](Vals &v) {
            QXmppMamQueryIq iq;
            genIq(v, iq, { QXmppIq::Set });   // "QXmppIq(QXmppIq::Set)": a MAM query is a set
            if (v.t.b())
                iq.setNode(v.attr(16));
            if (v.t.b())
                iq.setQueryId(v.attr(16));
            if (v.t.b())
                iq.setForm(genForm(v));
            if (v.t.b())
                iq.setResultSetQuery(genRsmQuery(v));
            return iq;
        },
        [](const QXmppMamQueryIq &iq, D &d) {
            dumpIq(iq, d);
            d("node", iq.node());
            d("queryId", iq.queryId());
            dumpForm(iq.form(), d);
            dumpRsmQuery(iq.resultSetQuery(), d);
        });
    add<QXmppMamResultIq>(
        "QXmppMamResultIq",
        [](Vals &v) {
            QXmppMamResultIq iq;
            genIq(v, iq, { QXmppIq::Result });
            iq.setComplete(v.t.b());
            if (v.t.b())
                iq.setResultSetReply(genRsmReply(v));
            return iq;
        },
        [](const QXmppMamResultIq &iq, D &d) {
            dumpIq(iq, d);
            d("complete", iq.complete());
            dumpRsmReply(iq.resultSetReply(), d);
        });

    // ---- XEP-0060: IQ and event per item type
    addPubSubIq<QXmppPubSubBaseItem>("PubSubIq<QXmppPubSubBaseItem>", genBaseItem, dumpBaseItem);
    addEvent<QXmppPubSubBaseItem>("QXmppPubSubEvent<QXmppPubSubBaseItem>", genBaseItem, dumpBaseItem);

    add<QXmppPubSubBaseItem>("QXmppPubSubBaseItem", genBaseItem, dumpBaseItem);
    add<QXmppGeolocItem>("QXmppGeolocItem", genGeolocItem, dumpGeolocItem);
    add<QXmppTuneItem>("QXmppTuneItem", genTuneItem, dumpTuneItem);
    add<QXmppMixConfigItem>("QXmppMixConfigItem", genMixConfigItem, dumpMixConfigItem);
    add<QXmppMixInfoItem>("QXmppMixInfoItem", genMixInfoItem, dumpMixInfoItem);
    add<QXmppMixParticipantItem>("QXmppMixParticipantItem", genMixParticipantItem, dumpMixParticipantItem);
    add<QXmppMovedItem>("QXmppMovedItem", genMovedItem, dumpMovedItem);

    addPubSubIq<QXmppGeolocItem>("PubSubIq<QXmppGeolocItem>", genGeolocItem, dumpGeolocItem);
    addPubSubIq<QXmppTuneItem>("PubSubIq<QXmppTuneItem>", genTuneItem, dumpTuneItem);
    addPubSubIq<QXmppMixConfigItem>("PubSubIq<QXmppMixConfigItem>", genMixConfigItem, dumpMixConfigItem);
    addPubSubIq<QXmppMixInfoItem>("PubSubIq<QXmppMixInfoItem>", genMixInfoItem, dumpMixInfoItem);
    addPubSubIq<QXmppMixParticipantItem>("PubSubIq<QXmppMixParticipantItem>", genMixParticipantItem, dumpMixParticipantItem);
    addPubSubIq<QXmppMovedItem>("PubSubIq<QXmppMovedItem>", genMovedItem, dumpMovedItem);
    addEvent<QXmppGeolocItem>("QXmppPubSubEvent<QXmppGeolocItem>", genGeolocItem, dumpGeolocItem);
    addEvent<QXmppTuneItem>("QXmppPubSubEvent<QXmppTuneItem>", genTuneItem, dumpTuneItem);
    addEvent<QXmppMixConfigItem>("QXmppPubSubEvent<QXmppMixConfigItem>", genMixConfigItem, dumpMixConfigItem);
    addEvent<QXmppMixInfoItem>("QXmppPubSubEvent<QXmppMixInfoItem>", genMixInfoItem, dumpMixInfoItem);
    addEvent<QXmppMixParticipantItem>("QXmppPubSubEvent<QXmppMixParticipantItem>", genMixParticipantItem, dumpMixParticipantItem);
    addEvent<QXmppMovedItem>("QXmppPubSubEvent<QXmppMovedItem>", genMovedItem, dumpMovedItem);

    // ---- XEP-0060: subscription / affiliation in their three parent namespaces
    addInContext<QXmppPubSubSubscription>(
        "QXmppPubSubSubscription",
        [](Vals &v, QString &ns) {
            int ctx = int(v.t.u(3));
            ns = ctxNamespace(ctx);
            return genSubscription(v, ctx);
        },
        dumpSubscription);
    addInContext<QXmppPubSubAffiliation>(
        "QXmppPubSubAffiliation",
        [](Vals &v, QString &ns) {
            int ctx = v.t.b() ? CtxOwner : CtxPubSub;
            ns = ctxNamespace(ctx);
            return genAffiliation(v, ctx);
        },
        dumpAffiliation);

    // ---- XEP-0060: data-form based classes
    addFormBased<QXmppPubSubSubscribeOptions>(
        "QXmppPubSubSubscribeOptions",
        [](Vals &v) {
            using O = QXmppPubSubSubscribeOptions;
            O o;
            o.setNotificationsEnabled(optBool(v));
            o.setDigestsEnabled(optBool(v));
            o.setDigestFrequencyMs(optNum<quint32>(v));
            o.setBodyIncluded(optBool(v));
            o.setExpire(optDateTime(v));
            O::PresenceStates rules;
            for (auto s : { O::Online, O::Away, O::Chat, O::DoNotDisturb, O::ExtendedAway })
                if (v.t.b())
                    rules |= s;
            o.setNotificationRules(rules);
            o.setSubscriptionType(optEnum<O::SubscriptionType>(v, { O::Items, O::Nodes }));
            o.setSubscriptionDepth(optEnum<O::SubscriptionDepth>(v, { O::TopLevelOnly, O::Recursive }));
            o.setUnknownFields(genUnknownFields(v));
            return o;
        },
        [](const QXmppPubSubSubscribeOptions &o, D &d) {
            d("notificationsEnabled", o.notificationsEnabled());
            d("digestsEnabled", o.digestsEnabled());
            d("digestFrequencyMs", o.digestFrequencyMs());
            d("bodyIncluded", o.bodyIncluded());
            d("expire", o.expire());
            d("notificationRules", int(o.notificationRules()));
            d("subscriptionType", o.subscriptionType());
            d("subscriptionDepth", o.subscriptionDepth());
            dumpUnknownFields(o.unknownFields(), d);
        },
        [](const QXmppDataForm &f) { return QXmppPubSubSubscribeOptions::fromDataForm(f); });
    addFormBased<QXmppPubSubNodeConfig>(
        "QXmppPubSubNodeConfig",
        [](Vals &v) {
            using C = QXmppPubSubNodeConfig;
            C c;
            c.setAccessModel(optEnum<C::AccessModel>(v, { C::Open, C::Presence, C::Roster, C::Authorize, C::Allowlist }));
            if (v.t.b())
                c.setBodyXslt(v.text(24));
            c.setChildAssociationPolicy(optEnum<C::ChildAssociationPolicy>(v, { C::ChildAssociationPolicy::All, C::ChildAssociationPolicy::Owners, C::ChildAssociationPolicy::Whitelist }));
            c.setChildAssociationAllowlist(jidList(v, 0, 2));
            c.setChildNodes(textList(v, 0, 2));
            c.setChildNodesMax(optNum<quint32>(v));
            c.setCollections(textList(v, 0, 2));
            c.setContactJids(jidList(v, 0, 2));
            if (v.t.b())
                c.setDataFormXslt(v.text(24));
            c.setNotificationsEnabled(optBool(v));
            c.setIncludePayloads(optBool(v));
            if (v.t.b())
                c.setDescription(v.text(24));
            c.setItemExpiry(optNum<quint32>(v));
            c.setNotificationItemPublisher(optEnum<C::ItemPublisher>(v, { C::NodeOwner, C::Publisher }));
            if (v.t.b())
                c.setLanguage(v.text(8));
            switch (v.t.u(3)) {
            case 1:
                c.setMaxItems(uint64_t(num<quint64>(v)));
                break;
            case 2:
                c.setMaxItems(C::Max());
                break;
            default:
                break;
            }
            c.setMaxPayloadSize(optNum<quint32>(v));
            c.setNodeType(optEnum<C::NodeType>(v, { C::Leaf, C::Collection }));
            c.setNotificationType(optEnum<C::NotificationType>(v, { C::Normal, C::Headline }));
            c.setConfigNotificationsEnabled(optBool(v));
            c.setDeleteNotificationsEnabled(optBool(v));
            c.setRetractNotificationsEnabled(optBool(v));
            c.setSubNotificationsEnabled(optBool(v));
            c.setPersistItems(optBool(v));
            c.setPresenceBasedNotifications(optBool(v));
            c.setPublishModel(optEnum<C::PublishModel>(v, { C::Publishers, C::Subscribers, C::Anyone }));
            c.setPurgeWhenOffline(optBool(v));
            c.setAllowedRosterGroups(textList(v, 0, 2));
            c.setSendLastItem(optEnum<C::SendLastItemType>(v, { C::Never, C::OnSubscription, C::OnSubscriptionAndPresence }));
            c.setTemporarySubscriptions(optBool(v));
            c.setAllowSubscriptions(optBool(v));
            if (v.t.b())
                c.setTitle(v.text(24));
            if (v.t.b())
                c.setPayloadType(v.text(24));
            c.setUnknownFields(genUnknownFields(v));
            return c;
        },
        [](const QXmppPubSubNodeConfig &c, D &d) {
            d("accessModel", c.accessModel());
            d("bodyXslt", c.bodyXslt());
            d("childAssociationPolicy", c.childAssociationPolicy());
            d("childAssociationAllowlist", c.childAssociationAllowlist());
            d("childNodes", c.childNodes());
            d("childNodesMax", c.childNodesMax());
            d("collections", c.collections());
            d("contactJids", c.contactJids());
            d("dataFormXslt", c.dataFormXslt());
            d("notificationsEnabled", c.notificationsEnabled());
            d("includePayloads", c.includePayloads());
            d("description", c.description());
            d("itemExpiry", c.itemExpiry());
            d("notificationItemPublisher", c.notificationItemPublisher());
            d("language", c.language());
            dumpLimit("maxItems", c.maxItems(), d);
            d("maxPayloadSize", c.maxPayloadSize());
            d("nodeType", c.nodeType());
            d("notificationType", c.notificationType());
            d("configNotificationsEnabled", c.configNotificationsEnabled());
            d("deleteNotificationsEnabled", c.deleteNotificationsEnabled());
            d("retractNotificationsEnabled", c.retractNotificationsEnabled());
            d("subNotificationsEnabled", c.subNotificationsEnabled());
            d("persistItems", c.persistItems());
            d("presenceBasedNotifications", c.presenceBasedNotifications());
            d("publishModel", c.publishModel());
            d("purgeWhenOffline", c.purgeWhenOffline());
            d("allowedRosterGroups", c.allowedRosterGroups());
            d("sendLastItem", c.sendLastItem());
            d("temporarySubscriptions", c.temporarySubscriptions());
            d("allowSubscriptions", c.allowSubscriptions());
            d("title", c.title());
            d("payloadType", c.payloadType());
            dumpUnknownFields(c.unknownFields(), d);
        },
        [](const QXmppDataForm &f) { return QXmppPubSubNodeConfig::fromDataForm(f); });
    addFormBased<QXmppPubSubSubAuthorization>(
        "QXmppPubSubSubAuthorization",
        [](Vals &v) {
            QXmppPubSubSubAuthorization a;
            a.setAllowSubscription(optBool(v));
            if (v.t.b())
                a.setNode(v.text(16));
            if (v.t.b())
                a.setSubscriberJid(v.jid());
            if (v.t.b())
                a.setSubid(v.text(16));
            a.setUnknownFields(genUnknownFields(v));
            return a;
        },
        [](const QXmppPubSubSubAuthorization &a, D &d) {
            d("allowSubscription", a.allowSubscription());
            d("node", a.node());
            d("subscriberJid", a.subscriberJid());
            d("subid", a.subid());
            dumpUnknownFields(a.unknownFields(), d);
        },
        [](const QXmppDataForm &f) { return QXmppPubSubSubAuthorization::fromDataForm(f); });
    addFormBased<QXmppPubSubMetadata>(
        "QXmppPubSubMetadata",
        [](Vals &v) {
            using M = QXmppPubSubMetadata;
            using C = QXmppPubSubNodeConfig;
            M m;
            m.setContactJids(jidList(v, 0, 2));
            m.setCreationDate(optDateTime(v));
            if (v.t.b())
                m.setCreatorJid(v.jid());
            if (v.t.b())
                m.setDescription(v.text(24));
            if (v.t.b())
                m.setLanguage(v.text(8));
            m.setAccessModel(optEnum<C::AccessModel>(v, { C::Open, C::Presence, C::Roster, C::Authorize, C::Allowlist }));
            m.setPublishModel(optEnum<C::PublishModel>(v, { C::Publishers, C::Subscribers, C::Anyone }));
            m.setNumberOfSubscribers(optNum<quint64>(v));
            m.setOwnerJids(jidList(v, 0, 2));
            m.setPublisherJids(jidList(v, 0, 2));
            if (v.t.b())
                m.setTitle(v.text(24));
            if (v.t.b())
                m.setType(v.text(24));
            switch (v.t.u(3)) {
            case 1:
                m.setMaxItems(quint64(num<quint64>(v)));
                break;
            case 2:
                m.setMaxItems(M::Max());
                break;
            default:
                break;
            }
            m.setUnknownFields(genUnknownFields(v));
            return m;
        },
        [](const QXmppPubSubMetadata &m, D &d) {
            d("contactJids", m.contactJids());
            d("creationDate", m.creationDate());
            d("creatorJid", m.creatorJid());
            d("description", m.description());
            d("language", m.language());
            d("accessModel", m.accessModel());
            d("publishModel", m.publishModel());
            d("numberOfSubscribers", m.numberOfSubscribers());
            d("ownerJids", m.ownerJids());
            d("publisherJids", m.publisherJids());
            d("title", m.title());
            d("type", m.type());
            dumpLimit("maxItems", m.maxItems(), d);
            dumpUnknownFields(m.unknownFields(), d);
        },
        [](const QXmppDataForm &f) { return MetadataAccess::parse(f); });

    // ---- XEP-0369 / XEP-0405 / XEP-0407
    add<QXmppMixIq>(
        "QXmppMixIq",
        [](Vals &v) {
            using M = QXmppMixIq;
            const auto UpdateSubscription = M::Type(5);   // the deprecated enumerator (still parsed and written)
            M iq;
            genIq(v, iq, { QXmppIq::Set, QXmppIq::Result });
            const auto at = v.t.pick<M::Type>({ M::ClientJoin, M::ClientLeave, M::Join, M::Leave, UpdateSubscription, M::SetNick, M::Create, M::Destroy });
            iq.setActionType(at);
            const bool join = at == M::ClientJoin || at == M::Join;
            if ((at == M::ClientJoin || at == M::ClientLeave) && iq.type() == QXmppIq::Set)
                iq.setChannelJid(v.jid());
            if (join && iq.type() == QXmppIq::Result && v.t.b())
                iq.setParticipantId(v.attr(16));
            if ((at == M::Create || at == M::Destroy) && v.t.b())
                iq.setChannelId(v.attr(16));
            if (join || at == UpdateSubscription)
                iq.setSubscriptions(genMixNodes(v));
            if ((join || at == M::SetNick) && v.t.b())
                iq.setNick(v.text(20));
            if (join && v.t.b())
                iq.setInvitation(genMixInvitation(v));
            return iq;
        },
        [](const QXmppMixIq &iq, D &d) {
            dumpIq(iq, d);
            d("actionType", iq.actionType());
            d("participantId", iq.participantId());
            d("channelId", iq.channelId());
            d("channelJid", iq.channelJid());
            d("subscriptions", int(iq.subscriptions()));
            d("nick", iq.nick());
            const auto inv = iq.invitation();
            d("invitation", inv.has_value());
            if (inv)
                dumpMixInvitation(*inv, d);
            QT_WARNING_PUSH
            QT_WARNING_DISABLE_DEPRECATED
            d("jid(deprecated)", iq.jid());
            d("channelName(deprecated)", iq.channelName());
            d("nodes(deprecated)", iq.nodes());
            QT_WARNING_POP
        });
    add<QXmppMixSubscriptionUpdateIq>(
        "QXmppMixSubscriptionUpdateIq",
        [](Vals &v) {
            QXmppMixSubscriptionUpdateIq iq;
            genIq(v, iq, { QXmppIq::Set, QXmppIq::Result });
            iq.setAdditions(genMixNodes(v));
            iq.setRemovals(genMixNodes(v));
            return iq;
        },
        [](const QXmppMixSubscriptionUpdateIq &iq, D &d) {
            dumpIq(iq, d);
            d("additions", int(iq.additions()));
            d("removals", int(iq.removals()));
        });
    add<QXmppMixInvitationRequestIq>(
        "QXmppMixInvitationRequestIq",
        [](Vals &v) {
            QXmppMixInvitationRequestIq iq;
            genIq(v, iq, { QXmppIq::Get });
            iq.setInviteeJid(v.jid());
            return iq;
        },
        [](const QXmppMixInvitationRequestIq &iq, D &d) {
            dumpIq(iq, d);
            d("inviteeJid", iq.inviteeJid());
        });
    add<QXmppMixInvitationResponseIq>(
        "QXmppMixInvitationResponseIq",
        [](Vals &v) {
            QXmppMixInvitationResponseIq iq;
            genIq(v, iq, { QXmppIq::Result });
            iq.setInvitation(genMixInvitation(v));
            return iq;
        },
        [](const QXmppMixInvitationResponseIq &iq, D &d) {
            dumpIq(iq, d);
            dumpMixInvitation(iq.invitation(), d);
        });
    add<QXmppMixInvitation>("QXmppMixInvitation", genMixInvitation, dumpMixInvitation);

    // ---- XEP-0434
    add<QXmppTrustMessageKeyOwner>("QXmppTrustMessageKeyOwner", genKeyOwner, dumpKeyOwner);
    add<QXmppTrustMessageElement>(
        "QXmppTrustMessageElement",
        [](Vals &v) {
            QXmppTrustMessageElement e;
            e.setUsage(v.attr(30));
            e.setEncryption(v.attr(30));
            QList<QXmppTrustMessageKeyOwner> owners;
            int n = int(v.t.u(4));
            for (int i = 0; i < n; i++)
                owners << genKeyOwner(v);
            e.setKeyOwners(owners);
            return e;
        },
        [](const QXmppTrustMessageElement &e, D &d) {
            d("usage", e.usage());
            d("encryption", e.encryption());
            const auto owners = e.keyOwners();
            d("keyOwners", owners.size());
            for (const auto &o : owners)
                dumpKeyOwner(o, d);
        });

    // ---- XEP-0444
    add<QXmppMessageReaction>(
        "QXmppMessageReaction",
        [](Vals &v) {
            QXmppMessageReaction r;
            r.setMessageId(v.attr());
            // a set: the i-th emoji ends in the i-th marker, so no two are equal whatever the generated prefixes are
            static const QStringList marker = { QStringLiteral("\U0001F44D"), QStringLiteral("\U0001F422"), QStringLiteral("❤") };
            QVector<QString> emojis;
            int n = int(v.t.u(4));
            for (int i = 0; i < n; i++)
                emojis << (v.t.b() ? v.text(6) : QString()) + marker[i];
            r.setEmojis(emojis);
            return r;
        },
        [](const QXmppMessageReaction &r, D &d) {
            d("messageId", r.messageId());
            QStringList es;
            for (const auto &e : r.emojis())
                es << e;
            d("emojis.count", es.size());
            d.sortedSet("emojis", es);
        });

    // ---- XEP-0066
    add<QXmppOutOfBandUrl>(
        "QXmppOutOfBandUrl",
        [](Vals &v) {
            QXmppOutOfBandUrl u;
            u.setUrl(v.text(40));   // a QString member: any text
            if (v.t.b())
                u.setDescription(v.text(30));
            return u;
        },
        [](const QXmppOutOfBandUrl &u, D &d) {
            d("url", u.url());
            d("description", u.description());
        });

    // ---- XEP-0428
    add<QXmppFallback>(
        "QXmppFallback",
        [](Vals &v) {
            QVector<QXmppFallback::Reference> refs;
            int n = int(v.t.u(4));
            for (int i = 0; i < n; i++) {
                QXmppFallback::Reference r;
                r.element = v.t.b() ? QXmppFallback::Body : QXmppFallback::Subject;
                if (v.t.b()) {
                    uint32_t a = num<uint32_t>(v), b = num<uint32_t>(v);
                    r.range = QXmppFallback::Range { std::min(a, b), std::max(a, b) };
                }
                refs.push_back(r);
            }
            return QXmppFallback(optAttr(v, 30), refs);
        },
        [](const QXmppFallback &f, D &d) {
            d("forNamespace", f.forNamespace());
            const auto &refs = f.references();
            d("references", refs.size());
            for (const auto &r : refs) {
                d("ref.element", r.element);
                d("ref.range", r.range.has_value());
                if (r.range) {
                    d("ref.start", r.range->start);
                    d("ref.end", r.range->end);
                }
            }
        });

    // ---- deprecated pre-1.5 API (src/base/compat)
    QT_WARNING_PUSH
    QT_WARNING_DISABLE_DEPRECATED
    auto genCompatItem = [](Vals &v) {
        QXmppPubSubItem it;
        it.setId(optAttr(v));
        if (v.t.b()) {
            QXmppElement e;
            e.setTagName(QStringLiteral("payload"));
            e.setAttribute(QStringLiteral("xmlns"), QStringLiteral("urn:example:verif"));
            if (v.t.b())
                e.setAttribute(QStringLiteral("a"), v.attr(16));
            if (v.t.b())
                e.setValue(v.text(24));
            it.setContents(e);
        }
        return it;
    };
    auto dumpCompatItem = [](const QXmppPubSubItem &it, D &d) {
        d("item.id", it.id());
        const auto c = it.contents();
        d("contents.isNull", c.isNull());
        d("contents.tagName", c.tagName());
        auto names = c.attributeNames();
        d.sortedSet("contents.attributeNames", names);
        names.sort();
        for (const auto &n : names)
            d("contents.attribute", c.attribute(n));
        d("contents.value", c.value());
    };
    add<QXmppPubSubItem>("QXmppPubSubItem", genCompatItem, dumpCompatItem);
    add<QXmppPubSubIq>(
        "QXmppPubSubIq",
        [=](Vals &v) {
            using Q = QXmppPubSubIq;
            Q iq;
            genIq(v, iq, { QXmppIq::Get, QXmppIq::Set, QXmppIq::Result });
            const auto qt = v.t.pick<Q::QueryType>({ Q::AffiliationsQuery, Q::DefaultQuery, Q::ItemsQuery, Q::PublishQuery, Q::RetractQuery, Q::SubscribeQuery, Q::SubscriptionQuery,
                                                     Q::SubscriptionsQuery, Q::UnsubscribeQuery });
            iq.setQueryType(qt);
            iq.setQueryJid(optJid(v));
            iq.setQueryNode(optAttr(v));
            if (qt == Q::ItemsQuery || qt == Q::PublishQuery || qt == Q::RetractQuery) {
                QList<QXmppPubSubItem> items;
                int n = int(v.t.u(4));
                for (int i = 0; i < n; i++)
                    items << genCompatItem(v);
                iq.setItems(items);
            }
            if (qt == Q::SubscriptionQuery)
                iq.setSubscriptionId(optAttr(v));   // written with SubscriptionQuery only
            return iq;
        },
        [=](const QXmppPubSubIq &iq, D &d) {
            dumpIq(iq, d);
            d("queryType", iq.queryType());
            d("queryJid", iq.queryJid());
            d("queryNode", iq.queryNode());
            d("subscriptionId", iq.subscriptionId());
            const auto items = iq.items();
            d("items", items.size());
            for (const auto &it : items)
                dumpCompatItem(it, d);
        });
    QT_WARNING_POP
}

}   // namespace og
