// Object-first tables: group "core" - presence, stanza error, plain IQ and the classic IQ payloads of src/base.
//
// Entries: QXmppStanza::Error, QXmppExtendedAddress, QXmppPresence, QXmppIq, QXmppMucItem, QXmppRosterIq(::Item),
// QXmppVCardAddress/Email/Phone, QXmppVCardIq, QXmppDiscoveryIq, QXmppBindIq, QXmppSessionIq, QXmppNonSASLAuthIq,
// QXmppPingIq, QXmppVersionIq, QXmppEntityTimeIq, QXmppRegisterIq, QXmppMucAdminIq, QXmppMucOwnerIq,
// QXmppBitsOfBinaryData, QXmppBitsOfBinaryIq, QXmppArchiveChat, QXmppArchiveChatIq/ListIq/RetrieveIq/RemoveIq/PrefIq,
// QXmppRpcInvokeIq/ResponseIq/ErrorIq, QXmppBookmarkSet, QXmppPushEnableIq, QXmppExternalService(DiscoveryIq),
// QXmppHttpUploadRequestIq/SlotIq, QXmppIbbOpenIq/CloseIq/DataIq, QXmppByteStreamIq, QXmppTransferFileInfo,
// QXmppStreamInitiationIq.
//
// Not entries of their own (tested nested only):
//   * QXmppVCardOrganization: toXml() writes three sibling elements and parse() reads the <vCard/> parent;
//   * QXmppBookmarkConference/Url, QXmppArchiveMessage, QXmppDiscoveryIq::Identity/Item, QXmppByteStreamIq::StreamHost,
//     QXmppBitsOfBinaryContentId, QXmppBitsOfBinaryDataList: no codec pair of their own;
//   * QXmppE2eeMetadata: never serialised (only has_value of the stanza getter is dumped);
//   * QXmppDataForm, QXmppResultSetQuery/Reply: small generators here, the thorough tables belong to the pubsub group;
//     QXmppJingleIq::Content (muji contents of a presence): minimal contents here, the media group has the full table.
//
// FINDINGS kept visible by the generators (see the notes at the classes):
//   * Jabber-RPC marshaller: every integer variant is written as <i4/> but only 32-bit signed values are read back (the
//     argument and all following ones are dropped); QDate comes back as a QDateTime, QTime as an invalid QDateTime.
//     The dump names these values rpc.int-outside-i4 / rpc.date / rpc.time and lists sizes AFTER the elements, so that the
//     recorded finding has its own failure signature and any other loss in the RPC classes keeps a different one.
// Repaired in /repo since this table was written (the generators now use the full domain): QXmppIq xml:lang, the RSM reply
// count of a request, the uninitialised tzo / profile / port members.
//
// Domain notes (read from the parse()/toXml() pairs in /repo/src/base):
//   * QXmppStanza::Error: a default error (NoType and NoCondition) serialises to nothing, so at least one of the two is set.
//     `code` is written only when > 0 (0 = unset): domain 1..INT_MAX.  The redirection URI exists only for Gone/Redirect
//     (documented on the setter).  <file-too-large/> and <retry/> are alternatives (toXml: else-if), maxFileSize belongs to
//     fileTooLarge (setMaxFileSize sets the flag).
//   * QXmppIq: every QXmppIq constructor draws an id from a process-wide counter, so every entry sets the id explicitly
//     (present or empty).  `lang` is a QXmppStanza field; it is exercised on QXmppPresence and on the plain QXmppIq only,
//     the payload classes leave it unset.  XEP-0033 addresses are defined for message and presence: set on presence only.
//   * QXmppPresence: <c/> is written only when node, ver and hash are all set (XEP-0115 requires the three): set together.
//     capabilityExt has no setter and is not written.  photoHash belongs to VCardUpdateValidPhoto only.  mucPassword lives
//     inside <x xmlns=muc/>, i.e. only with mucSupported.  A null QXmppMucItem is the "absent" item.
//   * QXmppVCardIq: photoType is derived from the image bytes by toXml() when empty, so it is always set together with the
//     photo; birthday is written as yyyy-MM-dd (years 0001..9999).
//   * QXmppDiscoveryIq: identities/features belong to InfoQuery, items to ItemsQuery (toXml writes only the selected kind);
//     the XEP-0128 form is set for InfoQuery only.
//   * Jabber-RPC: dateTime.iso8601 has seconds resolution (date-times without milliseconds); a response is a fault or values.
//   * Other per-class notes stand next to the generators.
#pragma once

#include "objgen.h"
#include "objgen_stream.h"   // genCondition, optBytes

#include "QXmppArchiveIq.h"
#include "QXmppBindIq.h"
#include "QXmppBitsOfBinaryContentId.h"
#include "QXmppBitsOfBinaryData.h"
#include "QXmppBitsOfBinaryDataList.h"
#include "QXmppBitsOfBinaryIq.h"
#include "QXmppBookmarkSet.h"
#include "QXmppByteStreamIq.h"
#include "QXmppDataForm.h"
#include "QXmppDiscoveryIq.h"
#include "QXmppEntityTimeIq.h"
#include "QXmppExternalService.h"
#include "QXmppExternalServiceDiscoveryIq.h"
#include "QXmppHttpUploadIq.h"
#include "QXmppIbbIq.h"
#include "QXmppNonSASLAuth.h"
#include "QXmppPingIq.h"
#include "QXmppPushEnableIq.h"
#include "QXmppRegisterIq.h"
#include "QXmppResultSet.h"
#include "QXmppRpcIq.h"
#include "QXmppStreamInitiationIq_p.h"
#include "QXmppTransferManager.h"
#include "QXmppVersionIq.h"
#include "compat/QXmppSessionIq.h"
#include "QXmppE2eeMetadata.h"
#include "QXmppElement.h"
#include "QXmppIq.h"
#include "QXmppJingleIq.h"
#include "QXmppMucIq.h"
#include "QXmppPresence.h"
#include "QXmppRosterIq.h"
#include "QXmppStanza.h"
#include "QXmppVCardIq.h"

#include <QCryptographicHash>
#include <QMimeDatabase>
#include <cmath>
#include <cstring>

namespace og {
namespace core {

// ------------------------------------------------------------------------------------------------ shared pieces

inline QXmppStanza::Error genError(Vals &v)
{
    using E = QXmppStanza::Error;
    E e;
    E::Condition cond = E::NoCondition;
    int shape = int(v.t.u(3));   // 0: type and condition, 1: type only, 2: condition only
    if (shape != 2)
        e.setType(v.t.pick<E::Type>({ E::Cancel, E::Continue, E::Modify, E::Auth, E::Wait }));
    if (shape != 1) {
        cond = genCondition(v);
        e.setCondition(cond);
    }
    if (v.t.b())
        e.setText(v.text());
    if (v.t.b())
        e.setBy(v.jid());
    if (v.t.b())
        e.setCode(int(v.t.range(1, 2147483647)));
    if ((cond == E::Gone || cond == E::Redirect) && v.t.b())
        e.setRedirectionUri(v.text());
    switch (v.t.u(4)) {
    case 1:
        e.setFileTooLarge(true);   // size left at its default 0
        break;
    case 2:
        e.setMaxFileSize(num<qint64>(v));
        break;
    case 3:
        e.setRetryDate(gen::dateTime(v.t));
        break;
    default:
        break;
    }
    return e;
}
inline void dumpError(const QXmppStanza::Error &e, D &d)
{
    d("error.type", e.type());
    d("error.condition", e.condition());
    d("error.text", e.text());
    d("error.by", e.by());
    d("error.code", e.code());
    d("error.redirectionUri", e.redirectionUri());
    d("error.fileTooLarge", e.fileTooLarge());
    d("error.maxFileSize", e.maxFileSize());
    d("error.retryDate", e.retryDate());
}

inline QXmppExtendedAddress genAddress(Vals &v)
{
    QXmppExtendedAddress a;
    a.setJid(v.jid());
    a.setType(v.t.pick<QString>({ "to", "cc", "bcc", "replyto", "replyroom", "noreply", "ofrom" }));
    if (v.t.b())
        a.setDescription(v.attr());
    a.setDelivered(v.t.b());
    return a;
}
inline void dumpAddress(const QXmppExtendedAddress &a, D &d)
{
    d("address.jid", a.jid());
    d("address.type", a.type());
    d("address.desc", a.description());
    d("address.delivered", a.isDelivered());
    d("address.valid", a.isValid());
}

// the QXmppStanza part of a dump
inline void dumpStanza(const QXmppStanza &s, D &d, bool withExtensions = true)
{
    d("id", s.id());
    d("to", s.to());
    d("from", s.from());
    d("lang", s.lang());
    d("hasError", s.errorOptional().has_value());
    dumpError(s.error(), d);
    const auto as = s.extendedAddresses();
    d("addresses", as.size());
    for (const auto &a : as)
        dumpAddress(a, d);
    if (withExtensions) {
        const auto exts = s.extensions();
        d("extensions", exts.size());
        for (const auto &e : exts)
            d.xml("extension", e);
    }
    d("e2ee", s.e2eeMetadata().has_value());   // never serialised, never set
}

// id / to / from / type (+ error with type Error) of an IQ.  `types`: the types the payload class is used with.
template<typename T>
inline void genIqBase(Vals &v, T &iq, std::initializer_list<QXmppIq::Type> types = { QXmppIq::Get, QXmppIq::Set, QXmppIq::Result })
{
    iq.setId(v.t.b() ? v.attr() : QString());
    if (v.t.b())
        iq.setTo(v.jid());
    if (v.t.b())
        iq.setFrom(v.jid());
    if (v.t.prob(1, 5)) {
        iq.setType(QXmppIq::Error);
        iq.setError(genError(v));
    } else {
        iq.setType(v.t.pick<QXmppIq::Type>(types));
    }
}
inline void dumpIqBase(const QXmppIq &iq, D &d)
{
    d("iq.type", iq.type());
    dumpStanza(iq, d);
}
// QXmppPingIq and QXmppSessionIq only override toXmlElementFromChild(): parsing goes through QXmppIq, which keeps the
// payload element in extensions(), and their serialiser ignores extensions().  Nothing is lost or duplicated on the wire,
// so extensions() is left out of the dump for these two (table false alarm "field-lost extensions", corrected).
inline void dumpIqBaseNoExtensions(const QXmppIq &iq, D &d)
{
    d("iq.type", iq.type());
    dumpStanza(iq, d, false);
}

// ---- small data forms
inline QXmppDataForm genForm(Vals &v)
{
    QXmppDataForm f;
    f.setType(v.t.pick<QXmppDataForm::Type>({ QXmppDataForm::Form, QXmppDataForm::Submit, QXmppDataForm::Cancel, QXmppDataForm::Result }));
    if (v.t.b())
        f.setTitle(v.text(20));
    if (v.t.b())
        f.setInstructions(v.text(20));
    QList<QXmppDataForm::Field> fields;
    int n = int(v.t.u(4));
    for (int i = 0; i < n; i++) {
        using F = QXmppDataForm::Field;
        F fld;
        switch (v.t.u(4)) {
        case 0:
            fld.setType(F::TextSingleField);
            if (v.t.b())
                fld.setValue(v.text(20));
            break;
        case 1:
            fld.setType(F::HiddenField);
            fld.setValue(v.text(20));
            break;
        case 2:
            fld.setType(F::BooleanField);
            fld.setValue(v.t.b());
            break;
        default: {
            fld.setType(F::ListMultiField);
            QStringList vals;
            int k = int(v.t.u(3));
            for (int j = 0; j < k; j++)
                vals << v.text(12);
            fld.setValue(vals);
            break;
        }
        }
        if (v.t.b())
            fld.setKey(v.attr(16));
        if (v.t.b())
            fld.setLabel(v.attr(16));
        if (v.t.b())
            fld.setDescription(v.text(16));
        fld.setRequired(v.t.b());
        fields << fld;
    }
    f.setFields(fields);
    return f;
}
inline void dumpForm(const QXmppDataForm &f, D &d)
{
    d("form.type", f.type());
    d("form.title", f.title());
    d("form.instructions", f.instructions());
    const auto fields = f.fields();
    d("form.fields", fields.size());
    for (const auto &x : fields) {
        d("field.type", x.type());
        d("field.key", x.key());
        d("field.label", x.label());
        d("field.description", x.description());
        d("field.required", x.isRequired());
        // the QVariant type of an unset value is Invalid before and QString after parsing: only the value is compared
        d("field.value", x.value().toStringList().isEmpty() ? QStringList { x.value().toString() } : x.value().toStringList());
        d("field.options", x.options().size());
        d("field.media", x.mediaSources().size());
    }
}

// ---- QXmppMucItem
inline QXmppMucItem genMucItem(Vals &v)
{
    QXmppMucItem it;
    if (v.t.b())
        it.setActor(v.jid());
    it.setAffiliation(v.t.pick<QXmppMucItem::Affiliation>({ QXmppMucItem::UnspecifiedAffiliation, QXmppMucItem::OutcastAffiliation, QXmppMucItem::NoAffiliation,
                                                            QXmppMucItem::MemberAffiliation, QXmppMucItem::AdminAffiliation, QXmppMucItem::OwnerAffiliation }));
    if (v.t.b())
        it.setJid(v.jid());
    if (v.t.b())
        it.setNick(v.attr());
    if (v.t.b())
        it.setReason(v.text());
    it.setRole(v.t.pick<QXmppMucItem::Role>({ QXmppMucItem::UnspecifiedRole, QXmppMucItem::NoRole, QXmppMucItem::VisitorRole, QXmppMucItem::ParticipantRole, QXmppMucItem::ModeratorRole }));
    return it;
}
inline void dumpMucItem(const QXmppMucItem &it, D &d)
{
    d("muc.isNull", it.isNull());
    d("muc.actor", it.actor());
    d("muc.affiliation", it.affiliation());
    d("muc.jid", it.jid());
    d("muc.nick", it.nick());
    d("muc.reason", it.reason());
    d("muc.role", it.role());
}

// ------------------------------------------------------------------------------------------------ presence

inline QXmppPresence genPresence(Vals &v)
{
    using P = QXmppPresence;
    P p;
    p.setType(v.t.pick<P::Type>({ P::Error, P::Available, P::Unavailable, P::Subscribe, P::Subscribed, P::Unsubscribe, P::Unsubscribed, P::Probe }));
    if (v.t.b())
        p.setId(v.attr());
    if (v.t.b())
        p.setTo(v.jid());
    if (v.t.b())
        p.setFrom(v.jid());
    if (v.t.prob(1, 3))
        p.setLang(v.t.pick<QString>({ "en", "de", "pt-BR", "zh-Hant" }));
    if (p.type() == P::Error && v.t.b())
        p.setError(genError(v));
    p.setAvailableStatusType(v.t.pick<P::AvailableStatusType>({ P::Online, P::Away, P::XA, P::DND, P::Chat, P::Invisible }));
    if (v.t.b())
        p.setStatusText(v.text());
    if (v.t.b())
        p.setPriority(num<int>(v));
    // XEP-0045
    if (v.t.b()) {
        p.setMucSupported(true);
        if (v.t.b())
            p.setMucPassword(v.text(16));
    }
    if (v.t.b())
        p.setMucItem(genMucItem(v));
    {
        QList<int> codes;
        int n = int(v.t.u(4));
        for (int i = 0; i < n; i++)
            codes << int(v.t.range(100, 999));
        p.setMucStatusCodes(codes);
    }
    // XEP-0153
    switch (v.t.u(4)) {
    case 1:
        p.setVCardUpdateType(P::VCardUpdateNoPhoto);
        break;
    case 2:
        p.setVCardUpdateType(P::VCardUpdateValidPhoto);
        p.setPhotoHash(v.bytes(20));
        break;
    case 3:
        p.setVCardUpdateType(P::VCardUpdateNotReady);
        break;
    default:
        break;
    }
    // XEP-0115
    if (v.t.b()) {
        p.setCapabilityHash(v.attr(8));
        p.setCapabilityNode(v.attr());
        p.setCapabilityVer(v.bytes(20));
    }
    // XEP-0272
    p.setIsPreparingMujiSession(v.t.b());
    {
        QVector<QXmppJingleIq::Content> cs;
        int n = int(v.t.u(3));
        for (int i = 0; i < n; i++) {
            QXmppJingleIq::Content c;   // creator and name are mandatory (toXml writes nothing without them)
            c.setCreator(v.t.pick<QString>({ "initiator", "responder" }));
            c.setName(v.attr(12));
            if (v.t.b())
                c.setSenders(v.t.pick<QString>({ "both", "initiator", "none", "responder" }));
            if (v.t.b()) {
                QXmppJingleDescription desc;
                desc.setType(QStringLiteral("urn:xmpp:jingle:apps:rtp:1"));
                desc.setMedia(v.t.pick<QString>({ "audio", "video" }));
                c.setDescription(desc);
            }
            cs << c;
        }
        p.setMujiContents(cs);
    }
    // XEP-0283
    if (v.t.b())
        p.setOldJid(v.jid());
    // XEP-0319
    if (v.t.b())
        p.setLastUserInteraction(gen::dateTime(v.t));
    // XEP-0405
    if (v.t.b())
        p.setMixUserJid(v.jid());
    if (v.t.b())
        p.setMixUserNick(v.text(16));
    // XEP-0033
    if (v.t.prob(1, 3)) {
        QList<QXmppExtendedAddress> as;
        int n = 1 + int(v.t.u(2));
        for (int i = 0; i < n; i++)
            as << genAddress(v);
        p.setExtendedAddresses(as);
    }
    return p;
}
inline void dumpPresence(const QXmppPresence &p, D &d)
{
    d("type", p.type());
    dumpStanza(p, d);
    d("show", p.availableStatusType());
    d("status", p.statusText());
    d("priority", p.priority());
    d("mucSupported", p.isMucSupported());
    d("mucPassword", p.mucPassword());
    dumpMucItem(p.mucItem(), d);
    d("mucStatusCodes", p.mucStatusCodes());
    d("vCardUpdateType", p.vCardUpdateType());
    d("photoHash", p.photoHash());
    d("capabilityHash", p.capabilityHash());
    d("capabilityNode", p.capabilityNode());
    d("capabilityVer", p.capabilityVer());
    d("capabilityExt", p.capabilityExt());
    d("mujiPreparing", p.isPreparingMujiSession());
    const auto cs = p.mujiContents();
    d("mujiContents", cs.size());
    for (const auto &c : cs) {
        d("muji.creator", c.creator());
        d("muji.name", c.name());
        d("muji.senders", c.senders());
        d("muji.description.type", c.description().type());
        d("muji.description.media", c.description().media());
        d.xml("muji.content", c);
    }
    d("oldJid", p.oldJid());
    d("lastUserInteraction", p.lastUserInteraction());
    d("mixUserJid", p.mixUserJid());
    d("mixUserNick", p.mixUserNick());
}

// ------------------------------------------------------------------------------------------------ plain IQ

inline QXmppElement genElement(Vals &v, int depth = 0)
{
    QXmppElement e;
    e.setTagName(v.t.pick<QString>({ "query", "x", "payload" }));
    if (depth == 0)
        e.setAttribute(QStringLiteral("xmlns"), QStringLiteral("urn:example:verif:") + QString::number(v.t.u(3)));
    if (v.t.b())
        e.setAttribute(QStringLiteral("a"), v.attr());
    if (v.t.b())
        e.setAttribute(QStringLiteral("b"), v.attr());
    // either text or children: mixed content is not something QXmppElement keeps in order
    if (v.t.b()) {
        e.setValue(v.text());
    } else if (depth < 2) {
        int n = int(v.t.u(3));
        for (int i = 0; i < n; i++)
            e.appendChild(genElement(v, depth + 1));
    }
    return e;
}

// ------------------------------------------------------------------------------------------------ roster

inline QXmppRosterIq::Item genRosterItem(Vals &v)
{
    using I = QXmppRosterIq::Item;
    I it;
    if (v.t.b())
        it.setBareJid(v.jid());
    if (v.t.b())
        it.setName(v.attr());
    it.setSubscriptionType(v.t.pick<I::SubscriptionType>({ I::None, I::From, I::To, I::Both, I::Remove, I::NotSet }));
    if (v.t.b())
        it.setSubscriptionStatus(v.attr(12));
    it.setIsApproved(v.t.b());
    QSet<QString> groups;
    int n = int(v.t.u(4));
    // groups are a set: the index suffix keeps the names distinct whatever the drawn strings are (a duplicate would
    // collapse in the hard run and not in the benign twin)
    for (int i = 0; i < n; i++)
        groups << v.text(16) + QString::number(i);
    it.setGroups(groups);
    if (v.t.b()) {
        it.setIsMixChannel(true);
        if (v.t.b())
            it.setMixParticipantId(v.attr());
    }
    return it;
}
inline void dumpRosterItem(const QXmppRosterIq::Item &it, D &d)
{
    d("item.jid", it.bareJid());
    d("item.name", it.name());
    d("item.subscription", it.subscriptionType());
    d("item.ask", it.subscriptionStatus());
    d("item.approved", it.isApproved());
    d.sortedSet("item.groups", it.groups().values());
    d("item.mixChannel", it.isMixChannel());
    d("item.mixParticipantId", it.mixParticipantId());
}

// ------------------------------------------------------------------------------------------------ vCard

template<typename Flags, typename Flag>
inline Flags genFlags(Vals &v, std::initializer_list<Flag> all)
{
    Flags f;
    for (auto x : all)
        if (v.t.prob(1, 3))
            f |= x;
    return f;
}
inline QXmppVCardAddress genVCardAddress(Vals &v)
{
    using A = QXmppVCardAddress;
    A a;
    a.setType(genFlags<A::Type, A::TypeFlag>(v, { A::Home, A::Work, A::Postal, A::Preferred }));
    if (v.t.b())
        a.setCountry(v.text(16));
    if (v.t.b())
        a.setLocality(v.text(16));
    if (v.t.b())
        a.setPostcode(v.text(10));
    if (v.t.b())
        a.setRegion(v.text(16));
    if (v.t.b())
        a.setStreet(v.text(24));
    return a;
}
inline void dumpVCardAddress(const QXmppVCardAddress &a, D &d)
{
    d("adr.type", int(a.type()));
    d("adr.country", a.country());
    d("adr.locality", a.locality());
    d("adr.postcode", a.postcode());
    d("adr.region", a.region());
    d("adr.street", a.street());
}
inline QXmppVCardEmail genVCardEmail(Vals &v)
{
    using E = QXmppVCardEmail;
    E e;
    e.setType(genFlags<E::Type, E::TypeFlag>(v, { E::Home, E::Work, E::Internet, E::Preferred, E::X400 }));
    if (v.t.b())
        e.setAddress(v.text(24));
    return e;
}
inline void dumpVCardEmail(const QXmppVCardEmail &e, D &d)
{
    d("email.type", int(e.type()));
    d("email.address", e.address());
}
inline QXmppVCardPhone genVCardPhone(Vals &v)
{
    using P = QXmppVCardPhone;
    P p;
    p.setType(genFlags<P::Type, P::TypeFlag>(v, { P::Home, P::Work, P::Voice, P::Fax, P::Pager, P::Messaging, P::Cell, P::Video, P::BBS, P::Modem, P::ISDN, P::PCS, P::Preferred }));
    if (v.t.b())
        p.setNumber(v.text(20));
    return p;
}
inline void dumpVCardPhone(const QXmppVCardPhone &p, D &d)
{
    d("tel.type", int(p.type()));
    d("tel.number", p.number());
}
inline QXmppVCardIq genVCard(Vals &v)
{
    QXmppVCardIq c;
    genIqBase(v, c);
    if (v.t.b())
        c.setBirthday(QDate(1, 1, 1).addDays(v.t.range(0, 3652058)));   // 0001-01-01 .. 9999-12-31
    if (v.t.b())
        c.setDescription(v.text());
    if (v.t.b())
        c.setFirstName(v.text(16));
    if (v.t.b())
        c.setFullName(v.text(24));
    if (v.t.b())
        c.setLastName(v.text(16));
    if (v.t.b())
        c.setMiddleName(v.text(16));
    if (v.t.b())
        c.setNickName(v.text(16));
    if (v.t.b()) {
        c.setPhoto(v.bytes(60));
        c.setPhotoType(v.text(16));
    }
    if (v.t.b())
        c.setUrl(v.text(30));
    {
        QList<QXmppVCardAddress> as;
        int n = int(v.t.u(3));
        for (int i = 0; i < n; i++)
            as << genVCardAddress(v);
        c.setAddresses(as);
    }
    switch (v.t.u(3)) {
    case 1:
        c.setEmail(v.text(24));   // convenience setter: one Internet address
        break;
    case 2: {
        QList<QXmppVCardEmail> es;
        int n = 1 + int(v.t.u(3));
        for (int i = 0; i < n; i++)
            es << genVCardEmail(v);
        c.setEmails(es);
        break;
    }
    default:
        break;
    }
    {
        QList<QXmppVCardPhone> ps;
        int n = int(v.t.u(3));
        for (int i = 0; i < n; i++)
            ps << genVCardPhone(v);
        c.setPhones(ps);
    }
    if (v.t.b()) {
        QXmppVCardOrganization o;
        if (v.t.b())
            o.setOrganization(v.text(20));
        if (v.t.b())
            o.setUnit(v.text(20));
        if (v.t.b())
            o.setTitle(v.text(20));
        if (v.t.b())
            o.setRole(v.text(20));
        c.setOrganization(o);
    }
    return c;
}
inline void dumpVCard(const QXmppVCardIq &c, D &d)
{
    dumpIqBase(c, d);
    d("birthday", c.birthday());
    d("description", c.description());
    d("email", c.email());
    d("firstName", c.firstName());
    d("fullName", c.fullName());
    d("lastName", c.lastName());
    d("middleName", c.middleName());
    d("nickName", c.nickName());
    d("photo", c.photo());
    d("photoType", c.photoType());
    d("url", c.url());
    const auto as = c.addresses();
    d("addresses", as.size());
    for (const auto &a : as)
        dumpVCardAddress(a, d);
    const auto es = c.emails();
    d("emails", es.size());
    for (const auto &e : es)
        dumpVCardEmail(e, d);
    const auto ps = c.phones();
    d("phones", ps.size());
    for (const auto &p : ps)
        dumpVCardPhone(p, d);
    d("org.organization", c.organization().organization());
    d("org.unit", c.organization().unit());
    d("org.title", c.organization().title());
    d("org.role", c.organization().role());
}

// ------------------------------------------------------------------------------------------------ discovery

inline QXmppDiscoveryIq genDisco(Vals &v)
{
    QXmppDiscoveryIq q;
    genIqBase(v, q, { QXmppIq::Get, QXmppIq::Result });
    if (v.t.b())
        q.setQueryNode(v.attr());
    if (v.t.b()) {
        q.setQueryType(QXmppDiscoveryIq::InfoQuery);
        QList<QXmppDiscoveryIq::Identity> ids;
        int n = int(v.t.u(4));
        for (int i = 0; i < n; i++) {
            QXmppDiscoveryIq::Identity id;
            id.setCategory(v.attr(12));
            id.setType(v.attr(12));
            if (v.t.b())
                id.setName(v.attr());
            if (v.t.b())
                id.setLanguage(v.t.pick<QString>({ "en", "de", "pt-BR", "zh-Hant" }));
            ids << id;
        }
        q.setIdentities(ids);
        QStringList fs;
        int k = int(v.t.u(4));
        for (int i = 0; i < k; i++)
            fs << v.attr();
        q.setFeatures(fs);
        if (v.t.b())
            q.setForm(genForm(v));
    } else {
        q.setQueryType(QXmppDiscoveryIq::ItemsQuery);
        QList<QXmppDiscoveryIq::Item> items;
        int n = int(v.t.u(4));
        for (int i = 0; i < n; i++) {
            QXmppDiscoveryIq::Item it;
            it.setJid(v.jid());
            if (v.t.b())
                it.setName(v.attr());
            if (v.t.b())
                it.setNode(v.attr());
            items << it;
        }
        q.setItems(items);
    }
    return q;
}
inline void dumpDisco(const QXmppDiscoveryIq &q, D &d)
{
    dumpIqBase(q, d);
    d("queryType", q.queryType());
    d("queryNode", q.queryNode());
    const auto ids = q.identities();
    d("identities", ids.size());
    for (const auto &i : ids) {
        d("identity.category", i.category());
        d("identity.type", i.type());
        d("identity.name", i.name());
        d("identity.lang", i.language());
    }
    d("features", q.features());
    const auto items = q.items();
    d("items", items.size());
    for (const auto &i : items) {
        d("item.jid", i.jid());
        d("item.name", i.name());
        d("item.node", i.node());
    }
    dumpForm(q.form(), d);
    d("verificationString", q.verificationString());
}

// ------------------------------------------------------------------------------------------------ typed helpers

inline QMimeType genMime(Vals &v)
{
    return QMimeDatabase().mimeTypeForName(v.t.pick<QString>({ "image/png", "image/jpeg", "text/plain", "application/pdf", "video/mp4" }));
}
// a valid URL whose path is free text (QUrl percent-encodes what it has to)
inline QUrl genUrl(Vals &v)
{
    QUrl u;
    u.setScheme(v.t.pick<QString>({ "https", "http" }));
    u.setHost(v.t.pick<QString>({ "upload.example.org", "files.example.com", "localhost" }));
    if (v.t.b())
        u.setPort(int(v.t.range(1, 65535)));
    u.setPath(QStringLiteral("/") + v.attr(16), QUrl::DecodedMode);
    if (v.t.b())
        u.setQuery(QStringLiteral("k=") + v.s(gen::Ascii, 8));
    return u;
}

// ---- result set management (the thorough RSM table is in the pubsub group).  The reply always carries a count: a reply
// without one comes back with count 0 instead of -1 (recorded for QXmppResultSetReply itself), which would only mask
// the fields of the classes tested here.
inline QXmppResultSetQuery genRsmQuery(Vals &v)
{
    QXmppResultSetQuery q;
    if (v.t.b())
        q.setMax(int(v.t.range(0, 2147483647)));
    switch (v.t.u(3)) {
    case 1:
        q.setAfter(v.text(16));
        break;
    case 2:
        q.setBefore(v.text(16));
        break;
    default:
        break;
    }
    if (v.t.b())
        q.setIndex(int(v.t.range(0, 2147483647)));
    return q;
}
inline void dumpRsmQuery(const QXmppResultSetQuery &q, D &d)
{
    d("rsmq.isNull", q.isNull());
    d("rsmq.max", q.max());
    d("rsmq.after", q.after());
    d("rsmq.before", q.before());
    d("rsmq.index", q.index());
}
inline QXmppResultSetReply genRsmReply(Vals &v)
{
    QXmppResultSetReply r;
    if (v.t.b()) {
        r.setFirst(v.text(16));
        if (v.t.b())
            r.setIndex(int(v.t.range(0, 2147483647)));   // index is an attribute of <first/>
        r.setLast(v.text(16));
    }
    r.setCount(int(v.t.range(0, 2147483647)));
    return r;
}
inline void dumpRsmReply(const QXmppResultSetReply &r, D &d)
{
    d("rsmr.isNull", r.isNull());
    d("rsmr.first", r.first());
    d("rsmr.last", r.last());
    d("rsmr.count", r.count());
    d("rsmr.index", r.index());
}

// ------------------------------------------------------------------------------------------------ small payload IQs

inline QXmppBindIq genBind(Vals &v)
{
    QXmppBindIq b;
    genIqBase(v, b, { QXmppIq::Set, QXmppIq::Result });
    if (v.t.b())
        b.setJid(v.jid());
    if (v.t.b())
        b.setResource(v.text(20));
    return b;
}
inline void dumpBind(const QXmppBindIq &b, D &d)
{
    dumpIqBase(b, d);
    d("jid", b.jid());
    d("resource", b.resource());
}
inline QXmppNonSASLAuthIq genNonSaslAuth(Vals &v)
{
    QXmppNonSASLAuthIq a;
    genIqBase(v, a);
    if (v.t.b())
        a.setUsername(v.text(20));
    if (v.t.b())
        a.setDigest(v.attr(16), v.text(16));   // SHA-1 of stream id + password, written as hex
    if (v.t.b())
        a.setPassword(v.text(20));
    if (v.t.b())
        a.setResource(v.text(20));
    return a;
}
inline void dumpNonSaslAuth(const QXmppNonSASLAuthIq &a, D &d)
{
    dumpIqBase(a, d);
    d("username", a.username());
    d("digest", a.digest());
    d("password", a.password());
    d("resource", a.resource());
}
inline QXmppVersionIq genVersion(Vals &v)
{
    QXmppVersionIq q;
    genIqBase(v, q, { QXmppIq::Get, QXmppIq::Result });
    if (v.t.b())
        q.setName(v.text(20));
    if (v.t.b())
        q.setOs(v.text(20));
    if (v.t.b())
        q.setVersion(v.text(12));
    return q;
}
inline void dumpVersion(const QXmppVersionIq &q, D &d)
{
    dumpIqBase(q, d);
    d("name", q.name());
    d("os", q.os());
    d("version", q.version());
}
// <tzo/> and <utc/> are written together and only with a valid utc (toXml).  tzo is "+hh:mm"/"-hh:mm"/"Z": whole minutes,
// below 24 h.
// (was a FINDING by reading: m_tzo had no initialiser; repaired in /repo by c2ba400, so the request form leaves tzo untouched)
inline QXmppEntityTimeIq genEntityTime(Vals &v)
{
    QXmppEntityTimeIq q;
    genIqBase(v, q, { QXmppIq::Get, QXmppIq::Result });
    if (v.t.b()) {
        q.setUtc(gen::dateTime(v.t));
        q.setTzo(int(v.t.range(-1439, 1439)) * 60);
    }
    return q;
}
inline void dumpEntityTime(const QXmppEntityTimeIq &q, D &d)
{
    dumpIqBase(q, d);
    d("tzo", q.tzo());
    d("utc", q.utc());
}

// ------------------------------------------------------------------------------------------------ bits of binary

inline QXmppBitsOfBinaryContentId genCid(Vals &v)
{
    QXmppBitsOfBinaryContentId cid;
    auto algo = v.t.pick<QCryptographicHash::Algorithm>({ QCryptographicHash::Sha1, QCryptographicHash::Md4, QCryptographicHash::Md5, QCryptographicHash::Sha224,
                                                          QCryptographicHash::Sha256, QCryptographicHash::Sha384, QCryptographicHash::Sha512, QCryptographicHash::Sha3_224,
                                                          QCryptographicHash::Sha3_256, QCryptographicHash::Sha3_384, QCryptographicHash::Sha3_512 });
    cid.setAlgorithm(algo);
    cid.setHash(v.t.bytes(uint32_t(QCryptographicHash::hashLength(algo))));   // a content id is valid only with a hash of the algorithm's length
    return cid;
}
// the cid is mandatory (XEP-0231); maxAge -1 is "unset"
inline void fillBob(Vals &v, QXmppBitsOfBinaryData &b, bool withData)
{
    b.setCid(genCid(v));
    if (v.t.b())
        b.setMaxAge(int(v.t.range(0, 2147483647)));
    if (v.t.b())
        b.setContentType(genMime(v));
    if (withData)
        b.setData(v.bytes(60));
}
inline QXmppBitsOfBinaryData genBob(Vals &v)
{
    if (v.t.b())
        return QXmppBitsOfBinaryData::fromByteArray(v.bytes(60));   // sha1 cid of the data, nothing else
    QXmppBitsOfBinaryData b;
    fillBob(v, b, v.t.b());
    return b;
}
inline void dumpBob(const QXmppBitsOfBinaryData &b, D &d)
{
    d("bob.cid.algorithm", int(b.cid().algorithm()));
    d("bob.cid.hash", b.cid().hash());
    d("bob.cid", b.cid().toContentId());
    d("bob.maxAge", b.maxAge());
    d("bob.contentType", b.contentType().name());
    d("bob.data", b.data());
}
// QXmppBitsOfBinaryData names its codec pair parseElementFromChild/toXmlElementFromChild
struct BobData {
    QXmppBitsOfBinaryData x;
    void parse(const QDomElement &el) { x.parseElementFromChild(el); }
    void toXml(QXmlStreamWriter *w) const { x.toXmlElementFromChild(w); }
};

// ------------------------------------------------------------------------------------------------ register

// username / password / email have three states (toXml): null = absent, empty = empty element ("this field is wanted"),
// text.  isNull() is dumped next to the value.
inline QString genTriState(Vals &v)
{
    switch (v.t.u(3)) {
    case 1:
        return QStringLiteral("");
    case 2:
        return v.text(20);
    default:
        return QString();
    }
}
inline QXmppRegisterIq genRegister(Vals &v)
{
    QXmppRegisterIq r;
    genIqBase(v, r);
    if (v.t.b())
        r.setInstructions(v.text());
    r.setUsername(genTriState(v));
    r.setPassword(genTriState(v));
    r.setEmail(genTriState(v));
    r.setIsRegistered(v.t.b());
    r.setIsRemove(v.t.b());
    if (v.t.b())
        r.setForm(genForm(v));
    {
        QXmppBitsOfBinaryDataList l;
        int n = int(v.t.u(3));
        for (int i = 0; i < n; i++)
            l << genBob(v);
        r.setBitsOfBinaryData(l);
    }
    if (v.t.b())
        r.setOutOfBandUrl(v.text(30));
    return r;
}
inline void dumpRegister(const QXmppRegisterIq &r, D &d)
{
    dumpIqBase(r, d);
    d("instructions", r.instructions());
    d("username", r.username());
    d("username.isNull", r.username().isNull());
    d("password", r.password());
    d("password.isNull", r.password().isNull());
    d("email", r.email());
    d("email.isNull", r.email().isNull());
    d("registered", r.isRegistered());
    d("remove", r.isRemove());
    dumpForm(r.form(), d);
    const auto bobs = r.bitsOfBinaryData();
    d("bobs", bobs.size());
    for (const auto &b : bobs)
        dumpBob(b, d);
    d("oob", r.outOfBandUrl());
}

// ------------------------------------------------------------------------------------------------ XEP-0136 archive

// A chat carries `with` and `start` (both required by XEP-0136); the messages are stored as second offsets from the
// previous one, so message dates are start + whole seconds, non-decreasing.  version 0 is "unset".
inline QXmppArchiveChat genArchiveChat(Vals &v, bool withMessages = true)
{
    QXmppArchiveChat c;
    c.setWith(v.jid());
    QDateTime start = gen::dateTime(v.t);
    c.setStart(start);
    if (v.t.b())
        c.setSubject(v.attr());
    if (v.t.b())
        c.setThread(v.attr());
    if (v.t.b())
        c.setVersion(int(v.t.range(1, 2147483647)));
    if (withMessages) {
        QList<QXmppArchiveMessage> ms;
        int n = int(v.t.u(4));
        QDateTime at = start;
        for (int i = 0; i < n; i++) {
            QXmppArchiveMessage m;
            m.setBody(v.text());
            at = at.addSecs(v.t.range(0, 100000));
            m.setDate(at);
            m.setReceived(v.t.b());
            ms << m;
        }
        c.setMessages(ms);
    }
    return c;
}
inline void dumpArchiveChat(const QXmppArchiveChat &c, D &d)
{
    d("chat.with", c.with());
    d("chat.start", c.start());
    d("chat.subject", c.subject());
    d("chat.thread", c.thread());
    d("chat.version", c.version());
    const auto ms = c.messages();
    d("chat.messages", ms.size());
    for (const auto &m : ms) {
        d("msg.body", m.body());
        d("msg.date", m.date());
        d("msg.received", m.isReceived());
    }
}

// ------------------------------------------------------------------------------------------------ XEP-0009 Jabber-RPC

// XML-RPC has one integer type (<i4/>), one date type (seconds resolution) and no distinction between a string list
// and an array: the dump names values by their XML-RPC kind, not by the QVariant type.  Struct member names start with
// their index: a QVariantMap is ordered by key and collapses equal keys, so without it the member order (and count)
// would depend on the drawn strings and differ from the benign twin (table false alarm, corrected).
// FINDING (QXmppRpcIq.cpp): marshall() writes Int/UInt/LongLong/ULongLong all as <i4/> (lines 33-38) but demarshall() reads
// <i4/> with toInt() (157-164): a value outside the 32-bit signed range is an error, the argument and every following one
// are dropped.  QDate and QTime are written as <dateTime.iso8601/> with a date-only / time-only text (57-59, 71-73) and read
// back with QDateTime::fromString (174-175): the date becomes a QDateTime (local midnight), the time an invalid QDateTime.
// The kinds 1-3, 9 and 10 below keep these visible; without them the three RPC classes are clean.
inline QVariant genRpcValue(Vals &v, int depth = 0)
{
    size_t kind = v.t.weighted({ 4, 1, 1, 1, 3, 2, 3, 2, 2, 1, 1, 2, 2, 2, 1 });
    if (depth >= 2 && kind >= 12)
        kind = 11;
    switch (kind) {
    case 0:
        return QVariant(num<int>(v));
    case 1:
        return QVariant(num<quint32>(v));
    case 2:
        return QVariant(qlonglong(num<qint64>(v)));
    case 3:
        return QVariant(qulonglong(num<quint64>(v)));
    case 4: {
        double x;
        if (v.t.b()) {
            uint64_t bits = v.t.u64();
            std::memcpy(&x, &bits, sizeof x);
            if (!std::isfinite(x))
                x = 0.5;
        } else {
            x = double(v.t.range(-1000000, 1000000)) / 64.0;
        }
        return QVariant(x);
    }
    case 5:
        return QVariant(v.t.b());
    case 6:
        return QVariant(v.text());
    case 7:
        return QVariant(v.bytes(40));
    case 8:
        return QVariant(gen::dateTime(v.t, false));   // dateTime.iso8601 has no fraction
    case 9:
        return QVariant(QDate(1970, 1, 1).addDays(v.t.range(0, 80000)));
    case 10:
        return QVariant(QTime(0, 0, 0).addSecs(int(v.t.range(0, 86399))));
    case 11:
        return QVariant();
    case 12: {
        QVariantList l;
        int n = int(v.t.u(4));
        for (int i = 0; i < n; i++)
            l << genRpcValue(v, depth + 1);
        return QVariant(l);
    }
    case 13: {
        QVariantMap m;
        int n = int(v.t.u(4));
        for (int i = 0; i < n; i++) {
            QString k = QString::number(i) + v.text(12);
            m.insert(k, genRpcValue(v, depth + 1));
        }
        return QVariant(m);
    }
    default: {
        QStringList l;
        int n = int(v.t.u(4));
        for (int i = 0; i < n; i++)
            l << v.text(12);
        return QVariant(l);
    }
    }
}
inline void dumpRpcValue(const QVariant &x, D &d)
{
    switch (int(x.userType())) {
    case QMetaType::Int:
    case QMetaType::UInt:
    case QMetaType::LongLong:
    case QMetaType::ULongLong: {
        bool fits = x.userType() == QMetaType::ULongLong ? x.toULongLong() <= 2147483647ull : (x.toLongLong() >= -2147483648ll && x.toLongLong() <= 2147483647ll);
        d(fits ? "rpc.int" : "rpc.int-outside-i4", x.toString());
        break;
    }
    case QMetaType::Double:
        d("rpc.double", x.toDouble());
        break;
    case QMetaType::Bool:
        d("rpc.boolean", x.toBool());
        break;
    case QMetaType::QString:
        d("rpc.string", x.toString());
        break;
    case QMetaType::QByteArray:
        d("rpc.base64", x.toByteArray());
        break;
    case QMetaType::QDateTime:
        d("rpc.dateTime", x.toDateTime());
        break;
    case QMetaType::QDate:
        d("rpc.date", x.toDate());
        break;
    case QMetaType::QTime:
        d("rpc.time", x.toTime().toString(Qt::ISODateWithMs));
        break;
    case QMetaType::QStringList:
    case QMetaType::QVariantList: {
        const auto l = x.toList();
        for (const auto &e : l)
            dumpRpcValue(e, d);
        d("rpc.array-size", l.size());
        break;
    }
    case QMetaType::QVariantMap: {
        const auto m = x.toMap();
        for (auto it = m.begin(); it != m.end(); ++it) {
            d("rpc.member", it.key());
            dumpRpcValue(it.value(), d);
        }
        d("rpc.struct-size", m.size());
        break;
    }
    default:
        if (!x.isValid())
            d("rpc.nil", "");
        else
            d("rpc.other", x.typeName());
        break;
    }
}
inline QVariantList genRpcValues(Vals &v)
{
    QVariantList l;
    int n = int(v.t.u(4));
    for (int i = 0; i < n; i++)
        l << genRpcValue(v);
    return l;
}
// which of the recorded lossy kinds occur anywhere in a value (bit 1: integer outside i4, 2: QDate, 4: QTime)
inline unsigned rpcLossyKinds(const QVariant &x)
{
    unsigned k = 0;
    switch (int(x.userType())) {
    case QMetaType::UInt:
    case QMetaType::ULongLong:
        k = x.toULongLong() > 2147483647ull ? 1 : 0;
        break;
    case QMetaType::Int:
    case QMetaType::LongLong:
        k = (x.toLongLong() < -2147483648ll || x.toLongLong() > 2147483647ll) ? 1 : 0;
        break;
    case QMetaType::QDate:
        k = 2;
        break;
    case QMetaType::QTime:
        k = 4;
        break;
    case QMetaType::QStringList:
    case QMetaType::QVariantList:
        for (const auto &e : x.toList())
            k |= rpcLossyKinds(e);
        break;
    case QMetaType::QVariantMap: {
        const auto m = x.toMap();
        for (auto it = m.begin(); it != m.end(); ++it)
            k |= rpcLossyKinds(it.value());
        break;
    }
    default:
        break;
    }
    return k;
}
inline void dumpRpcValues(const char *k, const QVariantList &l, D &d)
{
    // An unreadable value makes the parser give up on the enclosing argument and on everything after it, so the first
    // differing getter would be whatever happens to stand first.  The recorded finding therefore gets a line of its own in
    // front (a re-parsed list can never contain these kinds); every other loss in these classes keeps its own signature.
    unsigned lossy = 0;
    for (const auto &x : l)
        lossy |= rpcLossyKinds(x);
    if (lossy & 1)
        d("rpc.contains-int-outside-i4", true);
    if (lossy & 2)
        d("rpc.contains-date", true);
    if (lossy & 4)
        d("rpc.contains-time", true);
    for (const auto &x : l)
        dumpRpcValue(x, d);
    d(k, l.size());
}
inline void fillRpcInvoke(Vals &v, QXmppRpcInvokeIq &q)
{
    q.setMethod(v.text(20));
    q.setArguments(genRpcValues(v));
}

// ------------------------------------------------------------------------------------------------ bookmarks, push, external services, upload

inline QXmppBookmarkSet genBookmarks(Vals &v)
{
    QXmppBookmarkSet s;
    QList<QXmppBookmarkConference> cs;
    int n = int(v.t.u(4));
    for (int i = 0; i < n; i++) {
        QXmppBookmarkConference c;
        c.setAutoJoin(v.t.b());
        c.setJid(v.jid());
        if (v.t.b())
            c.setName(v.attr());
        if (v.t.b())
            c.setNickName(v.text(16));
        cs << c;
    }
    s.setConferences(cs);
    QList<QXmppBookmarkUrl> us;
    int k = int(v.t.u(4));
    for (int i = 0; i < k; i++) {
        QXmppBookmarkUrl u;
        if (v.t.b())
            u.setName(v.attr());
        u.setUrl(genUrl(v));
        us << u;
    }
    s.setUrls(us);
    return s;
}
inline void dumpBookmarks(const QXmppBookmarkSet &s, D &d)
{
    const auto cs = s.conferences();
    d("conferences", cs.size());
    for (const auto &c : cs) {
        d("conference.autoJoin", c.autoJoin());
        d("conference.jid", c.jid());
        d("conference.name", c.name());
        d("conference.nick", c.nickName());
    }
    const auto us = s.urls();
    d("urls", us.size());
    for (const auto &u : us) {
        d("url.name", u.name());
        d("url.url", u.url());
    }
}
inline QXmppPushEnableIq genPushEnable(Vals &v)
{
    QXmppPushEnableIq p;
    genIqBase(v, p, { QXmppIq::Set });
    p.setJid(v.jid());
    if (v.t.b())
        p.setNode(v.attr());
    if (v.t.b()) {
        p.setMode(QXmppPushEnableIq::Enable);
        if (v.t.b())
            p.setDataForm(genForm(v));   // publish options: only <enable/> carries a form
    } else {
        p.setMode(QXmppPushEnableIq::Disable);
    }
    return p;
}
inline void dumpPushEnable(const QXmppPushEnableIq &p, D &d)
{
    dumpIqBase(p, d);
    d("jid", p.jid());
    d("node", p.node());
    QXmppPushEnableIq copy(p);   // mode() is not const
    d("mode", bool(copy.mode()));
    dumpForm(p.dataForm(), d);
}
// host and type are mandatory (isExternalService); the optional strings are engaged only with a non-empty value (an
// empty attribute is not written).  port is an unsignedShort in XEP-0215.
inline QXmppExternalService genExternalService(Vals &v)
{
    using S = QXmppExternalService;
    S s;
    s.setHost(v.attr(20));
    s.setType(v.attr(8));
    if (v.t.b())
        s.setAction(v.t.pick<S::Action>({ S::Action::Add, S::Action::Delete, S::Action::Modify }));
    if (v.t.b())
        s.setExpires(gen::dateTime(v.t));
    if (v.t.b())
        s.setName(v.attr());
    if (v.t.b())
        s.setPassword(v.attr());
    if (v.t.b())
        s.setPort(int(num<quint16>(v)));
    if (v.t.b())
        s.setRestricted(v.t.b());
    if (v.t.b())
        s.setTransport(v.t.pick<S::Transport>({ S::Transport::Tcp, S::Transport::Udp }));
    if (v.t.b())
        s.setUsername(v.attr());
    return s;
}
inline void dumpExternalService(const QXmppExternalService &s, D &d)
{
    d("service.host", s.host());
    d("service.type", s.type());
    d("service.action", s.action());
    d("service.expires", s.expires());
    d("service.name", s.name());
    d("service.password", s.password());
    d("service.port", s.port());
    d("service.restricted", s.restricted());
    d("service.transport", s.transport());
    d("service.username", s.username());
}
inline QXmppHttpUploadRequestIq genUploadRequest(Vals &v)
{
    QXmppHttpUploadRequestIq r;
    genIqBase(v, r, { QXmppIq::Get });
    r.setFileName(v.attr());   // filename and size are required
    r.setSize(num<qint64>(v));
    if (v.t.b())
        r.setContentType(genMime(v));
    return r;
}
inline void dumpUploadRequest(const QXmppHttpUploadRequestIq &r, D &d)
{
    dumpIqBase(r, d);
    d("fileName", r.fileName());
    d("size", r.size());
    d("contentType", r.contentType().name());
}
inline QXmppHttpUploadSlotIq genUploadSlot(Vals &v)
{
    QXmppHttpUploadSlotIq s;
    genIqBase(v, s, { QXmppIq::Result });
    s.setPutUrl(genUrl(v));
    s.setGetUrl(genUrl(v));
    // setPutHeaders() documents that only these three header names are kept
    QMap<QString, QString> headers;
    if (v.t.b())
        headers.insert(QStringLiteral("Authorization"), v.text());
    if (v.t.b())
        headers.insert(QStringLiteral("Cookie"), v.text());
    if (v.t.b())
        headers.insert(QStringLiteral("Expires"), v.text());
    s.setPutHeaders(headers);
    return s;
}
inline void dumpUploadSlot(const QXmppHttpUploadSlotIq &s, D &d)
{
    dumpIqBase(s, d);
    d("putUrl", s.putUrl());
    d("getUrl", s.getUrl());
    const auto h = s.putHeaders();
    d("putHeaders", h.size());
    for (auto it = h.begin(); it != h.end(); ++it) {
        d("header.name", it.key());
        d("header.value", it.value());
    }
}

// ------------------------------------------------------------------------------------------------ IBB, SOCKS5 bytestreams, stream initiation

inline QXmppByteStreamIq genByteStream(Vals &v)
{
    QXmppByteStreamIq q;
    genIqBase(v, q);
    q.setMode(v.t.pick<QXmppByteStreamIq::Mode>({ QXmppByteStreamIq::None, QXmppByteStreamIq::Tcp, QXmppByteStreamIq::Udp }));
    if (v.t.b())
        q.setSid(v.attr());
    if (v.t.b())
        q.setActivate(v.jid());
    QList<QXmppByteStreamIq::StreamHost> hosts;
    int n = int(v.t.u(4));
    for (int i = 0; i < n; i++) {
        QXmppByteStreamIq::StreamHost h;   // (m_port had no initialiser; repaired in /repo by c2ba400: the port may stay unset)
        h.setJid(v.jid());
        if (v.t.b())
            h.setHost(v.attr(20));
        if (v.t.b())
            h.setPort(num<quint16>(v));
        if (v.t.b())
            h.setZeroconf(v.attr(16));
        hosts << h;
    }
    q.setStreamHosts(hosts);
    if (v.t.b())
        q.setStreamHostUsed(v.jid());
    return q;
}
inline void dumpByteStream(const QXmppByteStreamIq &q, D &d)
{
    dumpIqBase(q, d);
    d("mode", q.mode());
    d("sid", q.sid());
    d("activate", q.activate());
    const auto hosts = q.streamHosts();
    d("streamHosts", hosts.size());
    for (const auto &h : hosts) {
        d("host.jid", h.jid());
        d("host.host", h.host());
        d("host.port", h.port());
        d("host.zeroconf", h.zeroconf());
    }
    d("streamHostUsed", q.streamHostUsed());
}
// file size: written only when > 0 (0 = unknown).  The <file/> element belongs to the file-transfer profile.
// (was a FINDING by reading: m_profile had no initialiser; repaired in /repo by c2ba400, so the profile may stay unset)
inline QXmppTransferFileInfo genFileInfo(Vals &v)
{
    QXmppTransferFileInfo f;
    if (v.t.b())
        f.setDate(gen::dateTime(v.t));
    if (v.t.b())
        f.setHash(v.t.bytes(16));   // MD5
    if (v.t.b())
        f.setName(v.attr());
    if (v.t.b())
        f.setDescription(v.text());
    if (v.t.b())
        f.setSize(v.t.range(1, 9223372036854775807ll));
    return f;
}
inline void dumpFileInfo(const QXmppTransferFileInfo &f, D &d)
{
    d("file.isNull", f.isNull());
    d("file.date", f.date());
    d("file.hash", f.hash());
    d("file.name", f.name());
    d("file.description", f.description());
    d("file.size", f.size());
}
inline QXmppStreamInitiationIq genStreamInitiation(Vals &v)
{
    QXmppStreamInitiationIq q;
    genIqBase(v, q, { QXmppIq::Set, QXmppIq::Result });
    if (v.t.b())
        q.setSiId(v.attr());
    if (v.t.b())
        q.setMimeType(v.attr(16));
    if (v.t.b()) {
        q.setProfile(QXmppStreamInitiationIq::FileTransfer);
        if (v.t.b())
            q.setFileInfo(genFileInfo(v));
    } else if (v.t.b()) {
        q.setProfile(QXmppStreamInitiationIq::None);
    }
    if (v.t.b())
        q.setFeatureForm(genForm(v));
    return q;
}
inline void dumpStreamInitiation(const QXmppStreamInitiationIq &q, D &d)
{
    dumpIqBase(q, d);
    d("siId", q.siId());
    d("mimeType", q.mimeType());
    d("profile", q.profile());
    dumpFileInfo(q.fileInfo(), d);
    dumpForm(q.featureForm(), d);
}

}   // namespace core

inline void registerCore()
{
    using namespace core;

    add<QXmppStanza::Error>("QXmppStanza::Error", genError, dumpError);
    add<QXmppExtendedAddress>("QXmppExtendedAddress", genAddress, dumpAddress);
    add<QXmppPresence>("QXmppPresence", genPresence, dumpPresence);
    add<QXmppIq>(
        "QXmppIq",
        [](Vals &v) {
            QXmppIq iq;
            genIqBase(v, iq);
            // (was a FINDING: QXmppIq::toXml did not write xml:lang; repaired in /repo by e049d39)
            if (v.t.prob(1, 4))
                iq.setLang(v.t.pick<QString>({ "en", "de", "pt-BR" }));
            // XEP-0033 addresses are defined for <message/> and <presence/> only: not set on an IQ
            QXmppElementList exts;
            int n = int(v.t.u(3));
            for (int i = 0; i < n; i++)
                exts << genElement(v);
            iq.setExtensions(exts);
            return iq;
        },
        dumpIqBase);
    add<QXmppMucItem>("QXmppMucItem", genMucItem, dumpMucItem);
    add<QXmppRosterIq::Item>("QXmppRosterIq::Item", genRosterItem, dumpRosterItem);
    add<QXmppRosterIq>(
        "QXmppRosterIq",
        [](Vals &v) {
            QXmppRosterIq r;
            genIqBase(v, r);
            if (v.t.b())
                r.setVersion(v.attr());
            r.setMixAnnotate(v.t.b());
            int n = int(v.t.u(4));
            for (int i = 0; i < n; i++)
                r.addItem(genRosterItem(v));
            return r;
        },
        [](const QXmppRosterIq &r, D &d) {
            dumpIqBase(r, d);
            d("version", r.version());
            d("mixAnnotate", r.mixAnnotate());
            const auto items = r.items();
            d("items", items.size());
            for (const auto &i : items)
                dumpRosterItem(i, d);
        });
    add<QXmppVCardAddress>("QXmppVCardAddress", genVCardAddress, dumpVCardAddress);
    add<QXmppVCardEmail>("QXmppVCardEmail", genVCardEmail, dumpVCardEmail);
    add<QXmppVCardPhone>("QXmppVCardPhone", genVCardPhone, dumpVCardPhone);
    add<QXmppVCardIq>("QXmppVCardIq", genVCard, dumpVCard);
    add<QXmppDiscoveryIq>("QXmppDiscoveryIq", genDisco, dumpDisco);
    // ---- small payload IQs
    add<QXmppBindIq>("QXmppBindIq", genBind, dumpBind);
    add<QXmppSessionIq>(
        "QXmppSessionIq",
        [](Vals &v) {
            QXmppSessionIq s;
            genIqBase(v, s, { QXmppIq::Set, QXmppIq::Result });
            return s;
        },
        dumpIqBaseNoExtensions);
    add<QXmppNonSASLAuthIq>("QXmppNonSASLAuthIq", genNonSaslAuth, dumpNonSaslAuth);
    add<QXmppPingIq>(
        "QXmppPingIq",
        [](Vals &v) {
            QXmppPingIq p;
            genIqBase(v, p, { QXmppIq::Get });
            return p;
        },
        dumpIqBaseNoExtensions);
    add<QXmppVersionIq>("QXmppVersionIq", genVersion, dumpVersion);
    add<QXmppEntityTimeIq>("QXmppEntityTimeIq", genEntityTime, dumpEntityTime);
    add<QXmppRegisterIq>("QXmppRegisterIq", genRegister, dumpRegister);
    // ---- MUC
    add<QXmppMucAdminIq>(
        "QXmppMucAdminIq",
        [](Vals &v) {
            QXmppMucAdminIq q;
            genIqBase(v, q);
            QList<QXmppMucItem> items;
            int n = int(v.t.u(4));
            for (int i = 0; i < n; i++)
                items << genMucItem(v);
            q.setItems(items);
            return q;
        },
        [](const QXmppMucAdminIq &q, D &d) {
            dumpIqBase(q, d);
            const auto items = q.items();
            d("items", items.size());
            for (const auto &i : items)
                dumpMucItem(i, d);
        });
    add<QXmppMucOwnerIq>(
        "QXmppMucOwnerIq",
        [](Vals &v) {
            QXmppMucOwnerIq q;
            genIqBase(v, q);
            if (v.t.b())
                q.setForm(genForm(v));
            return q;
        },
        [](const QXmppMucOwnerIq &q, D &d) {
            dumpIqBase(q, d);
            dumpForm(q.form(), d);
        });
    // ---- bits of binary
    add<BobData>("QXmppBitsOfBinaryData", [](Vals &v) { return BobData { genBob(v) }; }, [](const BobData &b, D &d) { dumpBob(b.x, d); });
    add<QXmppBitsOfBinaryIq>(
        "QXmppBitsOfBinaryIq",
        [](Vals &v) {
            QXmppBitsOfBinaryIq q;
            genIqBase(v, q, { QXmppIq::Get, QXmppIq::Result });
            fillBob(v, q, v.t.b());   // a request carries the cid only
            return q;
        },
        [](const QXmppBitsOfBinaryIq &q, D &d) {
            dumpIqBase(q, d);
            dumpBob(q, d);
        });
    // ---- XEP-0136
    add<QXmppArchiveChat>("QXmppArchiveChat", [](Vals &v) { return genArchiveChat(v); }, dumpArchiveChat);
    add<QXmppArchiveChatIq>(
        "QXmppArchiveChatIq",
        [](Vals &v) {
            QXmppArchiveChatIq q;
            genIqBase(v, q, { QXmppIq::Result });
            q.setChat(genArchiveChat(v));
            if (v.t.b())
                q.setResultSetReply(genRsmReply(v));
            return q;
        },
        [](const QXmppArchiveChatIq &q, D &d) {
            dumpIqBase(q, d);
            dumpArchiveChat(q.chat(), d);
            dumpRsmReply(q.resultSetReply(), d);
        });
    add<QXmppArchiveListIq>(
        "QXmppArchiveListIq",
        [](Vals &v) {
            QXmppArchiveListIq q;
            genIqBase(v, q, { QXmppIq::Get, QXmppIq::Result });
            if (v.t.b())
                q.setWith(v.jid());
            if (v.t.b())
                q.setStart(gen::dateTime(v.t));
            if (v.t.b())
                q.setEnd(gen::dateTime(v.t));
            // a request pages with an RSM query, a result answers with an RSM reply and the chats (toXml: one or the other)
            // (was a FINDING: the one <set/> is parsed as query and as reply, and a missing <count/> became 0, so a request
            // reported a non-null resultSetReply(); QXmppResultSetReply::parse is repaired in /repo by 684c0d3)
            if (v.t.b()) {
                if (v.t.b())
                    q.setResultSetQuery(genRsmQuery(v));
            } else {
                if (v.t.b())
                    q.setResultSetReply(genRsmReply(v));
                QList<QXmppArchiveChat> chats;
                int n = int(v.t.u(4));
                for (int i = 0; i < n; i++)
                    chats << genArchiveChat(v, false);   // a list names the collections, without their messages
                q.setChats(chats);
            }
            return q;
        },
        [](const QXmppArchiveListIq &q, D &d) {
            dumpIqBase(q, d);
            d("with", q.with());
            d("start", q.start());
            d("end", q.end());
            dumpRsmQuery(q.resultSetQuery(), d);
            dumpRsmReply(q.resultSetReply(), d);
            const auto chats = q.chats();
            d("chats", chats.size());
            for (const auto &c : chats)
                dumpArchiveChat(c, d);
        });
    add<QXmppArchiveRetrieveIq>(
        "QXmppArchiveRetrieveIq",
        [](Vals &v) {
            QXmppArchiveRetrieveIq q;
            genIqBase(v, q, { QXmppIq::Get });
            q.setWith(v.jid());   // with and start are required
            q.setStart(gen::dateTime(v.t));
            if (v.t.b())
                q.setResultSetQuery(genRsmQuery(v));
            return q;
        },
        [](const QXmppArchiveRetrieveIq &q, D &d) {
            dumpIqBase(q, d);
            d("with", q.with());
            d("start", q.start());
            dumpRsmQuery(q.resultSetQuery(), d);
        });
    add<QXmppArchiveRemoveIq>(
        "QXmppArchiveRemoveIq",
        [](Vals &v) {
            QXmppArchiveRemoveIq q;
            genIqBase(v, q, { QXmppIq::Set });
            if (v.t.b())
                q.setWith(v.jid());
            if (v.t.b())
                q.setStart(gen::dateTime(v.t));
            if (v.t.b())
                q.setEnd(gen::dateTime(v.t));
            return q;
        },
        [](const QXmppArchiveRemoveIq &q, D &d) {
            dumpIqBase(q, d);
            d("with", q.with());
            d("start", q.start());
            d("end", q.end());
        });
    add<QXmppArchivePrefIq>(
        "QXmppArchivePrefIq",
        [](Vals &v) {
            QXmppArchivePrefIq q;
            genIqBase(v, q);
            return q;
        },
        dumpIqBase);
    // ---- XEP-0009
    add<QXmppRpcInvokeIq>(
        "QXmppRpcInvokeIq",
        [](Vals &v) {
            QXmppRpcInvokeIq q;
            genIqBase(v, q, { QXmppIq::Set });
            fillRpcInvoke(v, q);
            return q;
        },
        [](const QXmppRpcInvokeIq &q, D &d) {
            dumpIqBase(q, d);
            d("method", q.method());
            dumpRpcValues("arguments", q.arguments(), d);
        });
    add<QXmppRpcResponseIq>(
        "QXmppRpcResponseIq",
        [](Vals &v) {
            QXmppRpcResponseIq q;
            genIqBase(v, q, { QXmppIq::Result });
            // a response is a fault (code != 0, with its string) or a list of values
            if (v.t.b()) {
                int code = num<int>(v);
                q.setFaultCode(code ? code : 1);
                if (v.t.b())
                    q.setFaultString(v.text());
            } else {
                q.setValues(genRpcValues(v));
            }
            return q;
        },
        [](const QXmppRpcResponseIq &q, D &d) {
            dumpIqBase(q, d);
            d("faultCode", q.faultCode());
            d("faultString", q.faultString());
            dumpRpcValues("values", q.values(), d);
        });
    add<QXmppRpcErrorIq>(
        "QXmppRpcErrorIq",
        [](Vals &v) {
            QXmppRpcErrorIq q;
            // always an error: id/to/from, the error and the offending call
            q.setId(v.t.b() ? v.attr() : QString());
            if (v.t.b())
                q.setTo(v.jid());
            if (v.t.b())
                q.setFrom(v.jid());
            q.setType(QXmppIq::Error);
            q.setError(genError(v));
            QXmppRpcInvokeIq call;
            call.setId(QString());   // the embedded call's own stanza fields are not serialised
            fillRpcInvoke(v, call);
            q.setQuery(call);
            return q;
        },
        [](const QXmppRpcErrorIq &q, D &d) {
            dumpIqBase(q, d);
            d("query.method", q.query().method());
            dumpRpcValues("query.arguments", q.query().arguments(), d);
        });
    // ---- bookmarks, push, external services, upload
    add<QXmppBookmarkSet>("QXmppBookmarkSet", genBookmarks, dumpBookmarks);
    add<QXmppPushEnableIq>("QXmppPushEnableIq", genPushEnable, dumpPushEnable);
    add<QXmppExternalService>("QXmppExternalService", genExternalService, dumpExternalService);
    add<QXmppExternalServiceDiscoveryIq>(
        "QXmppExternalServiceDiscoveryIq",
        [](Vals &v) {
            QXmppExternalServiceDiscoveryIq q;
            genIqBase(v, q, { QXmppIq::Get, QXmppIq::Result });
            int n = int(v.t.u(4));
            for (int i = 0; i < n; i++)
                q.addExternalService(genExternalService(v));
            return q;
        },
        [](const QXmppExternalServiceDiscoveryIq &q, D &d) {
            dumpIqBase(q, d);
            QXmppExternalServiceDiscoveryIq copy(q);   // externalServices() is not const
            const auto ss = copy.externalServices();
            d("services", ss.size());
            for (const auto &s : ss)
                dumpExternalService(s, d);
        });
    add<QXmppHttpUploadRequestIq>("QXmppHttpUploadRequestIq", genUploadRequest, dumpUploadRequest);
    add<QXmppHttpUploadSlotIq>("QXmppHttpUploadSlotIq", genUploadSlot, dumpUploadSlot);
    // ---- IBB, bytestreams, stream initiation
    add<QXmppIbbOpenIq>(
        "QXmppIbbOpenIq",
        [](Vals &v) {
            QXmppIbbOpenIq q;
            genIqBase(v, q, { QXmppIq::Set });
            q.setSid(v.attr());
            if (v.t.b())
                q.setBlockSize(num<long>(v));
            return q;
        },
        [](const QXmppIbbOpenIq &q, D &d) {
            dumpIqBase(q, d);
            d("sid", q.sid());
            d("blockSize", q.blockSize());
        });
    add<QXmppIbbCloseIq>(
        "QXmppIbbCloseIq",
        [](Vals &v) {
            QXmppIbbCloseIq q;
            genIqBase(v, q, { QXmppIq::Set });
            q.setSid(v.attr());
            return q;
        },
        [](const QXmppIbbCloseIq &q, D &d) {
            dumpIqBase(q, d);
            d("sid", q.sid());
        });
    add<QXmppIbbDataIq>(
        "QXmppIbbDataIq",
        [](Vals &v) {
            QXmppIbbDataIq q;
            genIqBase(v, q, { QXmppIq::Set });
            q.setSid(v.attr());
            q.setSequence(num<quint16>(v));
            q.setPayload(optBytes(v, 80));
            return q;
        },
        [](const QXmppIbbDataIq &q, D &d) {
            dumpIqBase(q, d);
            d("sid", q.sid());
            d("sequence", q.sequence());
            d("payload", q.payload());
        });
    add<QXmppByteStreamIq>("QXmppByteStreamIq", genByteStream, dumpByteStream);
    add<QXmppTransferFileInfo>("QXmppTransferFileInfo", genFileInfo, dumpFileInfo);
    add<QXmppStreamInitiationIq>("QXmppStreamInitiationIq", genStreamInitiation, dumpStreamInitiation);
}


}   // namespace og
