// Common harness core for every property binary in /verif/harness.
//
// One "sub-check" = one executable property:  void body(Tape &t, Ctx &c).
//   * All random choices are drawn from the Tape.  The tape is produced by one of three engines:
//       rapid : rapidcheck generates std::vector<uint32_t> (integrated shrinking on that vector),
//       enum  : odometer enumeration over the choice points the body asks for (exhaustive),
//       fuzz  : libFuzzer supplies raw bytes (coverage-guided), decoded FuzzedDataProvider-style.
//     The body is identical under all engines, so a failing case found by any of them is replayed
//     by feeding the recorded choices back ("--replay"), bypassing both libraries.
//   * The oracle lives in the body: c.require(cond, signature, message).  A failed requirement
//     whose signature is listed in known_findings is counted ("excluded_known") and the case ends
//     as a pass, so the search continues behind a recorded defect; any other signature is a
//     violation: it is shrunk (rapid), written as a replay file and reported.
//   * Evidence counters: evaluations, labels, distinct non-trivial fingerprints, samples.
#pragma once

#include <rapidcheck.h>

#include <algorithm>
#include <chrono>
#include <cstdint>
#include <cstdio>
#include <cstdlib>
#include <cstring>
#include <fstream>
#include <functional>
#include <map>
#include <set>
#include <sstream>
#include <string>
#include <unordered_set>
#include <vector>

#include <csignal>
#include <fcntl.h>
#include <unistd.h>

#include <QByteArray>
#include <QCoreApplication>
#include <QString>

extern "C" int LLVMFuzzerRunDriver(int *argc, char ***argv, int (*cb)(const uint8_t *, size_t));

namespace vh {

// ---------------------------------------------------------------- hashing
inline uint64_t fnv(const void *p, size_t n, uint64_t h = 1469598103934665603ull)
{
    auto *b = static_cast<const unsigned char *>(p);
    for (size_t i = 0; i < n; i++) {
        h ^= b[i];
        h *= 1099511628211ull;
    }
    return h;
}
inline uint64_t fnv(const std::string &s, uint64_t h = 1469598103934665603ull) { return fnv(s.data(), s.size(), h); }
inline uint64_t fnv(const QByteArray &s, uint64_t h = 1469598103934665603ull) { return fnv(s.constData(), size_t(s.size()), h); }
inline uint64_t fnvInt(uint64_t v, uint64_t h = 1469598103934665603ull) { return fnv(&v, sizeof v, h); }

inline std::string s(const QString &q) { return q.toUtf8().toStdString(); }
inline std::string s(const QByteArray &q) { return q.toStdString(); }

struct SkipPath { };   // enumeration: this subtree belongs to another worker

// ---------------------------------------------------------------- tape
class Tape
{
public:
    enum Mode { U32, Bytes, Enum };

    Tape() = default;
    explicit Tape(std::vector<uint32_t> v) : m_mode(U32), m_v(std::move(v)) { }
    Tape(const uint8_t *d, size_t n) : m_mode(Bytes), m_d(d), m_n(n) { }

    // enumeration support -------------------------------------------------
    static Tape enumerator()
    {
        Tape t;
        t.m_mode = Enum;
        return t;
    }
    // Advance to the next point of the choice tree; false when the space is exhausted.
    bool enumNext()
    {
        // m_trace/m_radix describe the path just taken
        while (!m_trace.empty()) {
            if (m_trace.back() + 1 < m_radix.back()) {
                m_trace.back()++;
                m_v = m_trace;
                m_trace.clear();
                m_radix.clear();
                m_pos = 0;
                return true;
            }
            m_trace.pop_back();
            m_radix.pop_back();
        }
        return false;
    }
    void enumRestart()
    {
        m_trace.clear();
        m_radix.clear();
        m_pos = 0;
    }

    // choices --------------------------------------------------------------
    // uniform-ish choice in [0, n); n == 0 means "any 32-bit value"
    uint32_t u(uint32_t n)
    {
        uint32_t r;
        if (n == 1) {
            r = 0;
            // a forced choice consumes nothing and is not recorded
            return r;
        }
        switch (m_mode) {
        case U32:
        case Enum:
            r = m_pos < m_v.size() ? m_v[m_pos] : 0;
            m_pos++;
            break;
        case Bytes: {
            int nb = n == 0 ? 4 : (n <= 256 ? 1 : (n <= 65536 ? 2 : 4));
            r = 0;
            for (int i = 0; i < nb; i++) {
                uint32_t byte = m_pos < m_n ? m_d[m_pos] : 0;
                m_pos++;
                r |= byte << (8 * i);
            }
            break;
        }
        }
        if (n)
            r %= n;
        m_trace.push_back(r);
        if (m_mode == Enum && m_parts > 1 && m_trace.size() == m_partDepth) {
            uint64_t h = 1469598103934665603ull;
            for (auto x : m_trace)
                h = (h ^ x) * 1099511628211ull;
            if ((h >> 17) % m_parts != m_part) {
                if (n == 0 || n > 4096)
                    abort();
                m_radix.push_back(n);
                throw SkipPath {};
            }
        }
        if (m_mode == Enum) {
            if (n == 0 || n > 4096) {
                fprintf(stderr, "vh::Tape: unbounded choice in enumeration mode\n");
                abort();
            }
            m_radix.push_back(n);
        }
        return r;
    }
    bool b() { return u(2) == 1; }
    // true with probability num/den
    bool prob(uint32_t num, uint32_t den) { return u(den) >= den - num; }   // choice 0 (the shrink target) means "no"
    // inclusive range
    int64_t range(int64_t lo, int64_t hi)
    {
        uint64_t span = uint64_t(hi - lo) + 1;
        if (span == 0 || span > 0xffffffffull) {
            uint64_t x = (uint64_t(u(0)) << 32) | u(0);
            return span == 0 ? int64_t(x) : lo + int64_t(x % span);
        }
        return lo + int64_t(u(uint32_t(span)));
    }
    // geometric-ish length in [0,max]: most small, some large
    uint32_t len(uint32_t max)
    {
        if (max == 0)
            return 0;
        uint32_t k = u(8);
        uint32_t cap = k < 4 ? std::min<uint32_t>(max, 4) : k < 6 ? std::min<uint32_t>(max, 16)
            : k < 7                                               ? std::min<uint32_t>(max, 128)
                                                                  : max;
        return u(cap + 1);
    }
    template<typename T>
    const T &pick(const std::vector<T> &xs)
    {
        return xs[u(uint32_t(xs.size()))];
    }
    template<typename T>
    T pick(std::initializer_list<T> xs)
    {
        return *(xs.begin() + u(uint32_t(xs.size())));
    }
    size_t weighted(std::initializer_list<uint32_t> ws)
    {
        uint32_t tot = 0;
        for (auto w : ws)
            tot += w;
        uint32_t x = u(tot), i = 0;
        for (auto w : ws) {
            if (x < w)
                return i;
            x -= w;
            i++;
        }
        return ws.size() - 1;
    }
    QByteArray bytes(uint32_t n)
    {
        QByteArray out;
        out.reserve(int(n));
        for (uint32_t i = 0; i < n; i++)
            out.append(char(u(256)));
        return out;
    }
    uint64_t u64() { return (uint64_t(u(0)) << 32) | u(0); }

    void setPartition(uint32_t part, uint32_t parts, uint32_t depth)
    {
        m_part = part;
        m_parts = parts;
        m_partDepth = depth;
    }
    bool exhausted() const { return m_mode == Bytes ? m_pos >= m_n : m_pos >= m_v.size(); }
    size_t consumed() const { return m_pos; }
    const std::vector<uint32_t> &trace() const { return m_trace; }
    const std::vector<uint32_t> &input() const { return m_v; }
    Mode mode() const { return m_mode; }

private:
    Mode m_mode = U32;
    std::vector<uint32_t> m_v;
    const uint8_t *m_d = nullptr;
    size_t m_n = 0;
    size_t m_pos = 0;
    std::vector<uint32_t> m_trace;
    std::vector<uint32_t> m_radix;
    uint32_t m_part = 0, m_parts = 1, m_partDepth = 2;
};

// ---------------------------------------------------------------- failures
struct Failure {
    std::string sig;
    std::string msg;
};
struct KnownSkip { };

// ---------------------------------------------------------------- context / evidence counters
class Ctx
{
public:
    uint64_t evals = 0;
    std::map<std::string, uint64_t> labels;
    std::unordered_set<uint64_t> nontrivialSet;
    std::vector<std::string> samples;
    std::map<std::string, uint64_t> excludedKnown;
    std::vector<std::string> known;
    bool replayMode = false;
    bool truncated = false;
    std::map<std::string, std::string> notes;   // free-form evidence key -> value (numbers as text)
    std::map<std::string, std::string> params;  // --param k=v (tier-dependent bounds chosen by the driver)
    int worker = 0, workers = 1;
    long param(const std::string &k, long dflt) const
    {
        auto it = params.find(k);
        return it == params.end() ? dflt : atol(it->second.c_str());
    }

    void label(const std::string &l) { labels[l]++; }
    void count(const std::string &l, uint64_t n) { labels[l] += n; }
    void nontrivial(uint64_t fp)
    {
        m_caseNontrivial = true;
        nontrivialSet.insert(fp);
    }
    // lazily built sample; keeps the first 2 cases and up to 10 exponentially spaced ones
    void sample(const std::function<std::string()> &f)
    {
        if (replayMode) {
            fprintf(stderr, "CASE: %s\n", f().c_str());
            return;
        }
        if (samples.size() >= 12)
            return;
        if (evals <= 2 || (evals & (evals - 1)) == 0 || (m_caseNontrivial && samples.size() < 6))
            samples.push_back(f());
    }
    // signatures in known_findings.json may use '*' as a wildcard (any run of characters)
    static bool globMatch(const char *pat, const char *str)
    {
        while (*pat) {
            if (*pat == '*') {
                while (*pat == '*')
                    pat++;
                if (!*pat)
                    return true;
                for (; *str; str++)
                    if (globMatch(pat, str))
                        return true;
                return false;
            }
            if (*pat != *str)
                return false;
            pat++;
            str++;
        }
        return !*str;
    }
    bool isKnown(const std::string &sig) const
    {
        for (auto &k : known)
            if (globMatch(k.c_str(), sig.c_str()))
                return true;
        return false;
    }
    // triage aid (--collect): do not stop at the first failure class, record one example per signature
    bool collectMode = false;
    std::map<std::string, std::string> collected;
    std::map<std::string, uint64_t> collectedCount;
    [[noreturn]] void fail(const std::string &sig, const std::string &msg)
    {
        if (isKnown(sig)) {
            excludedKnown[sig]++;
            throw KnownSkip {};
        }
        if (collectMode) {
            if (!collected.count(sig))
                collected[sig] = msg.substr(0, 3000);
            collectedCount[sig]++;
            throw KnownSkip {};
        }
        throw Failure { sig, msg };
    }
    void require(bool cond, const std::string &sig, const std::string &msg)
    {
        if (!cond)
            fail(sig, msg);
    }
    void require(bool cond, const std::string &sig, const std::function<std::string()> &msg)
    {
        if (!cond)
            fail(sig, msg());
    }
    // a known-finding that does not end the case (the harness works around it and goes on)
    // returns true when sig is known (counted), otherwise fails.
    void tolerateKnown(const std::string &sig, const std::string &msg)
    {
        if (isKnown(sig)) {
            excludedKnown[sig]++;
            return;
        }
        throw Failure { sig, msg };
    }
    void beginCase()
    {
        evals++;
        m_caseNontrivial = false;
    }

private:
    bool m_caseNontrivial = false;
};

// ---------------------------------------------------------------- registry
using Body = std::function<void(Tape &, Ctx &)>;
struct Sub {
    std::string name;
    int tapeLen;   // nominal maximum tape length for the rapid engine
    Body body;
};
inline std::vector<Sub> &registry()
{
    static std::vector<Sub> r;
    return r;
}
struct Registrar {
    Registrar(const char *name, int tapeLen, Body b) { registry().push_back({ name, tapeLen, std::move(b) }); }
};
#define VH_CAT2(a, b) a##b
#define VH_CAT(a, b) VH_CAT2(a, b)
#define VCHECK(name, tapeLen)                                                         \
    static void VH_CAT(vh_body_, __LINE__)(vh::Tape &, vh::Ctx &);                    \
    static vh::Registrar VH_CAT(vh_reg_, __LINE__)(name, tapeLen, VH_CAT(vh_body_, __LINE__)); \
    static void VH_CAT(vh_body_, __LINE__)(vh::Tape & t, vh::Ctx & c)

// ---------------------------------------------------------------- json helpers
inline std::string jesc(const std::string &in)
{
    std::string o;
    o.reserve(in.size() + 8);
    for (unsigned char ch : in) {
        switch (ch) {
        case '"': o += "\\\""; break;
        case '\\': o += "\\\\"; break;
        case '\n': o += "\\n"; break;
        case '\r': o += "\\r"; break;
        case '\t': o += "\\t"; break;
        default:
            if (ch < 0x20) {
                char buf[8];
                snprintf(buf, sizeof buf, "\\u%04x", ch);
                o += buf;
            } else {
                o += char(ch);
            }
        }
    }
    // make sure the result is valid UTF-8: replace invalid sequences
    QString q = QString::fromUtf8(o.data(), int(o.size()));
    return q.toUtf8().toStdString();
}

struct RunCfg {
    std::string sub;
    std::string engine = "rapid";
    uint64_t seed = 1;
    long cases = 1000;
    std::string outDir = ".";
    int worker = 0;
    std::string knownFile;
    double maxSeconds = 0;
    std::vector<std::string> fuzzArgs;
};

struct State {
    RunCfg cfg;
    Ctx ctx;
    const Sub *sub = nullptr;
    bool haveFailure = false;
    Failure failure;
    std::vector<uint32_t> failTrace;
    QByteArray failBytes;
    std::chrono::steady_clock::time_point t0;
    bool exhaustive = false;
    bool statsWritten = false;
};
inline State &st()
{
    static State s;
    return s;
}

inline std::string replayText(const std::string &sub, const Failure &f, const std::vector<uint32_t> &trace)
{
    std::ostringstream o;
    o << "sub=" << sub << "\n";
    o << "sig=" << f.sig << "\n";
    for (auto &[k, v] : st().ctx.params)
        o << "param=" << k << "=" << v << "\n";
    o << "format=u32\n";
    o << "choices=";
    for (size_t i = 0; i < trace.size(); i++)
        o << (i ? " " : "") << trace[i];
    o << "\n";
    std::istringstream m(f.msg);
    std::string line;
    while (std::getline(m, line))
        o << "# " << line << "\n";
    return o.str();
}

inline void writeStats()
{
    auto &S = st();
    if (S.cfg.outDir.empty())
        return;
    std::string base = S.cfg.outDir + "/" + S.cfg.sub + "." + std::to_string(S.cfg.worker);
    {
        std::ofstream fp(base + ".fp", std::ios::binary);
        for (auto v : S.ctx.nontrivialSet)
            fp.write(reinterpret_cast<const char *>(&v), sizeof v);
    }
    std::ofstream o(base + ".json");
    double wall = std::chrono::duration<double>(std::chrono::steady_clock::now() - S.t0).count();
    o << "{\n \"sub\": \"" << jesc(S.cfg.sub) << "\",\n \"engine\": \"" << S.cfg.engine << "\",\n \"seed\": " << S.cfg.seed
      << ",\n \"worker\": " << S.cfg.worker << ",\n \"evaluations\": " << S.ctx.evals << ",\n \"nontrivial\": " << S.ctx.nontrivialSet.size()
      << ",\n \"wall_s\": " << wall << ",\n \"truncated\": " << (S.ctx.truncated ? "true" : "false")
      << ",\n \"exhaustive\": " << (S.exhaustive ? "true" : "false") << ",\n \"labels\": {";
    bool first = true;
    for (auto &[k, v] : S.ctx.labels) {
        o << (first ? "" : ", ") << "\"" << jesc(k) << "\": " << v;
        first = false;
    }
    o << "},\n \"notes\": {";
    first = true;
    for (auto &[k, v] : S.ctx.notes) {
        o << (first ? "" : ", ") << "\"" << jesc(k) << "\": \"" << jesc(v) << "\"";
        first = false;
    }
    o << "},\n \"excluded_known\": {";
    first = true;
    for (auto &[k, v] : S.ctx.excludedKnown) {
        o << (first ? "" : ", ") << "\"" << jesc(k) << "\": " << v;
        first = false;
    }
    o << "},\n \"collected\": {";
    first = true;
    for (auto &[k, v] : S.ctx.collected) {
        o << (first ? "" : ", ") << "\"" << jesc(k) << "\": \"" << jesc("[x" + std::to_string(S.ctx.collectedCount[k]) + "] " + v) << "\"";
        first = false;
    }
    o << "},\n \"samples\": [";
    first = true;
    for (auto &x : S.ctx.samples) {
        std::string cut = x.size() > 1500 ? x.substr(0, 1500) + "...[cut]" : x;
        o << (first ? "" : ", ") << "\"" << jesc(cut) << "\"";
        first = false;
    }
    o << "],\n \"failure\": ";
    if (S.haveFailure) {
        std::string rp = base + ".replay";
        std::ofstream r(rp);
        if (!S.failBytes.isEmpty() || S.cfg.engine == "fuzz") {
            r << "sub=" << S.cfg.sub << "\nsig=" << S.failure.sig << "\nformat=bytes\nhex=" << S.failBytes.toHex().toStdString() << "\n";
            std::istringstream m(S.failure.msg);
            std::string line;
            while (std::getline(m, line))
                r << "# " << line << "\n";
        } else {
            r << replayText(S.cfg.sub, S.failure, S.failTrace);
        }
        o << "{\"sig\": \"" << jesc(S.failure.sig) << "\", \"msg\": \"" << jesc(S.failure.msg.substr(0, 4000)) << "\", \"replay\": \"" << jesc(rp) << "\"}";
    } else {
        o << "null";
    }
    o << "\n}\n";
    o.close();
    S.statsWritten = true;
}

inline void loadKnown(const std::string &file, Ctx &ctx)
{
    if (file.empty())
        return;
    std::ifstream in(file);
    std::string line;
    while (std::getline(in, line)) {
        if (!line.empty() && line[0] != '#')
            ctx.known.push_back(line);
    }
}

inline bool deadlinePassed()
{
    auto &S = st();
    if (S.cfg.maxSeconds <= 0)
        return false;
    return std::chrono::duration<double>(std::chrono::steady_clock::now() - S.t0).count() > S.cfg.maxSeconds;
}

// ---- crash capture (rapid / enum engines): on a sanitizer report, failed assert or fatal signal the
// choices of the case being executed are written as a replay file with async-signal-safe calls only.
inline const Tape *&currentTape()
{
    static const Tape *t = nullptr;
    return t;
}
inline char *crashPath()
{
    static char p[1024];
    return p;
}
inline char *crashSub()
{
    static char p[256];
    return p;
}
inline void crashDump()
{
    static volatile int once = 0;
    if (once || !crashPath()[0] || !currentTape())
        return;
    once = 1;
    int fd = ::open(crashPath(), O_WRONLY | O_CREAT | O_TRUNC, 0644);
    if (fd < 0)
        return;
    auto w = [&](const char *x) { (void)!::write(fd, x, strlen(x)); };
    w("sub=");
    w(crashSub());
    w("\nsig=crash\nformat=u32\nchoices=");
    const auto &v = currentTape()->input();
    char buf[16];
    for (size_t i = 0; i < v.size(); i++) {
        uint32_t x = v[i];
        int n = 0;
        char tmp[12];
        do {
            tmp[n++] = char('0' + x % 10);
            x /= 10;
        } while (x);
        int k = 0;
        if (i)
            buf[k++] = ' ';
        while (n)
            buf[k++] = tmp[--n];
        (void)!::write(fd, buf, size_t(k));
    }
    w("\n");
    ::close(fd);
}
extern "C" void __sanitizer_set_death_callback(void (*)(void));
inline void crashSignal(int sig)
{
    crashDump();
    signal(sig, SIG_DFL);
    raise(sig);
}
inline void installCrashCapture(const std::string &path, const std::string &sub)
{
    snprintf(crashPath(), 1024, "%s", path.c_str());
    snprintf(crashSub(), 256, "%s", sub.c_str());
    __sanitizer_set_death_callback(crashDump);
    for (int sig : { SIGABRT, SIGSEGV, SIGBUS, SIGFPE, SIGILL })
        signal(sig, crashSignal);
}

// Watchdog: a case that does not come back is a failure of its own kind (a parser spinning forever, a handler waiting for
// something that never happens), not something a wall-clock budget may swallow.  The limit is far above what any case of
// any sub-check takes on a loaded machine (--param case_timeout=<seconds>, 0 switches it off).
inline int &caseTimeoutSeconds()
{
    static int s = 180;
    return s;
}
inline void hangSignal(int)
{
    static const char msg[] = "\nVH-HANG: the case being executed did not finish within the per-case time limit\n";
    (void)!::write(2, msg, sizeof msg - 1);
    crashDump();
    _exit(124);
}

// run the body once on a tape; returns 0 pass, 1 fail (state().failure set), 2 known-skip
inline int runOnce(const Sub &sub, Tape &t, Ctx &ctx)
{
    ctx.beginCase();
    struct Guard {
        Guard(const Tape *t)
        {
            currentTape() = t;
            if (caseTimeoutSeconds() > 0) {
                signal(SIGALRM, hangSignal);
                alarm(unsigned(caseTimeoutSeconds()));
            }
        }
        ~Guard()
        {
            alarm(0);
            currentTape() = nullptr;
        }
    } guard(&t);
    if (ctx.params.count("case_timeout"))
        caseTimeoutSeconds() = atoi(ctx.params.at("case_timeout").c_str());
    try {
        sub.body(t, ctx);
    } catch (KnownSkip &) {
        return 2;
    } catch (SkipPath &) {
        ctx.evals--;
        return 3;
    } catch (Failure &f) {
        auto &S = st();
        S.haveFailure = true;
        S.failure = f;
        S.failTrace = t.trace();
        return 1;
    } catch (const std::exception &e) {
        // an exception escaping the code under test (the harness bodies throw nothing but the types above): in the real
        // program it would leave an event handler and terminate the process
        Failure f { std::string(sub.name) + " uncaught-exception " + e.what(), std::string("an exception escaped the code under test: ") + e.what() };
        if (ctx.isKnown(f.sig))
            return 2;
        auto &S = st();
        S.haveFailure = true;
        S.failure = f;
        S.failTrace = t.trace();
        return 1;
    }
    return 0;
}

inline int fuzzCallback(const uint8_t *data, size_t size)
{
    auto &S = st();
    Tape t(data, size);
    int r = runOnce(*S.sub, t, S.ctx);
    if (r == 1) {
        S.failBytes = QByteArray(reinterpret_cast<const char *>(data), int(size));
        writeStats();
        fprintf(stderr, "VH-FAILURE sub=%s sig=%s\n%s\n", S.cfg.sub.c_str(), S.failure.sig.c_str(), S.failure.msg.c_str());
        fflush(stderr);
        __builtin_trap();
    }
    if ((S.ctx.evals & 0x3fff) == 0)
        writeStats();
    return 0;
}

// ---------------------------------------------------------------- rapidcheck tape generator
// A custom rapidcheck generator (all randomness from rc::Random, so seed/reproduce work) with a
// custom shrinker in the style of Hypothesis' choice-sequence shrinking: truncate, delete chunks,
// zero / halve / decrement single choices.  Much faster than gen::container for long tapes.
// shrinking is bounded by executions and wall time: a non-minimal replay is still a valid replay
inline long &shrinkRuns()
{
    static long n = 0;
    return n;
}
inline std::chrono::steady_clock::time_point &shrinkStart()
{
    static std::chrono::steady_clock::time_point t;
    return t;
}
inline bool shrinkBudgetExhausted()
{
    if (shrinkRuns() == 0)
        return false;
    double el = std::chrono::duration<double>(std::chrono::steady_clock::now() - shrinkStart()).count();
    return shrinkRuns() > 20000 || el > 45.0;
}
struct ShrinkOp {
    uint8_t op;   // 0 truncate to k, 1 delete [i,i+k), 2 set v[i]=k, 3 zero [i,i+k)
    uint32_t i, k;
};
inline rc::Seq<std::vector<uint32_t>> shrinkTape(const std::vector<uint32_t> &v)
{
    std::vector<ShrinkOp> ops;
    const uint32_t n = uint32_t(v.size());
    if (n == 0 || shrinkBudgetExhausted())
        return rc::Seq<std::vector<uint32_t>>();
    // trailing zeros are equivalent to a shorter tape
    uint32_t nz = n;
    while (nz > 0 && v[nz - 1] == 0)
        nz--;
    if (nz < n)
        ops.push_back({ 0, 0, nz });
    for (uint32_t cut = nz; cut > 0; cut /= 2)
        if (nz - cut < nz)
            ops.push_back({ 0, 0, nz - cut });
    for (uint32_t k = std::max<uint32_t>(1, nz / 2); k >= 1; k /= 2) {
        if (nz / k > 200) {   // bound the number of candidates per round
            if (k == 1)
                break;
            continue;
        }
        for (uint32_t i = 0; i + k <= nz; i += k)
            ops.push_back({ 1, i, k });
        if (k == 1)
            break;
    }
    if (nz <= 400) {
        for (uint32_t i = 0; i < nz; i++)
            ops.push_back({ 1, i, 1 });
    }
    for (uint32_t k = std::max<uint32_t>(1, nz / 4); k >= 2; k /= 2)
        for (uint32_t i = 0; i + k <= nz && ops.size() < 4000; i += k)
            ops.push_back({ 3, i, k });
    for (uint32_t i = 0; i < nz && ops.size() < 12000; i++) {
        if (v[i] == 0)
            continue;
        ops.push_back({ 2, i, 0 });
        if (v[i] > 1)
            ops.push_back({ 2, i, v[i] / 2 });
        if (v[i] > 1 && v[i] <= 16)   // no linear descent from large values
            ops.push_back({ 2, i, v[i] - 1 });
    }
    auto shared = std::make_shared<std::vector<uint32_t>>(v);
    return rc::seq::map(rc::seq::takeWhile(rc::seq::fromContainer(std::move(ops)), [](const ShrinkOp &) { return !shrinkBudgetExhausted(); }),
                        [shared](const ShrinkOp &o) {
        if (shrinkRuns()++ == 0)
            shrinkStart() = std::chrono::steady_clock::now();
        std::vector<uint32_t> r(*shared);
        switch (o.op) {
        case 0: r.resize(o.k); break;
        case 1: r.erase(r.begin() + o.i, r.begin() + o.i + o.k); break;
        case 2: r[o.i] = o.k; break;
        case 3:
            for (uint32_t j = o.i; j < o.i + o.k; j++)
                r[j] = 0;
            break;
        }
        return r;
    });
}
inline rc::Gen<std::vector<uint32_t>> makeTapeGen(int tapeLen)
{
    return rc::Gen<std::vector<uint32_t>>([tapeLen](const rc::Random &random, int size) {
        rc::Random r(random);
        int eff = size < 10 ? 10 + size * 3 : std::min(100, 40 + size);
        int maxLen = std::max(1, tapeLen * eff / 100);
        int n = maxLen / 4 + int(r.next() % uint64_t(maxLen - maxLen / 4 + 1));
        std::vector<uint32_t> v(size_t(n), 0u);
        for (auto &x : v) {
            uint64_t w = r.next();
            uint32_t sel = uint32_t(w >> 60);
            x = sel < 2 ? uint32_t((w >> 8) & 0xf) : sel < 4 ? uint32_t((w >> 8) & 0xff) : uint32_t(w >> 16);
        }
        return rc::shrinkable::shrinkRecur(std::move(v), &shrinkTape);
    });
}

inline int runRapid()
{
    auto &S = st();
    const Sub &sub = *S.sub;
    std::ostringstream p;
    p << "seed=" << S.cfg.seed << " max_success=" << S.cfg.cases << " max_size=100 max_discard_ratio=20";
    setenv("RC_PARAMS", p.str().c_str(), 1);
    auto tapeGen = makeTapeGen(sub.tapeLen);
    bool ok = rc::check(sub.name, [&] {
        if (deadlinePassed()) {
            S.ctx.truncated = true;
            return;
        }
        auto vec = *tapeGen;
        Tape t(std::move(vec));
        int r = runOnce(sub, t, S.ctx);
        if (r == 1)
            RC_FAIL(S.failure.sig + ": " + S.failure.msg);
    });
    if (ok)
        S.haveFailure = false;   // failures seen only... (cannot happen: any failure makes ok false)
    return ok ? 0 : 1;
}

inline int runEnum()
{
    auto &S = st();
    Tape t = Tape::enumerator();
    t.setPartition(uint32_t(S.ctx.worker), uint32_t(S.ctx.workers), uint32_t(S.ctx.param("partition_depth", 2)));
    long n = 0;
    bool more = true;
    S.exhaustive = false;
    while (more) {
        if ((S.cfg.cases > 0 && n >= S.cfg.cases) || ((n & 0xff) == 0 && deadlinePassed())) {
            S.ctx.truncated = true;
            return 0;
        }
        int r = runOnce(*S.sub, t, S.ctx);
        n++;
        if (r == 1)
            return 1;
        more = t.enumNext();
    }
    S.exhaustive = true;
    return 0;
}

inline bool parseReplay(const std::string &file, std::string &sub, std::string &format, std::vector<uint32_t> &choices, QByteArray &bytes)
{
    std::ifstream in(file);
    if (!in)
        return false;
    std::string line;
    while (std::getline(in, line)) {
        if (line.rfind("sub=", 0) == 0)
            sub = line.substr(4);
        else if (line.rfind("format=", 0) == 0)
            format = line.substr(7);
        else if (line.rfind("param=", 0) == 0) {
            std::string kv = line.substr(6);
            auto eq = kv.find('=');
            if (eq != std::string::npos)
                st().ctx.params[kv.substr(0, eq)] = kv.substr(eq + 1);
        }
        else if (line.rfind("choices=", 0) == 0) {
            std::istringstream is(line.substr(8));
            uint64_t v;
            while (is >> v)
                choices.push_back(uint32_t(v));
        } else if (line.rfind("hex=", 0) == 0)
            bytes = QByteArray::fromHex(QByteArray::fromStdString(line.substr(4)));
    }
    return !sub.empty();
}

inline const Sub *findSub(const std::string &name)
{
    for (auto &x : registry())
        if (x.name == name)
            return &x;
    return nullptr;
}

inline int vmain(int argc, char **argv)
{
    // Qt application object for event-loop based harnesses
    static int qargc = 1;
    static char *qargv[] = { argv[0], nullptr };
    static QCoreApplication app(qargc, qargv);

    auto &S = st();
    S.t0 = std::chrono::steady_clock::now();
    std::string replayFile;
    for (int i = 1; i < argc; i++) {
        std::string a = argv[i];
        auto next = [&]() -> std::string { return i + 1 < argc ? argv[++i] : ""; };
        if (a == "--list") {
            for (auto &x : registry())
                printf("%s\n", x.name.c_str());
            return 0;
        } else if (a == "--sub")
            S.cfg.sub = next();
        else if (a == "--engine")
            S.cfg.engine = next();
        else if (a == "--seed")
            S.cfg.seed = strtoull(next().c_str(), nullptr, 10);
        else if (a == "--cases")
            S.cfg.cases = atol(next().c_str());
        else if (a == "--out")
            S.cfg.outDir = next();
        else if (a == "--worker")
            S.cfg.worker = atoi(next().c_str());
        else if (a == "--known")
            S.cfg.knownFile = next();
        else if (a == "--max-seconds")
            S.cfg.maxSeconds = atof(next().c_str());
        else if (a == "--replay")
            replayFile = next();
        else if (a == "--collect")
            S.ctx.collectMode = true;
        else if (a == "--workers")
            S.ctx.workers = atoi(next().c_str());
        else if (a == "--param") {
            std::string kv = next();
            auto eq = kv.find('=');
            if (eq != std::string::npos)
                S.ctx.params[kv.substr(0, eq)] = kv.substr(eq + 1);
        }
        else if (a == "--") {
            for (int j = i + 1; j < argc; j++)
                S.cfg.fuzzArgs.push_back(argv[j]);
            break;
        }
    }
    loadKnown(S.cfg.knownFile, S.ctx);
    S.ctx.worker = S.cfg.worker;

    if (!replayFile.empty()) {
        std::string sub, format;
        std::vector<uint32_t> choices;
        QByteArray bytes;
        if (!parseReplay(replayFile, sub, format, choices, bytes)) {
            // raw libFuzzer artifact: needs --sub
            std::ifstream in(replayFile, std::ios::binary);
            if (!in || S.cfg.sub.empty()) {
                fprintf(stderr, "cannot read replay file %s\n", replayFile.c_str());
                return 3;
            }
            std::string all((std::istreambuf_iterator<char>(in)), std::istreambuf_iterator<char>());
            bytes = QByteArray::fromStdString(all);
            sub = S.cfg.sub;
            format = "bytes";
        }
        S.sub = findSub(sub);
        if (!S.sub) {
            fprintf(stderr, "unknown sub-check %s\n", sub.c_str());
            return 3;
        }
        S.cfg.sub = sub;
        S.cfg.outDir.clear();
        S.ctx.replayMode = true;
        Tape t = format == "bytes" ? Tape(reinterpret_cast<const uint8_t *>(bytes.constData()), size_t(bytes.size())) : Tape(choices);
        int r = runOnce(*S.sub, t, S.ctx);
        if (r == 1) {
            printf("REPLAY-FAIL sub=%s sig=%s\n%s\n", sub.c_str(), S.failure.sig.c_str(), S.failure.msg.c_str());
            return 1;
        }
        if (r == 2) {
            for (auto &[k, v] : S.ctx.excludedKnown)
                printf("REPLAY-KNOWN sub=%s sig=%s\n", sub.c_str(), k.c_str());
            return 0;
        }
        for (auto &[k, v] : S.ctx.excludedKnown)
            printf("REPLAY-KNOWN sub=%s sig=%s\n", sub.c_str(), k.c_str());
        printf("REPLAY-PASS sub=%s\n", sub.c_str());
        return 0;
    }

    S.sub = findSub(S.cfg.sub);
    if (!S.sub) {
        fprintf(stderr, "unknown sub-check '%s' (use --list)\n", S.cfg.sub.c_str());
        return 3;
    }
    int rc = 0;
    if (S.cfg.engine != "fuzz" && !S.cfg.outDir.empty())
        installCrashCapture(S.cfg.outDir + "/" + S.cfg.sub + "." + std::to_string(S.cfg.worker) + ".crash.replay", S.cfg.sub);
    if (S.cfg.engine == "rapid") {
        rc = runRapid();
    } else if (S.cfg.engine == "enum") {
        rc = runEnum();
    } else if (S.cfg.engine == "fuzz") {
        std::vector<std::string> args = { argv[0] };
        for (auto &x : S.cfg.fuzzArgs)
            args.push_back(x);
        std::vector<char *> cargs;
        for (auto &x : args)
            cargs.push_back(const_cast<char *>(x.c_str()));
        cargs.push_back(nullptr);
        int fargc = int(args.size());
        char **fargv = cargs.data();
        atexit([] { writeStats(); });
        rc = LLVMFuzzerRunDriver(&fargc, &fargv, fuzzCallback);
        writeStats();
        return rc;
    } else {
        fprintf(stderr, "unknown engine %s\n", S.cfg.engine.c_str());
        return 3;
    }
    writeStats();
    if (rc == 1 && S.haveFailure) {
        printf("VH-FAILURE sub=%s sig=%s\n%s\n", S.cfg.sub.c_str(), S.failure.sig.c_str(), S.failure.msg.c_str());
    }
    return rc;
}

}   // namespace vh

#define VH_MAIN() \
    int main(int argc, char **argv) { return vh::vmain(argc, argv); }
