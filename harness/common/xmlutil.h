// XML helpers shared by the codec harnesses (DESIGN.md section 2: X-canon).
#pragma once

#include <QBuffer>
#include <QDomDocument>
#include <QSet>
#include <QDomElement>
#include <QString>
#include <QStringList>
#include <QXmlStreamReader>
#include <QXmlStreamWriter>

#include <algorithm>
#include <optional>

namespace xu {

inline const QString &wrapOpen()
{
    static const QString s = QStringLiteral("<stream:stream xmlns='jabber:client' xmlns:stream='http://etherx.jabber.org/streams'>");
    return s;
}
inline const QString &wrapClose()
{
    static const QString s = QStringLiteral("</stream:stream>");
    return s;
}

// Parse a stream fragment (one element) the way XmppSocket does: inside the stream wrapper, namespace aware.
// Returns a null element if not well-formed or not exactly one element.
struct Parsed {
    QDomDocument doc;
    QDomElement el;
    QString error;
    bool ok() const { return !el.isNull(); }
};
inline Parsed parseFragment(const QString &fragment)
{
    Parsed p;
    QString err;
    int line = 0, col = 0;
    if (!p.doc.setContent(wrapOpen() + fragment + wrapClose(), true, &err, &line, &col)) {
        p.error = err + QStringLiteral(" at ") + QString::number(line) + u':' + QString::number(col);
        return p;
    }
    QDomElement root = p.doc.documentElement();
    QDomElement first = root.firstChildElement();
    if (first.isNull()) {
        p.error = QStringLiteral("no element");
        return p;
    }
    if (!first.nextSiblingElement().isNull()) {
        p.error = QStringLiteral("more than one top-level element");
        return p;
    }
    p.el = first;
    return p;
}
inline Parsed parseFragment(const QByteArray &fragment) { return parseFragment(QString::fromUtf8(fragment)); }

// independent second opinion on well-formedness: the streaming reader (different code path than QDom in Qt5)
inline bool streamReaderAccepts(const QString &fragment, QString *error = nullptr)
{
    QXmlStreamReader r(wrapOpen() + fragment + wrapClose());
    int depth = 0, topLevel = 0;
    while (!r.atEnd()) {
        auto tk = r.readNext();
        if (tk == QXmlStreamReader::StartElement) {
            if (depth == 1)
                topLevel++;
            depth++;
        } else if (tk == QXmlStreamReader::EndElement) {
            depth--;
        }
    }
    if (r.hasError()) {
        if (error)
            *error = r.errorString();
        return false;
    }
    if (topLevel != 1) {
        if (error)
            *error = QStringLiteral("fragment has %1 top-level elements").arg(topLevel);
        return false;
    }
    return true;
}
// Neither Qt parser rejects a start tag that carries the same attribute twice (e.g. two xmlns declarations); XML does
// (well-formedness constraint "Unique Att Spec").  Scans text both Qt parsers have already accepted.
inline bool uniqueAttributes(const QString &x, QString *error = nullptr)
{
    const int n = x.size();
    int i = 0;
    while (i < n) {
        if (x[i] != u'<') {
            i++;
            continue;
        }
        if (x.midRef(i, 4) == QLatin1String("<!--")) {
            int e = x.indexOf(QLatin1String("-->"), i + 4);
            i = e < 0 ? n : e + 3;
            continue;
        }
        if (x.midRef(i, 9) == QLatin1String("<![CDATA[")) {
            int e = x.indexOf(QLatin1String("]]>"), i + 9);
            i = e < 0 ? n : e + 3;
            continue;
        }
        if (i + 1 < n && (x[i + 1] == u'?' || x[i + 1] == u'!' || x[i + 1] == u'/')) {
            int e = x.indexOf(u'>', i);
            i = e < 0 ? n : e + 1;
            continue;
        }
        // start tag: name, then attributes
        int j = i + 1;
        while (j < n && !x[j].isSpace() && x[j] != u'>' && x[j] != u'/')
            j++;
        const QString tag = x.mid(i + 1, j - i - 1);
        QSet<QString> names;
        while (j < n) {
            while (j < n && x[j].isSpace())
                j++;
            if (j >= n || x[j] == u'>' || x[j] == u'/')
                break;
            int k = j;
            while (k < n && x[k] != u'=' && !x[k].isSpace())
                k++;
            const QString name = x.mid(j, k - j);
            while (k < n && x[k] != u'"' && x[k] != u'\'')
                k++;
            if (k >= n)
                break;
            const QChar quote = x[k];
            int e = x.indexOf(quote, k + 1);
            if (e < 0)
                break;
            if (names.contains(name)) {
                if (error)
                    *error = QStringLiteral("attribute '%1' appears twice in <%2>").arg(name, tag);
                return false;
            }
            names.insert(name);
            j = e + 1;
        }
        int e = x.indexOf(u'>', j);
        i = e < 0 ? n : e + 1;
    }
    return true;
}
inline bool wellFormed(const QString &fragment, QString *error = nullptr)
{
    if (!uniqueAttributes(fragment, error))
        return false;
    auto p = parseFragment(fragment);
    if (!p.ok()) {
        if (error)
            *error = QStringLiteral("QDom: ") + p.error;
        return false;
    }
    QString e2;
    if (!streamReaderAccepts(fragment, &e2)) {
        if (error)
            *error = QStringLiteral("QXmlStreamReader: ") + e2;
        return false;
    }
    return true;
}

inline void skeletonRec(const QDomElement &e, QString &out, bool withAttrNames)
{
    out += u'<';
    out += e.namespaceURI();
    out += u'|';
    out += e.localName().isEmpty() ? e.tagName() : e.localName();
    if (withAttrNames) {
        QStringList names;
        auto attrs = e.attributes();
        for (int i = 0; i < attrs.count(); i++) {
            QString n = attrs.item(i).nodeName();
            if (n == u"xmlns" || n.startsWith(u"xmlns:"))
                continue;
            names << n;
        }
        names.sort();
        out += u'@';
        out += names.join(u',');
    }
    bool hasText = false;
    for (QDomNode n = e.firstChild(); !n.isNull(); n = n.nextSibling()) {
        if (n.isElement())
            skeletonRec(n.toElement(), out, withAttrNames);
        else if (n.isText() || n.isCDATASection())
            hasText = true;
    }
    if (hasText)
        out += u'#';
    out += u'>';
}
// element structure: names, namespaces, nesting, attribute names, presence of text — never values
inline QString skeleton(const QDomElement &e, bool withAttrNames = true)
{
    QString s;
    skeletonRec(e, s, withAttrNames);
    return s;
}

// canonical text of an element; with sortSiblings, child elements are ordered by their canonical text
inline QString canonical(const QDomElement &e, bool sortSiblings)
{
    QString out = QStringLiteral("<{") + e.namespaceURI() + QStringLiteral("}") + (e.localName().isEmpty() ? e.tagName() : e.localName());
    QStringList attrs;
    auto am = e.attributes();
    for (int i = 0; i < am.count(); i++) {
        QDomAttr a = am.item(i).toAttr();
        QString n = a.nodeName();
        if (n == u"xmlns" || n.startsWith(u"xmlns:"))
            continue;
        attrs << QStringLiteral(" {") + a.namespaceURI() + QStringLiteral("}") + (a.localName().isEmpty() ? a.name() : a.localName()) + QStringLiteral("=\"") + a.value().toHtmlEscaped() + QStringLiteral("\"");
    }
    attrs.sort();
    out += attrs.join(QString());
    out += u'>';
    QStringList children;
    QString text;
    for (QDomNode n = e.firstChild(); !n.isNull(); n = n.nextSibling()) {
        if (n.isElement()) {
            if (!text.isEmpty()) {
                children << QStringLiteral("#text:") + text.toHtmlEscaped();
                text.clear();
            }
            children << canonical(n.toElement(), sortSiblings);
        } else if (n.isText() || n.isCDATASection()) {
            text += n.nodeValue();
        }
    }
    if (!text.isEmpty())
        children << QStringLiteral("#text:") + text.toHtmlEscaped();
    if (sortSiblings)
        children.sort();
    out += children.join(QString());
    out += QStringLiteral("</>");
    return out;
}

// where two element trees first differ: "parent/child" local names (for failure signatures)
inline QString firstDiffPath(const QDomElement &a, const QDomElement &b, const QString &parent = QString())
{
    auto nm = [](const QDomElement &e) { return e.localName().isEmpty() ? e.tagName() : e.localName(); };
    if (a.isNull() || b.isNull())
        return parent + u'/' + (a.isNull() ? nm(b) : nm(a)) + QStringLiteral("(missing)");
    if (nm(a) != nm(b) || a.namespaceURI() != b.namespaceURI())
        return parent + u'/' + nm(a) + QStringLiteral("(name-or-ns)");
    // attributes
    auto attrs = [](const QDomElement &e) {
        QStringList l;
        auto am = e.attributes();
        for (int i = 0; i < am.count(); i++) {
            auto at = am.item(i).toAttr();
            if (at.name() == u"xmlns" || at.name().startsWith(u"xmlns:"))
                continue;
            l << at.name() + u'=' + at.value();
        }
        l.sort();
        return l;
    };
    QStringList aa = attrs(a), ab = attrs(b);
    if (aa != ab) {
        for (int i = 0; i < std::max(aa.size(), ab.size()); i++) {
            QString x = i < aa.size() ? aa[i] : QString(), y = i < ab.size() ? ab[i] : QString();
            if (x != y)
                return parent + u'/' + nm(a) + u'@' + (x.isEmpty() ? y : x).section(u'=', 0, 0);
        }
    }
    QDomElement ca = a.firstChildElement(), cb = b.firstChildElement();
    while (!ca.isNull() || !cb.isNull()) {
        if (ca.isNull() || cb.isNull() || canonical(ca, false) != canonical(cb, false))
            return firstDiffPath(ca, cb, nm(a));
        ca = ca.nextSiblingElement();
        cb = cb.nextSiblingElement();
    }
    if (a.text() != b.text())
        return parent + u'/' + nm(a) + QStringLiteral("#text");
    return parent + u'/' + nm(a);
}

template<typename T>
inline QByteArray ser(const T &x)
{
    QByteArray out;
    QXmlStreamWriter w(&out);
    x.toXml(&w);
    return out;
}

inline QString escText(const QString &s)
{
    // expected escaping of QXmlStreamWriter::writeCharacters
    QString o;
    for (QChar c : s) {
        if (c == u'<')
            o += QStringLiteral("&lt;");
        else if (c == u'>')
            o += QStringLiteral("&gt;");
        else if (c == u'&')
            o += QStringLiteral("&amp;");
        else if (c == u'"')
            o += QStringLiteral("&quot;");
        else
            o += c;
    }
    return o;
}

}   // namespace xu
