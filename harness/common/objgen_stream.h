// Object-first tables: stream-level nonzas (stream management, SASL, SASL 2, Bind 2, FAST, STARTTLS, stream features).
// Domain notes (read from src/base/QXmppSasl.cpp, QXmppStreamManagement.cpp, QXmppStreamFeatures.cpp):
//   * "max" of <enable/>/<enabled/> is written only when > 0: 0 means unset, so 0 is in the domain and must come back as 0.
//   * Sasl2::Continue needs at least one task (the parser documents tasks as mandatory).
//   * Sasl2::UserAgent writes no namespace of its own (it is only ever a child of <authenticate/>): tested nested only.
//   * FastToken needs a valid expiry.
#pragma once

#include "objgen.h"

#include "QXmppSasl_p.h"
#include "QXmppStreamFeatures.h"
#include "QXmppStreamManagement_p.h"
#include "Stream.h"

namespace og {

using namespace QXmpp::Private;

inline QXmppStanza::Error::Condition genCondition(Vals &v)
{
    using E = QXmppStanza::Error;
    return v.t.pick<E::Condition>({ E::BadRequest, E::Conflict, E::FeatureNotImplemented, E::Forbidden, E::Gone, E::InternalServerError, E::ItemNotFound, E::JidMalformed,
                                    E::NotAcceptable, E::NotAllowed, E::NotAuthorized, E::RecipientUnavailable, E::Redirect, E::RegistrationRequired, E::RemoteServerNotFound,
                                    E::RemoteServerTimeout, E::ResourceConstraint, E::ServiceUnavailable, E::SubscriptionRequired, E::UndefinedCondition, E::UnexpectedRequest, E::PolicyViolation });
}
inline Sasl::ErrorCondition genSaslCondition(Vals &v)
{
    using C = Sasl::ErrorCondition;
    return v.t.pick<C>({ C::Aborted, C::AccountDisabled, C::CredentialsExpired, C::EncryptionRequired, C::IncorrectEncoding, C::InvalidAuthzid, C::InvalidMechanism, C::MalformedRequest,
                         C::MechanismTooWeak, C::NotAuthorized, C::TemporaryAuthFailure });
}
inline QByteArray optBytes(Vals &v, uint32_t max = 40) { return v.t.b() ? v.bytes(max) : QByteArray(); }
inline std::vector<QString> strVec(Vals &v, int min, int max, bool text = false)
{
    std::vector<QString> out;
    int n = min + int(v.t.u(uint32_t(max - min + 1)));
    for (int i = 0; i < n; i++)
        out.push_back(text ? v.text(16) : v.attr(16));
    return out;
}

inline SmEnable genSmEnable(Vals &v) { return SmEnable { v.t.b(), v.t.b() ? num<quint64>(v) : 0 }; }
inline SmEnabled genSmEnabled(Vals &v)
{
    SmEnabled e;
    e.resume = v.t.b();
    if (v.t.b())
        e.id = v.attr();
    if (v.t.b())
        e.max = num<quint64>(v);
    if (v.t.b())
        e.location = v.attr();
    return e;
}
inline SmFailed genSmFailed(Vals &v)
{
    SmFailed f;
    if (v.t.b())
        f.error = genCondition(v);
    return f;
}
inline SmResume genSmResume(Vals &v) { return SmResume { num<quint32>(v), v.attr() }; }
inline SmResumed genSmResumed(Vals &v) { return SmResumed { num<quint32>(v), v.attr() }; }
inline Bind2Feature genBind2Feature(Vals &v) { return Bind2Feature { strVec(v, 0, 3) }; }
inline Bind2Request genBind2Request(Vals &v)
{
    Bind2Request r;
    if (v.t.b())
        r.tag = v.text(16);
    r.csiInactive = v.t.b();
    r.carbonsEnable = v.t.b();
    if (v.t.b())
        r.smEnable = genSmEnable(v);
    return r;
}
inline Bind2Bound genBind2Bound(Vals &v)
{
    Bind2Bound b;
    // a server answers an inline <enable/> with <enabled/> or <failed/>, never both
    switch (v.t.u(3)) {
    case 1:
        b.smFailed = genSmFailed(v);
        break;
    case 2:
        b.smEnabled = genSmEnabled(v);
        break;
    default:
        break;
    }
    return b;
}
inline FastFeature genFastFeature(Vals &v) { return FastFeature { strVec(v, 0, 3, true), v.t.b() }; }
inline FastTokenRequest genFastTokenRequest(Vals &v) { return FastTokenRequest { v.attr() }; }
inline FastToken genFastToken(Vals &v) { return FastToken { gen::dateTime(v.t), v.attr(40) }; }
inline FastRequest genFastRequest(Vals &v)
{
    FastRequest r;
    if (v.t.b())
        r.count = num<uint64_t>(v);
    r.invalidate = v.t.b();
    return r;
}
inline Sasl2::StreamFeature genSasl2Feature(Vals &v)
{
    Sasl2::StreamFeature f;
    for (auto &m : strVec(v, 0, 3, true))
        f.mechanisms.push_back(m);
    if (v.t.b())
        f.bind2Feature = genBind2Feature(v);
    if (v.t.b())
        f.fast = genFastFeature(v);
    f.streamResumptionAvailable = v.t.b();
    return f;
}
inline Sasl2::UserAgent genUserAgent(Vals &v)
{
    Sasl2::UserAgent u;
    if (v.t.b())
        u.id = QUuid::fromRfc4122(v.t.bytes(16));
    if (v.t.b())
        u.software = v.text(16);
    if (v.t.b())
        u.device = v.text(16);
    return u;
}

// dumps
inline void dumpSmEnable(const SmEnable &x, D &d)
{
    d("resume", x.resume);
    d("max", x.max);
}
inline void dumpSmEnabled(const SmEnabled &x, D &d)
{
    d("resume", x.resume);
    d("id", x.id);
    d("max", x.max);
    d("location", x.location);
}
inline void dumpSmFailed(const SmFailed &x, D &d) { d("error", x.error); }
template<typename R>
inline void dumpSmRes(const R &x, D &d)
{
    d("h", x.h);
    d("previd", x.previd);
}
inline void dumpBind2Feature(const Bind2Feature &x, D &d) { d("features", x.features); }
inline void dumpBind2Request(const Bind2Request &x, D &d)
{
    d("tag", x.tag);
    d("csiInactive", x.csiInactive);
    d("carbonsEnable", x.carbonsEnable);
    d("smEnable", x.smEnable.has_value());
    if (x.smEnable)
        dumpSmEnable(*x.smEnable, d);
}
inline void dumpBind2Bound(const Bind2Bound &x, D &d)
{
    d("smFailed", x.smFailed.has_value());
    if (x.smFailed)
        dumpSmFailed(*x.smFailed, d);
    d("smEnabled", x.smEnabled.has_value());
    if (x.smEnabled)
        dumpSmEnabled(*x.smEnabled, d);
}
inline void dumpFastFeature(const FastFeature &x, D &d)
{
    d("mechanisms", x.mechanisms);
    d("tls0rtt", x.tls0rtt);
}
inline void dumpFastToken(const FastToken &x, D &d)
{
    d("expiry", x.expiry);
    d("token", x.token);
}
inline void dumpFastRequest(const FastRequest &x, D &d)
{
    d("count", x.count);
    d("invalidate", x.invalidate);
}
inline void dumpSasl2Feature(const Sasl2::StreamFeature &x, D &d)
{
    d("mechanisms", x.mechanisms);
    d("bind2", x.bind2Feature.has_value());
    if (x.bind2Feature)
        dumpBind2Feature(*x.bind2Feature, d);
    d("fast", x.fast.has_value());
    if (x.fast)
        dumpFastFeature(*x.fast, d);
    d("sm", x.streamResumptionAvailable);
}
inline void dumpUserAgent(const Sasl2::UserAgent &x, D &d)
{
    d("ua.id", x.id);
    d("ua.software", x.software);
    d("ua.device", x.device);
}

inline void registerStreamNonzas()
{
    // ---- XEP-0198
    add<SmEnable>("SmEnable", genSmEnable, dumpSmEnable);
    add<SmEnabled>("SmEnabled", genSmEnabled, dumpSmEnabled);
    add<SmResume>("SmResume", genSmResume, dumpSmRes<SmResume>);
    add<SmResumed>("SmResumed", genSmResumed, dumpSmRes<SmResumed>);
    add<SmFailed>("SmFailed", genSmFailed, dumpSmFailed);
    add<SmAck>("SmAck", [](Vals &v) { return SmAck { num<quint32>(v) }; }, [](const SmAck &x, D &d) { d("h", x.seqNo); });
    add<SmRequest>("SmRequest", [](Vals &) { return SmRequest {}; }, [](const SmRequest &, D &) {});
    // ---- RFC 6120 SASL
    add<Sasl::Auth>("Sasl::Auth", [](Vals &v) { return Sasl::Auth { v.attr(20), optBytes(v) }; }, [](const Sasl::Auth &x, D &d) {
        d("mechanism", x.mechanism);
        d("value", x.value);
    });
    add<Sasl::Challenge>("Sasl::Challenge", [](Vals &v) { return Sasl::Challenge { optBytes(v) }; }, [](const Sasl::Challenge &x, D &d) { d("value", x.value); });
    add<Sasl::Response>("Sasl::Response", [](Vals &v) { return Sasl::Response { optBytes(v) }; }, [](const Sasl::Response &x, D &d) { d("value", x.value); });
    add<Sasl::Success>("Sasl::Success", [](Vals &v) { return Sasl::Success { optBytes(v) }; }, [](const Sasl::Success &x, D &d) { d("value", x.value); });
    add<Sasl::Failure>(
        "Sasl::Failure",
        [](Vals &v) {
            Sasl::Failure f;
            if (v.t.b())
                f.condition = genSaslCondition(v);
            // a <text/> without a condition element is not something the class can express apart from a missing condition:
            // the parser takes the first child as the condition.  Text only together with a condition.
            if (f.condition && v.t.b())
                f.text = v.text();
            return f;
        },
        [](const Sasl::Failure &x, D &d) {
            d("condition", x.condition);
            d("text", x.text);
        });
    // ---- XEP-0386 / XEP-0484
    add<Bind2Feature>("Bind2Feature", genBind2Feature, dumpBind2Feature);
    add<Bind2Request>("Bind2Request", genBind2Request, dumpBind2Request);
    add<Bind2Bound>("Bind2Bound", genBind2Bound, dumpBind2Bound);
    add<FastFeature>("FastFeature", genFastFeature, dumpFastFeature);
    add<FastTokenRequest>("FastTokenRequest", genFastTokenRequest, [](const FastTokenRequest &x, D &d) { d("mechanism", x.mechanism); });
    add<FastToken>("FastToken", genFastToken, dumpFastToken);
    add<FastRequest>("FastRequest", genFastRequest, dumpFastRequest);
    // ---- XEP-0388
    add<Sasl2::StreamFeature>("Sasl2::StreamFeature", genSasl2Feature, dumpSasl2Feature);
    add<Sasl2::Authenticate>(
        "Sasl2::Authenticate",
        [](Vals &v) {
            Sasl2::Authenticate a;
            a.mechanism = v.attr(20);
            a.initialResponse = optBytes(v);
            if (v.t.b())
                a.userAgent = genUserAgent(v);
            if (v.t.b())
                a.bindRequest = genBind2Request(v);
            if (v.t.b())
                a.smResume = genSmResume(v);
            if (v.t.b())
                a.tokenRequest = genFastTokenRequest(v);
            if (v.t.b())
                a.fast = genFastRequest(v);
            return a;
        },
        [](const Sasl2::Authenticate &x, D &d) {
            d("mechanism", x.mechanism);
            d("initialResponse", x.initialResponse);
            d("userAgent", x.userAgent.has_value());
            if (x.userAgent)
                dumpUserAgent(*x.userAgent, d);
            d("bind", x.bindRequest.has_value());
            if (x.bindRequest)
                dumpBind2Request(*x.bindRequest, d);
            d("resume", x.smResume.has_value());
            if (x.smResume)
                dumpSmRes(*x.smResume, d);
            d("tokenRequest", x.tokenRequest.has_value());
            if (x.tokenRequest)
                d("tokenRequest.mechanism", x.tokenRequest->mechanism);
            d("fast", x.fast.has_value());
            if (x.fast)
                dumpFastRequest(*x.fast, d);
        });
    add<Sasl2::Challenge>("Sasl2::Challenge", [](Vals &v) { return Sasl2::Challenge { optBytes(v) }; }, [](const Sasl2::Challenge &x, D &d) { d("data", x.data); });
    add<Sasl2::Response>("Sasl2::Response", [](Vals &v) { return Sasl2::Response { optBytes(v) }; }, [](const Sasl2::Response &x, D &d) { d("data", x.data); });
    add<Sasl2::Success>(
        "Sasl2::Success",
        [](Vals &v) {
            Sasl2::Success s;
            if (v.t.b())
                s.additionalData = optBytes(v);
            s.authorizationIdentifier = v.jid();
            if (v.t.b())
                s.bound = genBind2Bound(v);
            // a resumption request is answered by <resumed/> or <failed/>
            switch (v.t.u(3)) {
            case 1:
                s.smResumed = genSmResumed(v);
                break;
            case 2:
                s.smFailed = genSmFailed(v);
                break;
            default:
                break;
            }
            if (v.t.b())
                s.token = genFastToken(v);
            return s;
        },
        [](const Sasl2::Success &x, D &d) {
            d("additionalData", x.additionalData);
            d("authzid", x.authorizationIdentifier);
            d("bound", x.bound.has_value());
            if (x.bound)
                dumpBind2Bound(*x.bound, d);
            d("resumed", x.smResumed.has_value());
            if (x.smResumed)
                dumpSmRes(*x.smResumed, d);
            d("failed", x.smFailed.has_value());
            if (x.smFailed)
                dumpSmFailed(*x.smFailed, d);
            d("token", x.token.has_value());
            if (x.token)
                dumpFastToken(*x.token, d);
        });
    add<Sasl2::Failure>("Sasl2::Failure", [](Vals &v) { return Sasl2::Failure { genSaslCondition(v), v.t.b() ? v.text() : QString() }; }, [](const Sasl2::Failure &x, D &d) {
        d("condition", x.condition);
        d("text", x.text);
    });
    add<Sasl2::Continue>(
        "Sasl2::Continue",
        [](Vals &v) {
            Sasl2::Continue c;
            c.additionalData = optBytes(v);
            c.tasks = strVec(v, 1, 3, true);
            if (v.t.b())
                c.text = v.text();
            return c;
        },
        [](const Sasl2::Continue &x, D &d) {
            d("additionalData", x.additionalData);
            d("tasks", x.tasks);
            d("text", x.text);
        });
    add<Sasl2::Abort>("Sasl2::Abort", [](Vals &v) { return Sasl2::Abort { v.t.b() ? v.text() : QString() }; }, [](const Sasl2::Abort &x, D &d) { d("text", x.text); });
    // ---- STARTTLS
    add<StarttlsRequest>("StarttlsRequest", [](Vals &) { return StarttlsRequest {}; }, [](const StarttlsRequest &, D &) {});
    add<StarttlsProceed>("StarttlsProceed", [](Vals &) { return StarttlsProceed {}; }, [](const StarttlsProceed &, D &) {});
    // ---- stream features
    add<QXmppStreamFeatures>(
        "QXmppStreamFeatures",
        [](Vals &v) {
            QXmppStreamFeatures f;
            auto mode = [&] { return v.t.pick<QXmppStreamFeatures::Mode>({ QXmppStreamFeatures::Disabled, QXmppStreamFeatures::Enabled, QXmppStreamFeatures::Required }); };
            f.setBindMode(mode());
            f.setSessionMode(mode());
            f.setNonSaslAuthMode(mode());
            f.setTlsMode(mode());
            f.setStreamManagementMode(mode());
            f.setClientStateIndicationMode(mode());
            f.setRegisterMode(mode());
            f.setPreApprovedSubscriptionsSupported(v.t.b());
            f.setRosterVersioningSupported(v.t.b());
            QStringList mechs, comp;
            for (auto &m : strVec(v, 0, 3, true))
                mechs << m;
            for (auto &m : strVec(v, 0, 2, true))
                comp << m;
            f.setAuthMechanisms(mechs);
            f.setCompressionMethods(comp);
            if (v.t.b())
                f.setSasl2Feature(genSasl2Feature(v));
            return f;
        },
        [](const QXmppStreamFeatures &x, D &d) {
            d("bind", x.bindMode());
            d("session", x.sessionMode());
            d("nonSaslAuth", x.nonSaslAuthMode());
            d("tls", x.tlsMode());
            d("sm", x.streamManagementMode());
            d("csi", x.clientStateIndicationMode());
            d("register", x.registerMode());
            d("preApproved", x.preApprovedSubscriptionsSupported());
            d("rosterVer", x.rosterVersioningSupported());
            d("mechanisms", x.authMechanisms());
            d("compression", x.compressionMethods());
            d("sasl2", x.sasl2Feature().has_value());
            if (x.sasl2Feature())
                dumpSasl2Feature(*x.sasl2Feature(), d);
        });
}

}   // namespace og
