// Object-first tables: Jingle (XEP-0166/0167/0176/0293/0294/0320/0272), Jingle Message Initiation (XEP-0353), Call Invites
// (XEP-0482) and the file-sharing family (XEP-0447/0446/0300/0264/0448, Bits of Binary XEP-0231, Out of Band Data XEP-0066).
//
// Domain notes (read from src/base/QXmppJingleData.cpp, QXmppFileShare.cpp, QXmppFileMetadata.cpp, QXmppHash.cpp, QXmppThumbnail.cpp,
// QXmppHttpFileSource.cpp, QXmppEncryptedFileSource.cpp, QXmppBitsOfBinaryData.cpp, QXmppBitsOfBinaryContentId.cpp, QXmppOutOfBandUrl.cpp):
//   * QXmppJinglePayloadType: id is documented 0..127 (Q_ASSERT in setId); clockrate/maxptime/ptime: 0 means unset (written only when > 0);
//     parameters is a map: keys are made distinct by construction (index prefix) so that the map size does not depend on the string values.
//   * QXmppJingleCandidate: every numeric field is a plain int (quint16 for the port) and is always written; a null host / empty
//     foundation, id, protocol are the unset values.
//   * QXmppJingleDescription::type() is the namespace URI of <description/>: part of the element structure, not a value.  It comes from
//     a fixed pool (a free-text namespace would make the structure lock compare two different namespaces).  setPayloadTypes()/
//     addPayloadType() set the type to the RTP namespace: a description with payload types is an RTP description, any other namespace
//     comes without payload types.  A stand-alone description always has a type.
//   * QXmppJingleIq::Content: toXml() writes nothing unless creator and name are set -> both mandatory.  <description/> is written only if the
//     description has a type or payload types: media, ssrc, rtcp-mux, encryption, feedback and header-extension fields are children/attributes
//     of <description/> and are only set together with a description.  The transport namespace can only be set through the candidate
//     setters (no public setter for the transport type) and <transport/> is written only then: ufrag/pwd/fingerprint are set only together
//     with at least one candidate.  <fingerprint/> is written only if both fingerprint and hash are set (setup is optional).
//     The private member "disposition" has no public accessor: not set, not dumped.  parseSdp()/toSdp() are not XML: not covered.
//   * QXmppJingleRtpEncryption is written only with at least one crypto element; a crypto element only with crypto-suite and key-params.
//   * QXmppJingleRtpFeedbackProperty: "If there are parameters, they must be used instead of the subtype": subtype XOR parameters.
//   * QXmppJingleRtpHeaderExtensionProperty::setId documents 1..256 or 4096..4351.
//   * QXmppJingleReason: type None is "no reason" (serialises to nothing); text and RTP error condition only together with a type.
//   * QXmppJingleIq::setRtpSessionState() forces action=SessionInfo; it is called after setAction().  Muting: an empty name is unset.
//   * QXmppJingleMessageInitiationElement / QXmppCallInviteElement: Type::None is the unset state (empty element name): never generated.
//     Only the sub-fields the parser reads for the selected type are set (propose: description; reject/retract: reason, tie-break;
//     finish: reason, migrated-to; invite: audio/video; invite/accept: jingle, external).  An empty external list is the same as none.
//     Call-invite id is optional only for <invite/> (isCallInviteElement documents that).
//   * QXmppBitsOfBinaryData has parseElementFromChild()/toXmlElementFromChild() instead of parse()/toXml(): wrapped in an adapter.
//     A content id is valid only if the hash length matches the algorithm (isValid()): generated so.  QXmppBitsOfBinaryContentId has no
//     XML form of its own: covered through QXmppBitsOfBinaryData (all algorithms of its table).  maxAge: -1 unset, >= 0 otherwise.
//   * QXmppFileMetadata/QXmppThumbnail media types: QMimeType values looked up from a pool of registered names (an unknown name has no QMimeType).
//   * QXmppHttpFileSource: the URL is a QUrl built with QUrl::setPath()/setQuery() in decoded mode from generated text.
//
// Two classes had a FINDING (feedback interval above 32 bits, payload type channels outside 1..127); both are repaired in /repo and
// the generators use the whole range everywhere.
//
// Skipped:
//   * QXmppBitsOfBinaryDataList: toXml() writes a bare sequence of siblings and parse() reads the children of the element it is given: not a
//     self-contained element; exercised through QXmppMessage / QXmppBitsOfBinaryIq.
//   * QXmppFileSourcesAttachment: fromDom()/toXml() are private (friend QXmppMessage); exercised through QXmppMessage.
//   * QXmppCallInviteElement::External: toXml() only (parsed inline by QXmppCallInviteElement); covered there.
//   * QXmppExportData (file format), QXmppStunMessage (not XML).
#pragma once

#include "objgen.h"

#include "QXmppBitsOfBinaryContentId.h"
#include "QXmppBitsOfBinaryData.h"
#include "QXmppE2eeMetadata.h"
#include "QXmppEncryptedFileSource.h"
#include "QXmppFileMetadata.h"
#include "QXmppFileShare.h"
#include "QXmppHash.h"
#include "QXmppHttpFileSource.h"
#include "QXmppJingleData.h"
#include "QXmppOutOfBandUrl.h"
#include "QXmppThumbnail.h"

#include <QCryptographicHash>
#include <QHostAddress>
#include <QMimeDatabase>
#include <QUrl>
#include <QUrlQuery>

namespace og {
namespace media {

// ------------------------------------------------------------------------------------------------ small helpers
inline QString optAttr(Vals &v, uint32_t max = 24) { return v.t.b() ? v.attr(max) : QString(); }
inline QString optText(Vals &v, uint32_t max = 40) { return v.t.b() ? v.text(max) : QString(); }
// an integer of [lo,hi] with the bounds favoured
inline int64_t inRange(Vals &v, int64_t lo, int64_t hi)
{
    switch (v.t.u(4)) {
    case 0: return lo;
    case 1: return hi;
    default: return v.t.range(lo, hi);
    }
}
inline QMimeType genMime(Vals &v, std::initializer_list<QString> names) { return QMimeDatabase().mimeTypeForName(v.t.pick<QString>(names)); }
inline void dumpMime(const char *k, const QMimeType &m, D &d) { d(k, (m.isValid() ? QStringLiteral("valid:") : QStringLiteral("invalid:")) + m.name()); }

// stanza-level fields of an IQ
template<typename Iq>
inline void genIqFields(Vals &v, Iq &iq, std::initializer_list<QXmppIq::Type> types)
{
    iq.setId(optAttr(v));
    if (v.t.b())
        iq.setTo(v.jid());
    if (v.t.b())
        iq.setFrom(v.jid());
    iq.setType(v.t.pick<QXmppIq::Type>(types));
}
inline void dumpIqFields(const QXmppIq &iq, D &d)
{
    d("iq.id", iq.id());
    d("iq.to", iq.to());
    d("iq.from", iq.from());
    d("iq.lang", iq.lang());
    d("iq.type", iq.type());
    d("iq.error", iq.errorOptional().has_value());
    d("iq.extensions", int(iq.extensions().size()));
    d("iq.addresses", int(iq.extendedAddresses().size()));
    d("iq.e2ee", iq.e2eeMetadata().has_value());
}

// ------------------------------------------------------------------------------------------------ Jingle: generators
inline QXmppSdpParameter genSdpParameter(Vals &v)
{
    QXmppSdpParameter p;
    p.setName(v.attr(16));
    if (v.t.b())
        p.setValue(v.attr(16));   // "The value stays a default-constructed QString" for parameters that are not of the form a=b
    return p;
}
inline QVector<QXmppSdpParameter> genSdpParameters(Vals &v, int max = 3)
{
    QVector<QXmppSdpParameter> l;
    int n = int(v.t.u(uint32_t(max + 1)));
    for (int i = 0; i < n; i++)
        l.push_back(genSdpParameter(v));
    return l;
}
inline QXmppJingleRtpCryptoElement genCrypto(Vals &v)
{
    QXmppJingleRtpCryptoElement c;
    c.setTag(num<uint32_t>(v));
    c.setCryptoSuite(v.attr(24));
    c.setKeyParams(v.attr(40));
    if (v.t.b())
        c.setSessionParams(v.attr(24));
    return c;
}
inline QXmppJingleRtpEncryption genEncryption(Vals &v)
{
    QXmppJingleRtpEncryption e;
    e.setRequired(v.t.b());
    QVector<QXmppJingleRtpCryptoElement> l;
    int n = 1 + int(v.t.u(3));
    for (int i = 0; i < n; i++)
        l.push_back(genCrypto(v));
    e.setCryptoElements(l);
    return e;
}
inline QXmppJingleRtpFeedbackProperty genFbProperty(Vals &v)
{
    QXmppJingleRtpFeedbackProperty p;
    p.setType(v.attr(12));
    if (v.t.b())
        p.setSubtype(v.attr(12));
    else
        p.setParameters(genSdpParameters(v));
    return p;
}
inline QXmppJingleRtpFeedbackInterval genFbInterval(Vals &v, bool nested)
{
    QXmppJingleRtpFeedbackInterval i;
    uint64_t x = num<uint64_t>(v);
    // (was a FINDING: parse() read the 64-bit value with toUInt(); repaired in /repo by d88bb82, so nested uses keep the whole range too)
    (void)nested;
    i.setValue(x);
    return i;
}
inline QVector<QXmppJingleRtpFeedbackProperty> genFbProperties(Vals &v, int max = 2)
{
    QVector<QXmppJingleRtpFeedbackProperty> l;
    int n = int(v.t.u(uint32_t(max + 1)));
    for (int i = 0; i < n; i++)
        l.push_back(genFbProperty(v));
    return l;
}
inline QVector<QXmppJingleRtpFeedbackInterval> genFbIntervals(Vals &v, int max = 2)
{
    QVector<QXmppJingleRtpFeedbackInterval> l;
    int n = int(v.t.u(uint32_t(max + 1)));
    for (int i = 0; i < n; i++)
        l.push_back(genFbInterval(v, true));
    return l;
}
inline QXmppJingleRtpHeaderExtensionProperty genHdrExt(Vals &v)
{
    QXmppJingleRtpHeaderExtensionProperty p;
    p.setId(v.t.b() ? uint32_t(inRange(v, 1, 256)) : uint32_t(inRange(v, 4096, 4351)));
    p.setUri(v.attr(30));
    using S = QXmppJingleRtpHeaderExtensionProperty;
    p.setSenders(v.t.pick<S::Senders>({ S::Both, S::Initiator, S::Responder }));
    p.setParameters(genSdpParameters(v));
    return p;
}
inline QXmppJinglePayloadType genPayloadType(Vals &v, bool nested)
{
    QXmppJinglePayloadType p;
    p.setId(static_cast<unsigned char>(inRange(v, 0, 127)));
    if (v.t.b())
        p.setName(v.attr(16));
    if (v.t.b()) {
        unsigned char ch = num<unsigned char>(v);
        // (was a FINDING: channels 128..255 rejected by parseInt<uint8_t>(), 0 not written; repaired in /repo by 7019aa3 and 3592ad6,
        // so nested uses keep the whole range 0..255 too)
        (void)nested;
        p.setChannels(ch);
    }
    if (v.t.b())
        p.setClockrate(num<unsigned int>(v));
    if (v.t.b())
        p.setMaxptime(num<unsigned int>(v));
    if (v.t.b())
        p.setPtime(num<unsigned int>(v));
    {
        QMap<QString, QString> m;
        int n = int(v.t.u(4));
        for (int i = 0; i < n; i++) {
            QString k = QStringLiteral("p%1-").arg(i) + v.attr(10);   // distinct keys whatever the generated text is
            m.insert(k, v.t.b() ? v.attr(16) : QString());           // value="" is written and read back as ""
        }
        p.setParameters(m);
    }
    p.setRtpFeedbackProperties(genFbProperties(v));
    p.setRtpFeedbackIntervals(genFbIntervals(v));
    return p;
}
inline QList<QXmppJinglePayloadType> genPayloadTypes(Vals &v, int max)
{
    QList<QXmppJinglePayloadType> l;
    int n = int(v.t.u(uint32_t(max + 1)));
    for (int i = 0; i < n; i++)
        l << genPayloadType(v, true);
    return l;
}
inline QString genDescriptionType(Vals &v)
{
    return v.t.pick<QString>({ "urn:xmpp:jingle:apps:rtp:1", "urn:xmpp:jingle:apps:file-transfer:5", "urn:xmpp:jingle:apps:rtp:0", "urn:example:jingle-app" });
}
inline QXmppJingleDescription genDescription(Vals &v, int maxPayloads = 3)
{
    QXmppJingleDescription x;
    if (v.t.b())
        x.setMedia(v.attr(12));
    if (v.t.b())
        x.setSsrc(num<quint32>(v));   // 0 is "unset" (not written, read back as 0)
    auto pts = genPayloadTypes(v, maxPayloads);
    if (v.t.b()) {
        x.setPayloadTypes(pts);
    } else {
        for (const auto &p : pts)
            x.addPayloadType(p);
    }
    // Payload types belong to the RTP application: setPayloadTypes()/addPayloadType() set the type to urn:xmpp:jingle:apps:rtp:1 themselves
    // (and QXmppJingleIq::Content::parse() goes through addPayloadType()).  Another namespace is only generated without payload types.
    // (First version of this table set an arbitrary type after the payload types: Content::parse() rewrote it to rtp:1 - table error.)
    QString type = genDescriptionType(v);
    if (pts.isEmpty())
        x.setType(type);
    return x;
}
inline QHostAddress genHost(Vals &v)
{
    switch (v.t.u(3)) {
    case 0:
        return QHostAddress();
    case 1:
        return QHostAddress(num<quint32>(v));
    default: {
        QByteArray b = v.t.bytes(16);
        // favour the special shapes: all-zero prefix (v4-mapped / v4-compatible / loopback), zero runs
        switch (v.t.u(5)) {
        case 0:
            for (int i = 0; i < 10; i++)
                b[i] = 0;
            b[10] = b[11] = char(0xff);
            break;
        case 1:
            for (int i = 0; i < 12; i++)
                b[i] = 0;
            break;
        case 2:
            for (int i = 2; i < 14; i++)
                b[i] = 0;
            break;
        case 3:
            for (int i = 0; i < 16; i++)
                b[i] = (i == 15) ? 1 : 0;
            break;
        default:
            break;
        }
        return QHostAddress(reinterpret_cast<const quint8 *>(b.constData()));
    }
    }
}
inline QXmppJingleCandidate genCandidate(Vals &v)
{
    QXmppJingleCandidate c;
    c.setComponent(num<int>(v));
    if (v.t.b())
        c.setFoundation(v.attr(12));
    c.setGeneration(num<int>(v));
    c.setHost(genHost(v));
    if (v.t.b())
        c.setId(v.attr(12));
    c.setNetwork(num<int>(v));
    c.setPort(num<quint16>(v));
    c.setPriority(num<int>(v));
    if (v.t.b())
        c.setProtocol(v.attr(8));
    c.setType(v.t.pick<QXmppJingleCandidate::Type>({ QXmppJingleCandidate::HostType, QXmppJingleCandidate::PeerReflexiveType, QXmppJingleCandidate::ServerReflexiveType, QXmppJingleCandidate::RelayedType }));
    return c;
}
inline QXmppJingleReason genReason(Vals &v, bool allowNone)
{
    using R = QXmppJingleReason;
    QXmppJingleReason r;
    if (allowNone && v.t.prob(1, 4))
        return r;   // None: no reason
    r.setType(v.t.pick<R::Type>({ R::AlternativeSession, R::Busy, R::Cancel, R::ConnectivityError, R::Decline, R::Expired, R::FailedApplication, R::FailedTransport, R::GeneralError,
                                  R::Gone, R::IncompatibleParameters, R::MediaError, R::SecurityError, R::Success, R::Timeout, R::UnsupportedApplications, R::UnsupportedTransports }));
    if (v.t.b())
        r.setText(v.text());
    r.setRtpErrorCondition(v.t.pick<R::RtpErrorCondition>({ R::NoErrorCondition, R::InvalidCrypto, R::CryptoRequired }));
    return r;
}
inline QXmppJingleIq::Content genContent(Vals &v)
{
    QXmppJingleIq::Content c;
    // creator / senders are plain strings in the class; the protocol values are favoured
    {
        QString free = v.attr(12);
        c.setCreator(v.t.pick<QString>({ QStringLiteral("initiator"), QStringLiteral("responder"), free }));
    }
    c.setName(v.attr(16));
    if (v.t.b()) {
        QString free = v.attr(12);
        c.setSenders(v.t.pick<QString>({ QStringLiteral("both"), QStringLiteral("initiator"), QStringLiteral("none"), QStringLiteral("responder"), free }));
    }
    if (v.t.b()) {
        // <description/> and everything that lives inside it
        if (v.t.prob(1, 4)) {
            // deprecated forwarding setters (QXmpp < 1.6 API): no way to set the type, so the description only exists through its
            // payload types (at least one)
            if (v.t.b())
                c.setDescriptionMedia(v.attr(12));
            if (v.t.b())
                c.setDescriptionSsrc(num<quint32>(v));
            QList<QXmppJinglePayloadType> pts;
            int n = 1 + int(v.t.u(2));
            for (int i = 0; i < n; i++)
                pts << genPayloadType(v, true);
            if (v.t.b()) {
                c.setPayloadTypes(pts);
            } else {
                for (const auto &p : pts)
                    c.addPayloadType(p);
            }
        } else {
            c.setDescription(genDescription(v, 2));
        }
        c.setRtpMultiplexingSupported(v.t.b());
        if (v.t.b())
            c.setRtpEncryption(genEncryption(v));
        c.setRtpFeedbackProperties(genFbProperties(v));
        c.setRtpFeedbackIntervals(genFbIntervals(v));
        {
            QVector<QXmppJingleRtpHeaderExtensionProperty> l;
            int n = int(v.t.u(3));
            for (int i = 0; i < n; i++)
                l.push_back(genHdrExt(v));
            c.setRtpHeaderExtensionProperties(l);
        }
        c.setRtpHeaderExtensionMixingAllowed(v.t.b());
    }
    int nc = int(v.t.u(4));
    if (nc > 0) {
        // <transport/> exists only with candidates
        QList<QXmppJingleCandidate> l;
        for (int i = 0; i < nc; i++)
            l << genCandidate(v);
        if (v.t.b()) {
            c.setTransportCandidates(l);
        } else {
            for (const auto &x : l)
                c.addTransportCandidate(x);
        }
        if (v.t.b())
            c.setTransportUser(v.attr(16));
        if (v.t.b())
            c.setTransportPassword(v.attr(24));
        if (v.t.b()) {
            c.setTransportFingerprint(v.bytes(64));
            c.setTransportFingerprintHash(v.attr(10));
            if (v.t.b())
                c.setTransportFingerprintSetup(v.attr(10));
        }
    }
    return c;
}
inline QXmppJingleIq::RtpSessionState genRtpSessionState(Vals &v)
{
    using J = QXmppJingleIq;
    switch (v.t.u(5)) {
    case 0: return J::RtpSessionStateActive {};
    case 1: return J::RtpSessionStateHold {};
    case 2: return J::RtpSessionStateUnhold {};
    case 3: {
        J::RtpSessionStateMuting m;
        m.isMute = v.t.b();
        m.creator = v.t.b() ? J::Initiator : J::Responder;
        if (v.t.b())
            m.name = v.attr(12);
        return m;
    }
    default: return J::RtpSessionStateRinging {};
    }
}
inline QXmppJingleIq genJingleIq(Vals &v)
{
    using J = QXmppJingleIq;
    QXmppJingleIq iq;
    genIqFields(v, iq, { QXmppIq::Get, QXmppIq::Set, QXmppIq::Result });
    iq.setAction(v.t.pick<J::Action>({ J::ContentAccept, J::ContentAdd, J::ContentModify, J::ContentReject, J::ContentRemove, J::DescriptionInfo, J::SecurityInfo, J::SessionAccept,
                                       J::SessionInfo, J::SessionInitiate, J::SessionTerminate, J::TransportAccept, J::TransportInfo, J::TransportReject, J::TransportReplace }));
    if (v.t.b())
        iq.setInitiator(v.jid());
    if (v.t.b())
        iq.setResponder(v.jid());
    if (v.t.b())
        iq.setSid(v.attr(20));
    if (v.t.b())
        iq.setMujiGroupChatJid(v.jid());
    int n = int(v.t.u(3));
    QList<J::Content> cs;
    for (int i = 0; i < n; i++)
        cs << genContent(v);
    if (v.t.b()) {
        iq.setContents(cs);
    } else {
        for (const auto &c : cs)
            iq.addContent(c);
    }
    iq.reason() = genReason(v, true);
    switch (v.t.u(4)) {
    case 0:
        break;
    case 1:
        iq.setRinging(true);   // deprecated; unlike setRtpSessionState() it leaves the action alone
        break;
    default:
        iq.setRtpSessionState(genRtpSessionState(v));   // forces action=SessionInfo
        break;
    }
    return iq;
}
inline QXmppJingleMessageInitiationElement genJmi(Vals &v)
{
    using T = QXmppJingleMessageInitiationElement::Type;
    QXmppJingleMessageInitiationElement j;
    j.setType(v.t.pick<T>({ T::Propose, T::Ringing, T::Proceed, T::Reject, T::Retract, T::Finish }));
    j.setId(v.attr(20));
    switch (j.type()) {
    case T::Propose:
        if (v.t.b())
            j.setDescription(genDescription(v, 2));
        break;
    case T::Reject:
    case T::Retract:
        j.setContainsTieBreak(v.t.b());
        if (v.t.b())
            j.setReason(genReason(v, false));
        break;
    case T::Finish:
        if (v.t.b())
            j.setReason(genReason(v, false));
        if (v.t.b())
            j.setMigratedTo(v.attr(20));
        break;
    default:
        break;
    }
    return j;
}
inline QXmppCallInviteElement::Jingle genCiJingle(Vals &v)
{
    QXmppCallInviteElement::Jingle j;
    j.sid = v.attr(20);
    if (v.t.b())
        j.jid = v.jid();
    return j;
}
inline QXmppCallInviteElement genCallInvite(Vals &v)
{
    using T = QXmppCallInviteElement::Type;
    QXmppCallInviteElement c;
    c.setType(v.t.pick<T>({ T::Invite, T::Retract, T::Accept, T::Reject, T::Left }));
    if (c.type() != T::Invite || v.t.b())
        c.setId(v.attr(20));
    if (c.type() == T::Invite) {
        c.setAudio(v.t.b());
        c.setVideo(v.t.b());
    }
    if (c.type() == T::Invite || c.type() == T::Accept) {
        if (v.t.b())
            c.setJingle(genCiJingle(v));
        if (v.t.b()) {
            QVector<QXmppCallInviteElement::External> ex;
            int n = 1 + int(v.t.u(3));
            for (int i = 0; i < n; i++)
                ex.push_back({ v.attr(30) });
            c.setExternal(ex);
        }
    }
    return c;
}

// ------------------------------------------------------------------------------------------------ Jingle: dumps
inline void dumpSdpParameters(const QVector<QXmppSdpParameter> &l, D &d)
{
    d("sdp.n", int(l.size()));
    for (const auto &p : l) {
        d("sdp.name", p.name());
        d("sdp.value", p.value());
    }
}
inline void dumpCrypto(const QXmppJingleRtpCryptoElement &c, D &d)
{
    d("crypto.tag", c.tag());
    d("crypto.suite", c.cryptoSuite());
    d("crypto.keyParams", c.keyParams());
    d("crypto.sessionParams", c.sessionParams());
}
inline void dumpEncryption(const QXmppJingleRtpEncryption &e, D &d)
{
    d("enc.required", e.isRequired());
    d("enc.n", int(e.cryptoElements().size()));
    for (const auto &c : e.cryptoElements())
        dumpCrypto(c, d);
}
inline void dumpFbProperty(const QXmppJingleRtpFeedbackProperty &p, D &d)
{
    d("fb.type", p.type());
    d("fb.subtype", p.subtype());
    dumpSdpParameters(p.parameters(), d);
}
inline void dumpFbInterval(const QXmppJingleRtpFeedbackInterval &i, D &d) { d("fbint.value", i.value()); }
inline void dumpFb(const QVector<QXmppJingleRtpFeedbackProperty> &ps, const QVector<QXmppJingleRtpFeedbackInterval> &is, D &d)
{
    d("fb.n", int(ps.size()));
    for (const auto &p : ps)
        dumpFbProperty(p, d);
    d("fbint.n", int(is.size()));
    for (const auto &i : is)
        dumpFbInterval(i, d);
}
inline void dumpHdrExt(const QXmppJingleRtpHeaderExtensionProperty &p, D &d)
{
    d("hdrext.id", p.id());
    d("hdrext.uri", p.uri());
    d("hdrext.senders", p.senders());
    dumpSdpParameters(p.parameters(), d);
}
inline void dumpPayloadType(const QXmppJinglePayloadType &p, D &d)
{
    d("pt.id", p.id());
    d("pt.name", p.name());
    d("pt.channels", p.channels());
    d("pt.clockrate", p.clockrate());
    d("pt.maxptime", p.maxptime());
    d("pt.ptime", p.ptime());
    const auto m = p.parameters();
    d("pt.params", int(m.size()));
    for (auto it = m.begin(); it != m.end(); ++it) {
        d("pt.param.k", it.key());
        d("pt.param.v", it.value());
    }
    dumpFb(p.rtpFeedbackProperties(), p.rtpFeedbackIntervals(), d);
}
inline void dumpDescription(const QXmppJingleDescription &x, D &d)
{
    d("desc.type", x.type());
    d("desc.media", x.media());
    d("desc.ssrc", x.ssrc());
    d("desc.payloads", int(x.payloadTypes().size()));
    for (const auto &p : x.payloadTypes())
        dumpPayloadType(p, d);
}
inline void dumpCandidate(const QXmppJingleCandidate &c, D &d)
{
    d("cand.component", c.component());
    d("cand.foundation", c.foundation());
    d("cand.generation", c.generation());
    d("cand.host", c.host().toString());
    d("cand.host.protocol", int(c.host().protocol()));
    d("cand.id", c.id());
    d("cand.network", c.network());
    d("cand.port", c.port());
    d("cand.priority", c.priority());
    d("cand.protocol", c.protocol());
    d("cand.type", c.type());
    d("cand.isNull", c.isNull());
}
inline void dumpReason(const QXmppJingleReason &r, D &d)
{
    d("reason.type", r.type());
    d("reason.text", r.text());
    d("reason.rtpError", r.rtpErrorCondition());
}
inline void dumpContent(const QXmppJingleIq::Content &c, D &d)
{
    d("content.creator", c.creator());
    d("content.name", c.name());
    d("content.senders", c.senders());
    dumpDescription(c.description(), d);
    d("content.legacy.media", c.descriptionMedia());
    d("content.legacy.ssrc", c.descriptionSsrc());
    d("content.legacy.payloads", int(c.payloadTypes().size()));
    d("content.rtcpMux", c.isRtpMultiplexingSupported());
    d("content.encryption", c.rtpEncryption().has_value());
    if (c.rtpEncryption())
        dumpEncryption(*c.rtpEncryption(), d);
    dumpFb(c.rtpFeedbackProperties(), c.rtpFeedbackIntervals(), d);
    d("content.hdrext.n", int(c.rtpHeaderExtensionProperties().size()));
    for (const auto &p : c.rtpHeaderExtensionProperties())
        dumpHdrExt(p, d);
    d("content.hdrextMixed", c.isRtpHeaderExtensionMixingAllowed());
    d("content.candidates", int(c.transportCandidates().size()));
    for (const auto &x : c.transportCandidates())
        dumpCandidate(x, d);
    d("content.ufrag", c.transportUser());
    d("content.pwd", c.transportPassword());
    d("content.fingerprint", c.transportFingerprint());
    d("content.fingerprintHash", c.transportFingerprintHash());
    d("content.fingerprintSetup", c.transportFingerprintSetup());
}
inline void dumpRtpSessionState(const std::optional<QXmppJingleIq::RtpSessionState> &s, D &d)
{
    d("rtpState", s ? int(s->index()) : -1);
    if (s) {
        if (auto m = std::get_if<QXmppJingleIq::RtpSessionStateMuting>(&*s)) {
            d("rtpState.isMute", m->isMute);
            d("rtpState.creator", m->creator);
            d("rtpState.name", m->name);
        }
    }
}
inline void dumpJingleIq(const QXmppJingleIq &iq, D &d)
{
    dumpIqFields(iq, d);
    d("action", iq.action());
    d("initiator", iq.initiator());
    d("responder", iq.responder());
    d("sid", iq.sid());
    d("muji", iq.mujiGroupChatJid());
    d("contents", int(iq.contents().size()));
    for (const auto &c : iq.contents())
        dumpContent(c, d);
    dumpReason(iq.reason(), d);
    dumpRtpSessionState(iq.rtpSessionState(), d);
    d("ringing", iq.ringing());
}
inline void dumpJmi(const QXmppJingleMessageInitiationElement &j, D &d)
{
    d("type", j.type());
    d("id", j.id());
    d("description", j.description().has_value());
    if (j.description())
        dumpDescription(*j.description(), d);
    d("reason", j.reason().has_value());
    if (j.reason())
        dumpReason(*j.reason(), d);
    d("tieBreak", j.containsTieBreak());
    d("migratedTo", j.migratedTo());
}
inline void dumpCiJingle(const QXmppCallInviteElement::Jingle &j, D &d)
{
    d("jingle.sid", j.sid);
    d("jingle.jid", j.jid);
}
inline void dumpCallInvite(const QXmppCallInviteElement &c, D &d)
{
    d("type", c.type());
    d("id", c.id());
    d("audio", c.audio());
    d("video", c.video());
    d("jingle", c.jingle().has_value());
    if (c.jingle())
        dumpCiJingle(*c.jingle(), d);
    const auto ext = c.external();
    d("external", ext.has_value());
    if (ext) {
        d("external.n", int(ext->size()));
        for (const auto &e : *ext)
            d("external.uri", e.uri);
    }
}

// ------------------------------------------------------------------------------------------------ file sharing: generators
inline QXmpp::HashAlgorithm genHashAlgorithm(Vals &v)
{
    using A = QXmpp::HashAlgorithm;
    return v.t.pick<A>({ A::Unknown, A::Md2, A::Md5, A::Shake128, A::Shake256, A::Sha1, A::Sha224, A::Sha256, A::Sha384, A::Sha512, A::Sha3_256, A::Sha3_512, A::Blake2b_256, A::Blake2b_512 });
}
inline QXmppHash genHashFull(Vals &v)
{
    QXmppHash h;
    h.setAlgorithm(genHashAlgorithm(v));
    h.setHash(v.bytes(64));
    return h;
}
inline QVector<QXmppHash> genHashes(Vals &v, int max = 2)
{
    QVector<QXmppHash> l;
    int n = int(v.t.u(uint32_t(max + 1)));
    for (int i = 0; i < n; i++)
        l.push_back(genHashFull(v));
    return l;
}
inline QXmppThumbnail genThumbFull(Vals &v)
{
    QXmppThumbnail th;
    th.setUri(v.attr(40));
    if (v.t.b())
        th.setMediaType(genMime(v, { "image/png", "image/jpeg", "image/gif", "image/svg+xml" }));
    if (v.t.b())
        th.setWidth(num<uint32_t>(v));
    if (v.t.b())
        th.setHeight(num<uint32_t>(v));
    return th;
}
inline QXmppHttpFileSource genHttpSourceFull(Vals &v)
{
    QUrl u;
    u.setScheme(v.t.pick<QString>({ "https", "http" }));
    u.setHost(v.t.pick<QString>({ "files.example.org", "upload.example.com", "xn--exmple-cua.org", "[2001:db8::1]", "192.0.2.7" }));
    if (v.t.b())
        u.setPort(int(inRange(v, 1, 65535)));
    u.setPath(QStringLiteral("/f/") + v.attr(16), QUrl::DecodedMode);
    if (v.t.b()) {
        QUrlQuery q;
        q.addQueryItem(QStringLiteral("k"), v.attr(12));
        u.setQuery(q);
    }
    return QXmppHttpFileSource(u);
}
inline QVector<QXmppHttpFileSource> genHttpSources(Vals &v, int max = 2)
{
    QVector<QXmppHttpFileSource> l;
    int n = int(v.t.u(uint32_t(max + 1)));
    for (int i = 0; i < n; i++)
        l.push_back(genHttpSourceFull(v));
    return l;
}
inline QXmppEncryptedFileSource genEncSourceFull(Vals &v)
{
    QXmppEncryptedFileSource e;
    e.setCipher(v.t.pick<QXmpp::Cipher>({ QXmpp::Aes128GcmNoPad, QXmpp::Aes256GcmNoPad, QXmpp::Aes256CbcPkcs7 }));
    e.setKey(v.bytes(32));
    e.setIv(v.bytes(16));
    e.setHashes(genHashes(v));
    e.setHttpSources(genHttpSources(v));
    return e;
}
inline QXmppFileMetadata genMetadataFull(Vals &v)
{
    QXmppFileMetadata md;
    if (v.t.b())
        md.setLastModified(gen::dateTime(v.t));
    if (v.t.b())
        md.setDescription(v.text(30));
    md.setHashes(genHashes(v));
    if (v.t.b())
        md.setHeight(num<uint32_t>(v));
    if (v.t.b())
        md.setLength(num<uint32_t>(v));
    if (v.t.b())
        md.setMediaType(genMime(v, { "image/png", "text/plain", "application/pdf", "video/mp4", "application/octet-stream", "audio/ogg" }));
    if (v.t.b())
        md.setFilename(v.text(20));
    if (v.t.b())
        md.setSize(num<uint64_t>(v));
    {
        QVector<QXmppThumbnail> l;
        int n = int(v.t.u(3));
        for (int i = 0; i < n; i++)
            l.push_back(genThumbFull(v));
        md.setThumbnails(l);
    }
    if (v.t.b())
        md.setWidth(num<uint32_t>(v));
    return md;
}
inline QXmppFileShare genFileShare(Vals &v)
{
    QXmppFileShare f;
    f.setDisposition(v.t.b() ? QXmppFileShare::Inline : QXmppFileShare::Attachment);
    if (v.t.b())
        f.setId(v.attr(16));
    f.setMetadata(genMetadataFull(v));
    auto hs = genHttpSources(v);
    QVector<QXmppEncryptedFileSource> es;
    {
        int n = int(v.t.u(3));
        for (int i = 0; i < n; i++)
            es.push_back(genEncSourceFull(v));
    }
    f.setHttpSources(hs);   // addSource() is protected
    f.setEncryptedSourecs(es);
    return f;
}
inline QXmppBitsOfBinaryContentId genCid(Vals &v)
{
    using H = QCryptographicHash;
    QXmppBitsOfBinaryContentId cid;
    auto algo = v.t.pick<H::Algorithm>({ H::Sha1, H::Md4, H::Md5, H::Sha224, H::Sha256, H::Sha384, H::Sha512, H::Sha3_224, H::Sha3_256, H::Sha3_384, H::Sha3_512 });
    cid.setAlgorithm(algo);
    cid.setHash(v.t.bytes(uint32_t(H::hashLength(algo))));
    return cid;
}
// QXmppBitsOfBinaryData: parse()/toXml() are named parseElementFromChild()/toXmlElementFromChild()
struct BobData {
    QXmppBitsOfBinaryData x;
    void parse(const QDomElement &el) { x.parseElementFromChild(el); }
    void toXml(QXmlStreamWriter *w) const { x.toXmlElementFromChild(w); }
};
inline BobData genBobData(Vals &v)
{
    BobData b;
    if (v.t.b()) {
        b.x = QXmppBitsOfBinaryData::fromByteArray(v.bytes(60));   // cid = SHA-1 of the data
    } else {
        if (v.t.b())
            b.x.setCid(genCid(v));   // else: no cid (an invalid content id serialises to no attribute)
        if (v.t.b())
            b.x.setData(v.bytes(60));
    }
    if (v.t.b())
        b.x.setMaxAge(int(inRange(v, 0, 2147483647)));
    if (v.t.b())
        b.x.setContentType(genMime(v, { "image/png", "text/plain", "image/jpeg", "application/octet-stream" }));
    return b;
}

// ------------------------------------------------------------------------------------------------ file sharing: dumps
inline void dumpHash(const QXmppHash &h, D &d)
{
    d("hash.algo", h.algorithm());
    d("hash.value", h.hash());
}
inline void dumpThumb(const QXmppThumbnail &t, D &d)
{
    d("thumb.uri", t.uri());
    dumpMime("thumb.mediaType", t.mediaType(), d);
    d("thumb.width", t.width());
    d("thumb.height", t.height());
}
inline void dumpHttpSource(const QXmppHttpFileSource &s, D &d)
{
    d("http.url", s.url());
    d("http.url.valid", s.url().isValid());
}
inline void dumpEncSource(const QXmppEncryptedFileSource &e, D &d)
{
    d("enc.cipher", e.cipher());
    d("enc.key", e.key());
    d("enc.iv", e.iv());
    d("enc.hashes", int(e.hashes().size()));
    for (const auto &h : e.hashes())
        dumpHash(h, d);
    d("enc.sources", int(e.httpSources().size()));
    for (const auto &s : e.httpSources())
        dumpHttpSource(s, d);
}
inline void dumpMetadata(const QXmppFileMetadata &m, D &d)
{
    d("meta.date", m.lastModified());
    d("meta.desc", m.description());
    d("meta.hashes", int(m.hashes().size()));
    for (const auto &h : m.hashes())
        dumpHash(h, d);
    d("meta.height", m.height());
    d("meta.length", m.length());
    d("meta.mediaType", m.mediaType().has_value());
    if (m.mediaType())
        dumpMime("meta.mediaType.name", *m.mediaType(), d);
    d("meta.name", m.filename());
    d("meta.size", m.size());
    d("meta.thumbs", int(m.thumbnails().size()));
    for (const auto &t : m.thumbnails())
        dumpThumb(t, d);
    d("meta.width", m.width());
}
inline void dumpFileShare(const QXmppFileShare &f, D &d)
{
    d("share.disposition", f.disposition());
    d("share.id", f.id());
    dumpMetadata(f.metadata(), d);
    d("share.http", int(f.httpSources().size()));
    for (const auto &s : f.httpSources())
        dumpHttpSource(s, d);
    d("share.encrypted", int(f.encryptedSources().size()));
    for (const auto &e : f.encryptedSources())
        dumpEncSource(e, d);
}
inline void dumpBobData(const BobData &b, D &d)
{
    d("bob.cid.algo", b.x.cid().algorithm());
    d("bob.cid.hash", b.x.cid().hash());
    d("bob.cid.valid", b.x.cid().isValid());
    d("bob.cid.contentId", b.x.cid().toContentId());
    d("bob.cid.url", b.x.cid().toCidUrl());
    d("bob.maxAge", b.x.maxAge());
    dumpMime("bob.type", b.x.contentType(), d);
    d("bob.data", b.x.data());
}

}   // namespace media

inline void registerMedia()
{
    using namespace media;

    // ---- XEP-0167 / 0293 / 0294 building blocks
    add<QXmppSdpParameter>("QXmppSdpParameter", genSdpParameter, [](const QXmppSdpParameter &p, D &d) {
        d("name", p.name());
        d("value", p.value());
    });
    add<QXmppJingleRtpCryptoElement>("QXmppJingleRtpCryptoElement", genCrypto, dumpCrypto);
    add<QXmppJingleRtpEncryption>("QXmppJingleRtpEncryption", genEncryption, dumpEncryption);
    add<QXmppJingleRtpFeedbackProperty>("QXmppJingleRtpFeedbackProperty", genFbProperty, dumpFbProperty);
    add<QXmppJingleRtpFeedbackInterval>("QXmppJingleRtpFeedbackInterval", [](Vals &v) { return genFbInterval(v, false); }, dumpFbInterval);
    add<QXmppJingleRtpHeaderExtensionProperty>("QXmppJingleRtpHeaderExtensionProperty", genHdrExt, dumpHdrExt);
    add<QXmppJinglePayloadType>("QXmppJinglePayloadType", [](Vals &v) { return genPayloadType(v, false); }, dumpPayloadType);
    add<QXmppJingleDescription>("QXmppJingleDescription", [](Vals &v) { return genDescription(v); }, dumpDescription);
    add<QXmppJingleCandidate>("QXmppJingleCandidate", genCandidate, dumpCandidate);
    add<QXmppJingleReason>("QXmppJingleReason", [](Vals &v) { return genReason(v, false); }, dumpReason);
    // ---- XEP-0166
    add<QXmppJingleIq::Content>("QXmppJingleIq::Content", genContent, dumpContent);
    add<QXmppJingleIq>("QXmppJingleIq", genJingleIq, dumpJingleIq);
    // ---- XEP-0353, XEP-0482
    add<QXmppJingleMessageInitiationElement>("QXmppJingleMessageInitiationElement", genJmi, dumpJmi);
    add<QXmppCallInviteElement>("QXmppCallInviteElement", genCallInvite, dumpCallInvite);
    add<QXmppCallInviteElement::Jingle>("QXmppCallInviteElement::Jingle", genCiJingle, dumpCiJingle);
    // ---- file sharing
    // FINDING (QXmppHash, QXmppHashUsed): toXml() calls writeDefaultNamespace() BEFORE writeStartElement() (QXmppHash.cpp:133-134, 174-175).
    // While the parent's start tag is still open the declaration is written onto the PARENT: stand-alone, the wrapper element gets it and the
    // class's parser is handed the wrong element (signature "own-output-rejected"); inside <file/> without <date/>/<desc/> the parent gets a
    // second xmlns attribute (<file xmlns="urn:xmpp:file:metadata:0" xmlns="urn:xmpp:hashes:2">), which is not well-formed XML for expat/libxml2
    // although both Qt parsers accept it (so the oracle's well-formedness test does not see it).  Hash fields are still compared through
    // QXmppFileMetadata / QXmppEncryptedFileSource.  QXmppHashUsed::parse() additionally returns false on every input (QXmppHash.cpp:169).
    add<QXmppHash>("QXmppHash", genHashFull, dumpHash);
    add<QXmppHashUsed>("QXmppHashUsed", [](Vals &v) { return QXmppHashUsed(genHashAlgorithm(v)); }, [](const QXmppHashUsed &h, D &d) { d("algo", h.algorithm()); });
    add<QXmppThumbnail>("QXmppThumbnail", genThumbFull, dumpThumb);
    add<QXmppHttpFileSource>("QXmppHttpFileSource", genHttpSourceFull, dumpHttpSource);
    add<QXmppEncryptedFileSource>("QXmppEncryptedFileSource", genEncSourceFull, dumpEncSource);
    add<QXmppFileMetadata>("QXmppFileMetadata", genMetadataFull, dumpMetadata);
    add<QXmppFileShare>("QXmppFileShare", genFileShare, dumpFileShare);
    add<BobData>("QXmppBitsOfBinaryData", genBobData, dumpBobData);
    add<QXmppOutOfBandUrl>(
        "QXmppOutOfBandUrl",
        [](Vals &v) {
            QXmppOutOfBandUrl u;
            u.setUrl(v.text(40));
            if (v.t.b())
                u.setDescription(v.text(30));
            return u;
        },
        [](const QXmppOutOfBandUrl &u, D &d) {
            d("url", u.url());
            d("desc", u.description());
        });
}

}   // namespace og
