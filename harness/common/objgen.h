// Object-first codec tables (C01): for one class each entry builds an object from the tape (every optional field
// present or absent by a tape choice, every free-text field through msggen::Vals so that a benign twin with the same
// structure can be rebuilt from the same tape, typed fields over their lexical range with the type bounds favoured),
// serialises it, parses the bytes back with the class's own parser into a FRESH object and dumps every public getter of
// both objects.  The generic oracle lives in c01_codec.cpp (c01.objects).
//
// Rules for entries (they are what makes the check sound):
//   * generate only values the class documents as representable: free text is non-blank at its edges, JIDs are JIDs,
//     enums only take declared enumerators, "unset" is expressed the way the class's own default expresses it;
//   * a field the class documents as not serialised (or only serialised together with another one) is either not set or
//     set together with what it needs - the entry says so in a comment;
//   * the dump lists every public getter (nested objects through their own serialisation), sets are dumped sorted;
//   * nothing here looks at the XML: the oracle is the getters.
#pragma once

#include "msggen.h"

#include <QUuid>
#include <functional>
#include <optional>
#include <type_traits>

namespace og {

using msggen::Vals;
using vh::Tape;

struct Outcome {
    QByteArray xml;          // serialisation of the generated object
    QStringList before;      // getter dump of the generated object
    bool reparsed = false;   // the class's own parser accepted `xml`
    QStringList after;       // getter dump of the re-parsed object
    QByteArray xml2;         // serialisation of the re-parsed object
};

struct Entry {
    const char *name;
    std::function<void(Vals &, Outcome &)> run;
};

inline std::vector<Entry> &registry()
{
    static std::vector<Entry> r;
    return r;
}

// ---- getter dump helper
struct D {
    QStringList l;
    void add(const char *k, const QString &v) { l << QString::fromLatin1(k) + QLatin1Char('=') + v; }
    void operator()(const char *k, const QString &v) { add(k, v); }
    void operator()(const char *k, const char *v) { add(k, QString::fromUtf8(v)); }
    void operator()(const char *k, const QByteArray &v) { add(k, QStringLiteral("hex:") + QString::fromLatin1(v.toHex())); }
    void operator()(const char *k, bool v) { add(k, v ? QStringLiteral("true") : QStringLiteral("false")); }
    void operator()(const char *k, const QDateTime &v) { add(k, v.isValid() ? QString::number(v.toMSecsSinceEpoch()) : QStringLiteral("invalid")); }
    void operator()(const char *k, const QDate &v) { add(k, v.isValid() ? v.toString(Qt::ISODate) : QStringLiteral("invalid")); }
    void operator()(const char *k, const QUrl &v) { add(k, v.toString(QUrl::FullyEncoded)); }
    void operator()(const char *k, const QUuid &v) { add(k, v.toString()); }
    void operator()(const char *k, const QStringList &v) { add(k, QStringLiteral("[") + v.join(QStringLiteral("\x1f")) + QStringLiteral("]")); }
    template<typename I, std::enable_if_t<std::is_integral_v<I> && !std::is_same_v<I, bool>, int> = 0>
    void operator()(const char *k, I v)
    {
        if constexpr (std::is_signed_v<I>)
            add(k, QString::number(qlonglong(v)));
        else
            add(k, QString::number(qulonglong(v)));
    }
    template<typename E, std::enable_if_t<std::is_enum_v<E>, int> = 0>
    void operator()(const char *k, E v) { add(k, QStringLiteral("enum:") + QString::number(qlonglong(v))); }
    void operator()(const char *k, double v) { add(k, QString::number(v, 'g', 17)); }
    template<typename T>
    void operator()(const char *k, const std::optional<T> &v)
    {
        if (v)
            (*this)(k, *v);
        else
            add(k, QStringLiteral("<none>"));
    }
    template<typename T>
    void operator()(const char *k, const QList<T> &v)
    {
        add(k, QStringLiteral("#") + QString::number(v.size()));
        for (const auto &x : v)
            (*this)(k, x);
    }
    template<typename T>
    void operator()(const char *k, const std::vector<T> &v)
    {
        add(k, QStringLiteral("#") + QString::number(v.size()));
        for (const auto &x : v)
            (*this)(k, x);
    }
    // nested object with its own serialisation
    template<typename T>
    void xml(const char *k, const T &x) { add(k, msggen::xmlOf(x)); }
    template<typename T>
    void xml(const char *k, const std::optional<T> &x)
    {
        if (x)
            add(k, msggen::xmlOf(*x));
        else
            add(k, QStringLiteral("<none>"));
    }
    void sortedSet(const char *k, QStringList v)
    {
        v.sort();
        (*this)(k, v);
    }
};

// ---- parse dispatch: static fromDom() -> optional, bool parse(dom), void parse(dom)
template<typename T, typename = void>
struct HasFromDom : std::false_type { };
template<typename T>
struct HasFromDom<T, std::void_t<decltype(T::fromDom(std::declval<const QDomElement &>()))>> : std::true_type { };

template<typename T>
inline std::optional<T> parseFresh(const QDomElement &el)
{
    if constexpr (HasFromDom<T>::value) {
        return T::fromDom(el);
    } else {
        T x;
        if constexpr (std::is_same_v<decltype(x.parse(el)), bool>) {
            if (!x.parse(el))
                return std::nullopt;
        } else {
            x.parse(el);
        }
        return x;
    }
}

// serialise inside a throw-away parent (QXmlStreamWriter completes an empty element only at the next token)
template<typename T>
inline QByteArray serWrapped(const T &x)
{
    QByteArray out;
    {
        QXmlStreamWriter w(&out);
        w.writeStartElement(QStringLiteral("verif-wrap"));
        x.toXml(&w);
        w.writeEndElement();
    }
    static const QByteArray open = "<verif-wrap>", close = "</verif-wrap>";
    if (out == "<verif-wrap/>")
        return {};
    if (out.startsWith(open) && out.endsWith(close))
        return out.mid(open.size(), out.size() - open.size() - close.size());
    return out;
}

// Standard entry: build(Vals&) -> T, dump(const T&, D&)
template<typename T, typename Build, typename Dump>
inline void add(const char *name, Build build, Dump dump)
{
    registry().push_back({ name, [=](Vals &v, Outcome &o) {
                              T obj = build(v);
                              {
                                  D d;
                                  dump(obj, d);
                                  o.before = d.l;
                              }
                              o.xml = serWrapped(obj);
                              auto p = xu::parseFragment(o.xml);
                              if (!p.ok())
                                  return;
                              auto back = parseFresh<T>(p.el);
                              if (!back)
                                  return;
                              o.reparsed = true;
                              {
                                  D d;
                                  dump(*back, d);
                                  o.after = d.l;
                              }
                              o.xml2 = serWrapped(*back);
                          } });
}

// small generator helpers shared by the tables
template<typename I>
inline I num(Vals &v) { return gen::intAtBounds<I>(v.t); }
inline QStringList tokenList(Vals &v, int max = 3)
{
    QStringList l;
    int n = int(v.t.u(uint32_t(max + 1)));
    for (int i = 0; i < n; i++)
        l << v.attr(12);
    return l;
}

void registerStreamNonzas();   // objgen_stream.h
void registerAll();            // objgen_all.h

}   // namespace og
