// C11 — carbon copies are trusted only when they come from the user's own account (DESIGN.md C11).
// History of 1..4 deliveries to one client (optionally switching the configured account in between, as the
// library allows); each delivery = outer sender x sent/received wrapper (right/wrong namespace) x generated inner
// message x decorations, with the V1 manager, the V2 manager, or both in either order installed.
// Oracle: outer from != current own bare JID (exact) -> nothing presented is flagged as carbon-forwarded and no
// presented message carries the inner message's sender/recipient/body as its own; outer from == own bare JID and a
// well-formed wrapper -> exactly one presentation per observer, equal (getter dump) to the inner message, flagged.
#include "msggen.h"
#include "tc.h"

#include "QXmppMessageHandler.h"

using vh::Ctx;
using vh::Tape;

static std::string q(const QString &s) { return vh::s(s); }

class Recorder : public QXmppClientExtension, public QXmppMessageHandler
{
public:
    QVector<QXmppMessage> seen;
    bool handleMessage(const QXmppMessage &m) override
    {
        seen.push_back(m);
        return false;
    }
};

struct Observed {
    QVector<QXmppMessage> handler, signal, v1sent, v1received;
    int total() const { return handler.size() + signal.size() + v1sent.size() + v1received.size(); }
    QVector<QXmppMessage> all() const { return handler + signal + v1sent + v1received; }
};

VCHECK("c11.carbons", 1400)
{
    TestClient::resetIdCounter();
    TestClient client(QXmppClient::NoExtensions);
    int setup = int(t.u(4));   // 0 V1, 1 V2, 2 V1 then V2, 3 V2 then V1
    QXmppCarbonManager *v1 = nullptr;
    if (setup == 0 || setup == 2)
        v1 = client.addNewExtension<QXmppCarbonManager>();
    if (setup != 0)
        client.addNewExtension<QXmppCarbonManagerV2>();
    if (setup == 3)
        v1 = client.addNewExtension<QXmppCarbonManager>();
    auto *rec = client.addNewExtension<Recorder>();
    Observed obs;
    QObject::connect(&client, &QXmppClient::messageReceived, [&](const QXmppMessage &m) { obs.signal.push_back(m); });
    if (v1) {
        QObject::connect(v1, &QXmppCarbonManager::messageSent, [&](const QXmppMessage &m) { obs.v1sent.push_back(m); });
        QObject::connect(v1, &QXmppCarbonManager::messageReceived, [&](const QXmppMessage &m) { obs.v1received.push_back(m); });
    }
    client.setAuthenticated(true);
    client.enableSm(true);
    client.openSession();
    client.pump(1);
    client.take();

    QStringList accounts = { QStringLiteral("alice@example.org/phone") };
    std::string history = std::string("managers=") + (setup == 0 ? "V1" : setup == 1 ? "V2" : setup == 2 ? "V1,V2" : "V2,V1");
    int steps = 1 + int(t.u(4));
    bool anyNear = false;
    for (int step = 0; step < steps; step++) {
        // optionally switch the account this client is configured for
        if (step > 0 && t.prob(1, 3)) {
            static const QStringList others = { "carol@new.example/tab", "alice@example.com/phone", "bob@example.org/phone", "alice@example.org/laptop" };
            QString nj = others[int(t.u(uint32_t(others.size())))];
            client.configuration().setJid(nj);
            accounts << nj;
            history += " | switch-account(" + q(nj) + ")";
        }
        const QString ownFull = client.configuration().jid();
        const QString ownBare = client.configuration().jidBare();
        const QString local = ownBare.section(u'@', 0, 0), domain = ownBare.section(u'@', 1);

        // inner message with attributable tokens
        msggen::Vals v { t, msggen::Tokens };
        v.counter = 1000 * (step + 1);
        v.forbidMask = (1ull << msggen::XE2eeFallbackBody) | (1ull << msggen::XXhtml);
        auto g = msggen::genMessage(v);
        QXmppMessage inner = g.m;
        if (inner.from().isEmpty())
            inner.setFrom(QStringLiteral("romeo@montague.example/orchard"));
        if (inner.to().isEmpty())
            inner.setTo(QStringLiteral("juliet@capulet.example/balcony"));
        if (inner.body().isEmpty())
            inner.setBody(QStringLiteral("INNERBODY%1").arg(step));
        const QString innerXml = QString::fromUtf8(xu::ser(inner));

        // outer sender
        QString from;
        bool fromAbsent = false;
        std::string fromKind;
        switch (t.u(16)) {
        case 0:
        case 1:
        case 2:
        case 3: from = ownBare; fromKind = "own-bare"; break;
        case 4: from = ownFull; fromKind = "own-full"; break;
        case 5: from = ownBare + QStringLiteral("/other-resource"); fromKind = "own-other-resource"; break;
        case 6: from = local.left(1).toUpper() + local.mid(1) + u'@' + domain; fromKind = "case-variant-local"; break;
        case 7: from = local + u'@' + domain.toUpper(); fromKind = "case-variant-domain"; break;
        case 8: from = ownBare + t.pick<QString>({ ".", " ", "/", "\t" }); fromKind = "own-bare-plus-trailing-char"; break;
        case 9: from = t.pick<QString>({ ownBare + ".evil.net", ownBare + "x", "x" + ownBare, local + "@" + domain + ".", QString::fromUtf8("\xD0\xB0") + local.mid(1) + "@" + domain, local + "@sub." + domain }); fromKind = "look-alike"; break;
        case 10: from = QString(); fromKind = "empty"; break;
        case 11: fromAbsent = true; fromKind = "absent"; break;
        case 12: from = QStringLiteral("mallory@evil.example/x"); fromKind = "stranger"; break;
        case 13: from = inner.from(); fromKind = "inner-sender"; break;
        case 14: from = accounts.size() > 1 ? accounts[int(t.u(uint32_t(accounts.size() - 1)))].section(u'/', 0, 0) : domain; fromKind = accounts.size() > 1 ? "previous-account-bare" : "own-domain"; break;
        case 15: from = domain; fromKind = "own-domain"; break;
        }
        bool authorised = !fromAbsent && from == ownBare;
        if (fromKind != "stranger" && fromKind != "inner-sender")
            anyNear = true;

        bool sentKind = t.b();
        bool rightNs = !t.prob(1, 8);
        int deco = int(t.u(8));   // 0-2 none, 3 payload before, 4 payload after, 5 <private/> first, 6 two <forwarded/>, 7 nested carbon inside inner
        QString innerForWrapper = innerXml;
        if (deco == 7) {
            // the forwarded message itself carries a carbon wrapper
            innerForWrapper.replace(QStringLiteral("</message>"),
                                    QStringLiteral("<received xmlns='urn:xmpp:carbons:2'><forwarded xmlns='urn:xmpp:forward:0'><message xmlns='jabber:client' from='deep@nested.example' to='x@y.example'><body>NESTEDBODY</body></message></forwarded></received></message>"));
        }
        QString wrapperNs = rightNs ? QStringLiteral("urn:xmpp:carbons:2") : t.pick<QString>({ "urn:xmpp:carbons:1", "urn:xmpp:carbons", "jabber:client" });
        QString fwd = QStringLiteral("<forwarded xmlns='urn:xmpp:forward:0'>") + innerForWrapper.replace(QStringLiteral("<message "), QStringLiteral("<message xmlns='jabber:client' ")) + QStringLiteral("</forwarded>");
        if (deco == 6)
            fwd += QStringLiteral("<forwarded xmlns='urn:xmpp:forward:0'><message xmlns='jabber:client' from='second@forwarded.example'><body>SECONDFORWARDED</body></message></forwarded>");
        QString wrapper = QStringLiteral("<%1 xmlns='%2'>%3</%1>").arg(sentKind ? QStringLiteral("sent") : QStringLiteral("received"), wrapperNs, fwd);
        // the outer addressee is under the sender's control as well
        QString outerTo = ownFull;
        bool toAbsent = false;
        std::string toKind = "own-full";
        switch (t.weighted({ 6, 1, 1, 2, 2, 1 })) {
        case 1: outerTo = ownBare; toKind = "own-bare"; break;
        case 2: toAbsent = true; toKind = "absent"; break;
        case 3: outerTo = fromAbsent ? ownFull : from; toKind = "same-as-from"; break;
        case 4: outerTo = fromAbsent ? ownFull : from.section(u'/', 0, 0) + QStringLiteral("/x"); toKind = "bare-of-from-plus-resource"; break;
        case 5: outerTo = QStringLiteral("mallory@evil.example/x"); toKind = "stranger"; break;
        default: break;
        }
        QString outer = QStringLiteral("<message type='chat'");
        if (!toAbsent)
            outer += QStringLiteral(" to=\"%1\"").arg(outerTo.toHtmlEscaped());
        if (!fromAbsent)
            outer += QStringLiteral(" from=\"%1\"").arg(from.toHtmlEscaped());
        outer += u'>';
        if (deco == 3)
            outer += QStringLiteral("<body>OUTERBODY</body>");
        if (deco == 5)
            outer += QStringLiteral("<private xmlns='urn:xmpp:carbons:2'/>");
        outer += wrapper;
        if (deco == 4)
            outer += QStringLiteral("<body>OUTERBODY</body><thread>outer-thread</thread>");
        outer += QStringLiteral("</message>");
        history += " | deliver(from=" + fromKind + ",to=" + toKind + "," + (sentKind ? "sent" : "received") + (rightNs ? "" : ",wrong-ns") + ",deco=" + std::to_string(deco) + ",exts={" + g.desc + "})";

        obs = Observed();
        rec->seen.clear();
        c.require(client.injectXml(outer), "c11 harness-outer-malformed", "outer stanza not well-formed: " + q(outer));
        client.pump(1);
        obs.handler = rec->seen;
        c.label("from:" + fromKind);
        c.label("to:" + toKind);
        c.label(authorised && rightNs ? "authorised" : "not-authorised");

        const bool shouldUnwrap = authorised && rightNs;
        if (!shouldUnwrap) {
            for (const auto &m : obs.all()) {
                c.require(!m.isCarbonForwarded(), "c11 forged-carbon-unwrapped " + fromKind + (rightNs ? "" : " wrong-ns"), [&] {
                    return "a carbon wrapper from '" + q(from) + "' (own bare JID is '" + q(ownBare) + "') was unwrapped and presented as carbon-forwarded\n outer=" + q(outer.left(1500)) + "\n history: " + history;
                });
                bool innerAsOwn = m.body() == inner.body() || (m.from() == inner.from() && !authorised && from != inner.from()) || (m.to() == inner.to() && (toAbsent || inner.to() != outerTo));   // (the outer stanza's own addressee may coincide with the inner one)
                c.require(!innerAsOwn, "c11 forged-carbon-inner-presented " + fromKind, [&] {
                    return "a message presented to the application carries the inner (forwarded) message's body/sender/recipient as its own although the wrapper came from '" + q(from) + "'\n presented: from=" +
                        q(m.from()) + " to=" + q(m.to()) + " body=" + q(m.body()) + "\n history: " + history;
                });
            }
            c.require(obs.v1sent.isEmpty() && obs.v1received.isEmpty(), "c11 forged-carbon-v1-signal " + fromKind, "V1 manager emitted a carbon signal for a wrapper from '" + q(from) + "'; history: " + history);
        } else {
            // expected presentation: the inner message, flagged
            QXmppMessage expect;
            {
                auto p = xu::parseFragment(deco == 7 ? innerForWrapper.replace(QStringLiteral("<message xmlns='jabber:client' "), QStringLiteral("<message ")) : innerXml);
                // parse exactly what was forwarded
                auto pw = xu::parseFragment(outer);
                QDomElement wrapperEl = pw.el.firstChildElement(sentKind ? QStringLiteral("sent") : QStringLiteral("received"));
                QDomElement msgEl = wrapperEl.firstChildElement(QStringLiteral("forwarded")).firstChildElement(QStringLiteral("message"));
                expect.parse(msgEl);
                expect.setCarbonForwarded(true);
            }
            QStringList want = msggen::dump(expect);
            // The statement is one-directional ("unwrapped ... only if"): a decorated genuine wrapper that is left alone is
            // not a violation.  What is presented as a carbon must be exactly the inner message, once per observer, and
            // then the outer stanza must not be presented as well.  The plain wrapper (no decoration) must be unwrapped:
            // a manager that unwraps nothing would satisfy everything else vacuously.
            QVector<QXmppMessage> flagged, unflagged;
            for (const auto &m : obs.all())
                (m.isCarbonForwarded() ? flagged : unflagged).push_back(m);
            for (auto *channel : { &obs.handler, &obs.signal, &obs.v1sent, &obs.v1received }) {
                int n = 0;
                for (const auto &m : *channel)
                    n += m.isCarbonForwarded();
                c.require(n <= 1, "c11 genuine-carbon-presented-twice", [&] { return "one observer saw the unwrapped carbon " + std::to_string(n) + " times; history: " + history; });
            }
            for (const auto &m : flagged) {
                QStringList got = msggen::dump(m);
                c.require(got == want, "c11 genuine-carbon-altered " + q(msggen::firstDifferenceKey(want, got)), [&] {
                    return "presented message differs from the inner message: " + q(msggen::firstDifference(want, got)) + "\n history: " + history;
                });
            }
            if (!flagged.isEmpty())
                c.require(unflagged.isEmpty(), "c11 genuine-carbon-and-outer-both-presented", "the carbon was unwrapped and the outer stanza was presented as a message as well; history: " + history);
            if (v1)
                c.require((sentKind ? obs.v1received : obs.v1sent).isEmpty(), "c11 genuine-carbon-wrong-direction", "sent/received signal mixed up; history: " + history);
            if (deco <= 2) {
                c.label("plain-genuine-wrapper");
                c.require(!flagged.isEmpty(), "c11 genuine-carbon-not-unwrapped", [&] {
                    return "a plain, genuine carbon (from own bare JID '" + q(ownBare) + "') was not unwrapped (handler=" + std::to_string(obs.handler.size()) + " messageReceived=" + std::to_string(obs.signal.size()) +
                        " v1sent=" + std::to_string(obs.v1sent.size()) + " v1received=" + std::to_string(obs.v1received.size()) + ")\n outer=" + q(outer.left(1200)) + "\n history: " + history;
                });
            }
        }
    }
    if (anyNear)
        c.nontrivial(vh::fnv(history));
    c.sample([&] { return history; });
    client.closeSession();
}

VH_MAIN()
