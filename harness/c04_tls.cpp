// C04 — with TLS required, no credential or stanza is sent before the link is encrypted (DESIGN.md C04).
// A real QXmppClient (TLSRequired) connects over loopback to a scripted, TLS-capable peer that plays a generated
// server script: stream headers with/without version or id, features with any subset of {starttls optional/required/
// absent, SASL mechanisms, SASL 2 (+bind2, FAST, sm), legacy iq-auth, bind, session, sm}, <proceed/> (the TLS handshake
// then really happens) or <failure/>, SASL challenge/success/failure, legacy-auth field offers, arbitrary IQ get/set/
// result from the server, <r/>, message, presence, stream error.  Client configuration (SASL/SASL2/legacy auth on/off,
// preferred mechanism, disabled list, FAST token, extension set) is generated too.
// Oracle (history invariant): everything the peer received before its side of the link was encrypted must be free of
// (a) the planted secrets and their derivatives, (b) SASL / SASL 2 exchange elements, legacy-auth IQs, bind, and any
// <iq/>, <message/>, <presence/>.  If encryption cannot be negotiated the client ends up disconnected.
// A third of the cases give the client two candidate addresses (as an SRV lookup or the built-in fall-back list does)
// and let the first peer drop the connection mid-negotiation: the script goes on with the second peer, and what either
// peer received in clear is judged.
#include "gens.h"
#include "lb.h"
#include "tc.h"
#include "xmlutil.h"

#include "QXmppClient.h"
#include "QXmppConfiguration.h"
#include "QXmppLogger.h"
#include "QXmppSasl2UserAgent.h"
#include "QXmppSasl_p.h"

#include <QCryptographicHash>
#include <QRegularExpression>
#include <QUuid>

using vh::Ctx;
using vh::Tape;

static std::string q(const QString &s) { return vh::s(s); }

static const QString PASSWORD = QStringLiteral("S3cr3tPw-c04-Zq");
static const QString TOKEN = QStringLiteral("FastT0ken-c04-Yx");

static QString features(Tape &t, std::string &desc, bool &offersTls, bool &authCapable)
{
    QString f = QStringLiteral("<stream:features>");
    int tls = int(t.weighted({ 4, 3, 2 }));   // 0 optional, 1 required, 2 absent
    if (tls == 0)
        f += QStringLiteral("<starttls xmlns='urn:ietf:params:xml:ns:xmpp-tls'/>");
    else if (tls == 1)
        f += QStringLiteral("<starttls xmlns='urn:ietf:params:xml:ns:xmpp-tls'><required/></starttls>");
    offersTls = tls != 2;
    desc += tls == 0 ? "starttls " : tls == 1 ? "starttls(required) " : "";
    if (t.prob(2, 3)) {
        f += QStringLiteral("<mechanisms xmlns='urn:ietf:params:xml:ns:xmpp-sasl'>");
        static const QStringList mechs = { "PLAIN", "SCRAM-SHA-1", "SCRAM-SHA-256", "DIGEST-MD5", "ANONYMOUS", "X-OAUTH2" };
        QString m;
        for (auto &x : mechs)
            if (t.b()) {
                f += QStringLiteral("<mechanism>") + x + QStringLiteral("</mechanism>");
                m += x + u',';
            }
        f += QStringLiteral("</mechanisms>");
        desc += "sasl[" + q(m) + "] ";
        authCapable = authCapable || !m.isEmpty();
    }
    if (t.prob(1, 3)) {
        f += QStringLiteral("<authentication xmlns='urn:xmpp:sasl:2'><mechanism>PLAIN</mechanism><mechanism>SCRAM-SHA-1</mechanism><inline>");
        if (t.b())
            f += QStringLiteral("<bind xmlns='urn:xmpp:bind:0'><inline><feature var='urn:xmpp:sm:3'/><feature var='urn:xmpp:carbons:2'/></inline></bind>");
        if (t.b())
            f += QStringLiteral("<fast xmlns='urn:xmpp:fast:0'><mechanism>HT-SHA-256-NONE</mechanism></fast>");
        if (t.b())
            f += QStringLiteral("<sm xmlns='urn:xmpp:sm:3'/>");
        f += QStringLiteral("</inline></authentication>");
        desc += "sasl2 ";
        authCapable = true;
    }
    if (t.prob(1, 4)) {
        f += QStringLiteral("<auth xmlns='http://jabber.org/features/iq-auth'/>");
        desc += "iq-auth ";
        authCapable = true;
    }
    if (t.prob(1, 3)) {
        f += QStringLiteral("<bind xmlns='urn:ietf:params:xml:ns:xmpp-bind'/>");
        desc += "bind ";
    }
    if (t.prob(1, 4)) {
        f += QStringLiteral("<session xmlns='urn:ietf:params:xml:ns:xmpp-session'/>");
        desc += "session ";
    }
    if (t.prob(1, 4)) {
        f += QStringLiteral("<sm xmlns='urn:xmpp:sm:3'/>");
        desc += "sm ";
    }
    return f + QStringLiteral("</stream:features>");
}

static void run(Tape &t, Ctx &c, bool requireTls)
{
    lb::ScriptedServer srv, srv2;
    c.require(srv.isListening() && srv2.isListening(), "c04 harness-no-listen", "cannot listen on loopback");

    QXmppClient client(t.b() ? QXmppClient::BasicExtensions : QXmppClient::NoExtensions);
    QXmppLogger logger;
    logger.setLoggingType(QXmppLogger::NoLogging);
    client.setLogger(&logger);
    QXmppConfiguration cfg;
    cfg.setJid(QStringLiteral("alice@example.org"));
    cfg.setPassword(PASSWORD);
    cfg.setHost(QStringLiteral("127.0.0.1"));
    cfg.setPort(srv.serverPort());
    cfg.setStreamSecurityMode(requireTls ? QXmppConfiguration::TLSRequired : QXmppConfiguration::TLSEnabled);
    cfg.setIgnoreSslErrors(true);
    cfg.setAutoReconnectionEnabled(false);
    cfg.setKeepAliveInterval(0);
    std::string cdesc;
    bool sasl = !t.prob(1, 5), sasl2 = t.b(), legacy = !t.prob(1, 4);
    cfg.setUseSASLAuthentication(sasl);
    cfg.setUseSasl2Authentication(sasl2);
    cfg.setUseNonSASLAuthentication(legacy);
    cdesc += std::string("sasl=") + (sasl ? "1" : "0") + " sasl2=" + (sasl2 ? "1" : "0") + " legacy=" + (legacy ? "1" : "0");
    if (t.b()) {
        cfg.setDisabledSaslMechanisms({});
        cdesc += " plain-allowed";
    }
    if (t.prob(1, 3)) {
        QString pm = t.pick<QString>({ "PLAIN", "SCRAM-SHA-1", "DIGEST-MD5" });
        cfg.setSaslAuthMechanism(pm);
        cdesc += " preferred=" + q(pm);
    }
    if (t.b()) {
        cfg.setSasl2UserAgent(QXmppSasl2UserAgent(QUuid::fromString(QStringLiteral("d4565fa7-4d72-4749-b3d3-740edbf87770")), QStringLiteral("verif"), QStringLiteral("harness")));
        if (t.b()) {
            cfg.credentialData().htToken = QXmpp::Private::HtToken { *QXmpp::Private::SaslHtMechanism::fromString(u"HT-SHA-256-NONE"), TOKEN, QDateTime::currentDateTimeUtc().addDays(3) };
            cdesc += " fast-token";
        }
    }

    // one explicit host, or a list of two candidate addresses
    const bool twoAddresses = t.prob(1, 3);
    // a fixed opening for half of the two-address cases, so that the fall-over happens deep inside a negotiation often
    // enough: TLS upgrade and authentication offer on the first address, then the connection drops
    const bool scriptedOpening = twoAddresses && t.b();
    if (twoAddresses) {
        using QXmpp::Private::ServerAddress;
        TestClient::connectToAddressList(client, cfg, { ServerAddress { ServerAddress::Tcp, QStringLiteral("127.0.0.1"), srv.serverPort() }, ServerAddress { ServerAddress::Tcp, QStringLiteral("127.0.0.1"), srv2.serverPort() } });
        cdesc += " two-candidate-addresses";
        c.label("client:two-candidate-addresses");
    } else {
        client.connectToServer(cfg);
    }
    c.require(lb::settleUntil([&] { return srv.last() != nullptr; }, 3000), "c04 harness-no-connection", "client did not connect to the scripted server");
    lb::Conn *connp = srv.last();
    lb::settle();
#define conn (*connp)

    std::string history;
    const QString streamId = QStringLiteral("sid-c04-77");
    bool encryptionImpossible = false, reachedAuthCapable = false, tlsStarted = false, proceedSent = false, failedOver = false;
    int opsSinceFailOver = -1;   // -1: still on the first address
    int steps = 2 + int(t.u(9));
    const char *header10 = "<?xml version='1.0'?><stream:stream xmlns='jabber:client' xmlns:stream='http://etherx.jabber.org/streams' from='example.org' id='%1' version='1.0'>";
    // macro: what an ordinary server does to get a client authenticated over TLS
    auto tlsUpgradeAndOffer = [&] {
        static const QStringList offers = { "<mechanism>PLAIN</mechanism>", "<mechanism>SCRAM-SHA-1</mechanism>", "<mechanism>DIGEST-MD5</mechanism>", "<mechanism>PLAIN</mechanism><mechanism>SCRAM-SHA-1</mechanism><mechanism>DIGEST-MD5</mechanism>" };
        static const char *offerNames[] = { "PLAIN", "SCRAM-SHA-1", "DIGEST-MD5", "PLAIN,SCRAM-SHA-1,DIGEST-MD5" };
        const int oi = int(t.u(4));
        const QString mechs = QStringLiteral("<mechanisms xmlns='urn:ietf:params:xml:ns:xmpp-sasl'>") + offers[oi] + QStringLiteral("</mechanisms>");
        history += std::string(" [features{starttls(required) sasl[") + offerNames[oi] + "]}";
        srv.send(conn, QStringLiteral("<stream:features><starttls xmlns='urn:ietf:params:xml:ns:xmpp-tls'><required/></starttls>") + mechs + QStringLiteral("</stream:features>"));
        reachedAuthCapable = true;
        lb::settle();
        if (!conn.encrypted && !tlsStarted && conn.plain.contains("<starttls")) {
            history += " proceed+handshake";
            proceedSent = true;
            // the server side must be in TLS mode before the event loop runs again: the client's ClientHello follows
            // <proceed/> at once and must not be read as stream data
            srv.send(conn, QStringLiteral("<proceed xmlns='urn:ietf:params:xml:ns:xmpp-tls'/>"));
            tlsStarted = true;
            srv.startTls(conn);
            lb::settleUntil([&] { return conn.encrypted || conn.closedByPeer; }, 4000);
            if (conn.encrypted) {
                history += std::string("(ok) header features{sasl[") + offerNames[oi] + "]}";
                lb::settle();
                srv.send(conn, QString::fromLatin1(header10).arg(streamId));
                srv.send(conn, QStringLiteral("<stream:features>") + mechs + QStringLiteral("</stream:features>"));
                lb::settle();
            } else {
                history += "(handshake did not complete: " + q(conn.errors) + ")";
                c.label("macro:handshake-did-not-complete");
            }
        }
        history += "]";
    };
    // the first peer drops the connection; the client moves on to its next candidate address
    auto cutAndFailOver = [&] {
        history += " CUT->next-address";
        failedOver = true;
        opsSinceFailOver = 0;
        srv.cut(conn);
        if (!lb::settleUntil([&] { return srv2.last() != nullptr; }, 3000)) {
            history += "(client gave up)";
            return false;
        }
        connp = srv2.last();
        tlsStarted = proceedSent = false;
        lb::settle();
        c.label("failed-over-to-second-address");
        return true;
    };
    QString lastIqId = QStringLiteral("x");
    auto lastClientIqId = [&] {
        QRegularExpression re(QStringLiteral("<iq[^>]* id=\"([^\"]*)\""));
        auto it = re.globalMatch(QString::fromUtf8(conn.all));
        QString id;
        while (it.hasNext())
            id = it.next().captured(1);
        return id;
    };
    for (int step = 0; step < steps; step++) {
        if (conn.closedByPeer || !conn.sock || conn.sock->state() != QAbstractSocket::ConnectedState)
            break;
        if (scriptedOpening && step < 3) {
            if (step == 0) {
                history += " header(1.0)";
                srv.send(conn, QString::fromLatin1(header10).arg(streamId));
            } else if (step == 1) {
                tlsUpgradeAndOffer();
            } else if (!cutAndFailOver()) {
                break;
            }
            lb::settle();
            continue;
        }
        // a connection starts with the server's stream header (also the one the client fell over to)
        const bool freshConnection = step == 0 || opsSinceFailOver == 0;
        uint32_t op = freshConnection ? t.weighted({ 8, 2, 1 }) : 3 + t.weighted({ 6, 3, 1, 2, 2, 2, 3, 1, 1, 1, 1, 2, 2, 2 });
        // the peer behind the second address may go on as if the authentication begun on the first one had carried over
        // (half of the times, right after its stream header)
        if (opsSinceFailOver == 1 && t.b()) {
            static const uint32_t continuations[] = { 6, 6, 7, 15, 15 };
            op = continuations[t.u(5)];
        }
        if (opsSinceFailOver >= 0)
            opsSinceFailOver++;
        switch (op) {
        case 0: history += " header(1.0)"; srv.send(conn, QStringLiteral("<?xml version='1.0'?><stream:stream xmlns='jabber:client' xmlns:stream='http://etherx.jabber.org/streams' from='example.org' id='%1' version='1.0'>").arg(streamId)); break;
        case 1: {
            // a header without a version, or with one below 1.0 (a pre-RFC server: legacy authentication territory)
            static const QStringList versions = { "", "", "0.9", "0.0", "0", "abc" };
            const QString ver = t.pick(versions.toVector().toStdVector());
            history += ver.isEmpty() ? " header(no-version)" : " header(version=" + q(ver) + ")";
            reachedAuthCapable = true;
            srv.send(conn, QStringLiteral("<?xml version='1.0'?><stream:stream xmlns='jabber:client' xmlns:stream='http://etherx.jabber.org/streams' from='example.org' id='%1'%2>").arg(streamId, ver.isEmpty() ? QString() : QStringLiteral(" version='%1'").arg(ver)));
            break;
        }
        case 2: history += " header(no-id)"; srv.send(conn, QStringLiteral("<stream:stream xmlns='jabber:client' xmlns:stream='http://etherx.jabber.org/streams' from='example.org' version='1.0'>")); break;
        case 3: {
            std::string d;
            bool offers = false, auth = false;
            QString f = features(t, d, offers, auth);
            history += " features{" + d + "}";
            if (!conn.encrypted) {
                if (!offers)
                    encryptionImpossible = true;
                if (auth)
                    reachedAuthCapable = true;
            }
            srv.send(conn, f);
            break;
        }
        case 4:
            if (conn.encrypted || tlsStarted) {
                history += " noop";
                break;
            }
            history += " proceed+handshake";
            proceedSent = true;
            srv.send(conn, QStringLiteral("<proceed xmlns='urn:ietf:params:xml:ns:xmpp-tls'/>"));
            // the handshake only makes sense if the client asked for it; otherwise the peer keeps talking in clear.
            // The server side must be in TLS mode before the event loop runs again: the client's ClientHello follows
            // <proceed/> at once and must not be read as stream data.
            if (conn.plain.contains("<starttls")) {
                tlsStarted = true;
                srv.startTls(conn);
                lb::settleUntil([&] { return conn.encrypted || conn.closedByPeer; }, 4000);
                if (conn.encrypted)
                    history += "(ok)";
                else
                    step = steps;   // the handshake did not complete: the peer cannot sensibly go on in clear text
            }
            break;
        case 5:
            if (proceedSent) {
                history += " noop";   // after <proceed/> the peer speaks TLS: a clear-text <failure/> is not a possible server behaviour
                break;
            }
            history += " tls-failure";
            if (!conn.encrypted)
                encryptionImpossible = true;
            if (!conn.encrypted && conn.plain.contains("<starttls"))
                c.label("tls-failure-in-answer-to-starttls");
            srv.send(conn, QStringLiteral("<failure xmlns='urn:ietf:params:xml:ns:xmpp-tls'/>"));
            break;
        case 6:
            if (t.b()) {
                history += " sasl-challenge(scram)";
                srv.send(conn, QStringLiteral("<challenge xmlns='urn:ietf:params:xml:ns:xmpp-sasl'>cj1meWtvK2QybGJiRmdPTlJ2OXFreGRhd0wzcmZjTkhZSlkxWlZ2V1ZzN2oscz1RU1hDUitRNnNlazhiZjkyLGk9NDA5Ng==</challenge>"));
            } else {
                history += " sasl-challenge(digest-md5)";
                srv.send(conn, QStringLiteral("<challenge xmlns='urn:ietf:params:xml:ns:xmpp-sasl'>") + QString::fromLatin1(QByteArray("realm=\"example.org\",nonce=\"OA6MG9tEQGm2hh\",qop=\"auth\",charset=utf-8,algorithm=md5-sess").toBase64()) + QStringLiteral("</challenge>"));
            }
            break;
        case 7: history += " sasl-success"; srv.send(conn, QStringLiteral("<success xmlns='urn:ietf:params:xml:ns:xmpp-sasl'/>")); break;
        case 8: history += " sasl-failure"; srv.send(conn, QStringLiteral("<failure xmlns='urn:ietf:params:xml:ns:xmpp-sasl'><not-authorized/></failure>")); break;
        case 9: {
            // legacy-auth field offer, answering the client's last IQ (if any)
            QString id = lastClientIqId();
            int fields = int(t.u(4));
            history += " legacy-auth-fields(" + std::to_string(fields) + ")";
            srv.send(conn, QStringLiteral("<iq type='result' id=\"%1\"><query xmlns='jabber:iq:auth'><username/>%2%3<resource/></query></iq>")
                               .arg(id.isEmpty() ? QStringLiteral("auth1") : id, (fields & 1) ? QStringLiteral("<password/>") : QString(), (fields & 2) ? QStringLiteral("<digest/>") : QString()));
            break;
        }
        case 10: {
            static const QStringList iqs = {
                "<iq type='get' id='srv1' from='example.org'><query xmlns='jabber:iq:version'/></iq>",
                "<iq type='get' id='srv2' from='example.org'><query xmlns='http://jabber.org/protocol/disco#info'/></iq>",
                "<iq type='get' id='srv3' from='example.org'><ping xmlns='urn:xmpp:ping'/></iq>",
                "<iq type='set' id='srv4'><query xmlns='jabber:iq:roster'><item jid='x@example.org'/></query></iq>",
                "<iq type='result' id='srv5' from='example.org'/>",
                "<iq type='set' id='srv6' from='example.org'><unknown xmlns='urn:verif:unknown'/></iq>",
            };
            int k = int(t.u(uint32_t(iqs.size())));
            history += " server-iq(" + std::to_string(k) + ")";
            srv.send(conn, iqs[k]);
            break;
        }
        case 11: history += " r"; srv.send(conn, QStringLiteral("<r xmlns='urn:xmpp:sm:3'/>")); break;
        case 12: history += " message"; srv.send(conn, QStringLiteral("<message from='bob@example.org/x' type='chat'><body>hi</body><request xmlns='urn:xmpp:receipts'/></message>")); break;
        case 14: tlsUpgradeAndOffer(); break;
        case 15:
            // accept whatever authentication is going on, restart the stream and offer resource binding
            history += " [sasl-success header features{bind session sm}]";
            srv.send(conn, QStringLiteral("<success xmlns='urn:ietf:params:xml:ns:xmpp-sasl'/>"));
            lb::settle();
            srv.send(conn, QString::fromLatin1(header10).arg(streamId));
            srv.send(conn, QStringLiteral("<stream:features><bind xmlns='urn:ietf:params:xml:ns:xmpp-bind'/><session xmlns='urn:ietf:params:xml:ns:xmpp-session'/><sm xmlns='urn:xmpp:sm:3'/></stream:features>"));
            break;
        case 16:
            if (!twoAddresses || failedOver) {
                history += " noop";
                break;
            }
            if (!cutAndFailOver())
                step = steps;
            break;
        case 13: history += " stream-error"; srv.send(conn, t.b() ? QStringLiteral("<stream:error><see-other-host xmlns='urn:ietf:params:xml:ns:xmpp-streams'>127.0.0.1:1</see-other-host></stream:error>") : QStringLiteral("<stream:error><policy-violation xmlns='urn:ietf:params:xml:ns:xmpp-streams'/></stream:error>")); break;
        }
        lb::settle();
        // "if encryption cannot be negotiated it gives up and disconnects": judged as soon as that is the case, not only
        // at the end of the script (a later server action could end the connection for another reason)
        if (requireTls && encryptionImpossible && !conn.encrypted) {
            lb::settleUntil([&] { return client.state() == QXmppClient::DisconnectedState; }, 1500);
            c.require(client.state() == QXmppClient::DisconnectedState, "c04 not-disconnected-when-tls-impossible", "encryption could not be negotiated but the client is still " + std::to_string(int(client.state())) + "\n script:" + history);
            break;
        }
    }
    lb::settle(20, 600);

    // ---- oracle over everything received in clear
    QByteArray plainBytes;
    for (auto *s : { &srv, &srv2 })
        for (auto &cn : s->conns)
            plainBytes += cn->plain + "\n";
    const QString plain = QString::fromUtf8(plainBytes);
    c.sample([&] { return std::string(requireTls ? "TLSRequired " : "TLSEnabled(control) ") + cdesc + " |" + history + " | plaintext=" + q(plain.left(400)); });
    QStringList secrets = { PASSWORD, QString::fromLatin1(PASSWORD.toUtf8().toBase64()), QString::fromLatin1((QByteArray(1, '\0') + "alice" + QByteArray(1, '\0') + PASSWORD.toUtf8()).toBase64()), TOKEN,
                            QString::fromLatin1(QCryptographicHash::hash((streamId + PASSWORD).toUtf8(), QCryptographicHash::Sha1).toHex()) };
    std::string leak;
    for (auto &s : secrets)
        if (plain.contains(s))
            leak = "secret-or-derivative";
    static const QRegularExpression forbidden(QStringLiteral("<(auth|response|abort|authenticate)[\\s/>]|<iq[\\s>]|<message[\\s>]|<presence[\\s>]|<bind[\\s/>]|jabber:iq:auth"));
    QString what;
    if (leak.empty()) {
        auto m = forbidden.match(plain);
        if (m.hasMatch()) {
            what = m.captured(0);
            QString w = what;
            w.remove(QRegularExpression(QStringLiteral("[<\\s/>]")));
            leak = "element " + q(w);
        }
    }
    if (conn.encrypted && !conn.secure.isEmpty())
        c.label("sent-data-after-encryption");
    if (conn.secure.contains("<auth") || conn.secure.contains("<authenticate"))
        c.label("authenticated-after-encryption");
    c.label(requireTls ? "mode:required" : "mode:enabled(control)");
    if (reachedAuthCapable && !conn.encrypted)
        c.label("auth-capable-state-while-unencrypted");
    if (!requireTls) {
        // control arm: the classifier must be able to see plaintext authentication when TLS is merely optional
        if (!leak.empty())
            c.label("control:plaintext-auth-observed");
        return;
    }
    if (reachedAuthCapable)
        c.nontrivial(vh::fnv(history + cdesc));
    bool versionless = history.find("header(no-version)") != std::string::npos || history.find("header(version=") != std::string::npos;
    c.require(leak.empty(), "c04 plaintext-" + leak + (versionless ? " after-versionless-header" : ""), [&] {
        return "with TLS required the client sent " + leak + " over the unencrypted link\n config: " + cdesc + "\n script:" + history + "\n plaintext received by the peer: " + q(plain.left(2500));
    });
    if (encryptionImpossible && !conn.encrypted) {
        lb::settleUntil([&] { return client.state() == QXmppClient::DisconnectedState; }, 1500);
        c.require(client.state() == QXmppClient::DisconnectedState, "c04 not-disconnected-when-tls-impossible", "encryption could not be negotiated but the client is still " + std::to_string(int(client.state())) + "\n script:" + history);
    }
    client.disconnectFromServer();
    lb::settle(5, 200);
#undef conn
}

VCHECK("c04.required", 200) { run(t, c, true); }
VCHECK("c04.control", 200) { run(t, c, false); }

VH_MAIN()
