// C13 — a task's continuation runs exactly once, and never after its context has died.
// One body, two engines: "enum" enumerates every operation sequence up to a bound (exhaustive small
// scope), "rapid" samples longer sequences.  Oracle: a reference model written from the documentation in
// QXmppTask.h / QXmppPromise.h (DESIGN.md C13), compared after every operation, plus an instance balance
// of tracked values and continuation closures at the end ("released").
#include "vharness.h"

#include "QXmppPromise.h"
#include "QXmppTask.h"

#include <QObject>
#include <memory>
#include <optional>

using vh::Ctx;
using vh::Tape;

// ---- tracked instances -------------------------------------------------------------------------
static long g_liveValues = 0;
static long g_liveClosures = 0;

struct Tracked {
    int id;
    bool movedFrom = false;
    explicit Tracked(int i) : id(i) { g_liveValues++; }
    Tracked(const Tracked &o) : id(o.id), movedFrom(o.movedFrom) { g_liveValues++; }
    Tracked(Tracked &&o) noexcept : id(o.id), movedFrom(o.movedFrom)
    {
        g_liveValues++;
        o.movedFrom = true;
    }
    Tracked &operator=(const Tracked &o) = default;
    Tracked &operator=(Tracked &&o) noexcept
    {
        id = o.id;
        movedFrom = o.movedFrom;
        o.movedFrom = true;
        return *this;
    }
    virtual ~Tracked() { g_liveValues--; }
};
struct TrackedDerived : Tracked {
    using Tracked::Tracked;
};
using MoveOnly = std::unique_ptr<Tracked>;

struct ClosureProbe {
    ClosureProbe() { g_liveClosures++; }
    ClosureProbe(const ClosureProbe &) { g_liveClosures++; }
    ClosureProbe(ClosureProbe &&) noexcept { g_liveClosures++; }
    ClosureProbe &operator=(const ClosureProbe &) = default;
    ~ClosureProbe() { g_liveClosures--; }
};

template<typename T>
struct ValueOps;
template<>
struct ValueOps<Tracked> {
    static Tracked make(int id) { return Tracked(id); }
    // a value of another type the result can be constructed from: QXmppPromise::finish() has an overload of its own for that
    template<typename P>
    static void finishConverting(P &p, int id) { p.finish(id); }
    static int idOf(const Tracked &v) { return v.movedFrom ? -1000 - v.id : v.id; }
    static const char *name() { return "copyable"; }
};
template<>
struct ValueOps<MoveOnly> {
    static MoveOnly make(int id) { return std::make_unique<Tracked>(id); }
    template<typename P>
    static void finishConverting(P &p, int id) { p.finish(std::make_unique<TrackedDerived>(id)); }   // unique_ptr<Derived> -> unique_ptr<Base>
    static int idOf(const MoveOnly &v) { return v ? (v->movedFrom ? -1000 - v->id : v->id) : -1; }
    static const char *name() { return "move-only"; }
};

enum Action { ANone, AThenInside, ADropTasks, ADestroyOwnCtx, ADropOtherPromise, AFinishOther, ANumActions };
static const char *actionNames[] = { "none", "then-inside", "drop-all-tasks-inside", "destroy-own-ctx-inside", "drop-promise-copy-inside", "finish-other-promise-inside" };

template<typename T>
struct World {
    static constexpr bool isVoid = std::is_void_v<T>;
    // handles: promise[0] is the copy finish() is called on and is never dropped from inside a continuation
    std::vector<std::optional<QXmppPromise<T>>> promises;
    std::vector<std::optional<QXmppTask<T>>> tasks;
    std::vector<std::unique_ptr<QObject>> ctx;
    // second, independent promise for "finish other promise from inside"
    std::optional<QXmppPromise<T>> other;
    int otherContId = -1;
    bool otherFinished = false;

    // model
    bool finished = false;
    std::optional<int> stored;   // id of stored value (non-void)
    struct ContModel {
        int id;
        int ctx;
        bool selfCapture;
    };
    std::optional<ContModel> cont;
    int finishedValue = -1;
    bool unfinishedSelfCapture = false;

    // observations
    std::map<int, int> runs, expectedRuns;
    std::map<int, int> gotValue, expectedValue;
    int nextCont = 0;
    int nextValue = 100;
    std::string log;
    Ctx *c = nullptr;
    bool reentered = false, ctxDiedBeforeFinish = false, multiCopy = false;
};

template<typename T>
struct Closure {
    World<T> *w;
    int id;
    int action;
    int ownCtx;
    bool consume;
    int keepTask;   // index of the task object whose then() is executing us right now (must not be destroyed by us), or -1
    ClosureProbe probe;
    std::shared_ptr<std::optional<QXmppTask<T>>> self;   // self capture (may be null)

    void body()
    {
        w->runs[id]++;
        w->log += " [run k" + std::to_string(id) + " " + actionNames[action] + "]";
        switch (action) {
        case ANone: break;
        case AThenInside: {
            // register another continuation from inside; the task is finished by now
            for (auto &t : w->tasks) {
                if (!t)
                    continue;
                int nid = w->nextCont++;
                w->reentered = true;
                // model: finished => void runs immediately; non-void runs iff a value is stored (it is not: it is being consumed)
                w->expectedRuns[nid] = World<T>::isVoid ? 1 : (w->stored ? 1 : 0);
                if constexpr (!World<T>::isVoid) {
                    if (w->stored) {
                        w->expectedValue[nid] = *w->stored;
                        w->stored.reset();
                    }
                }
                Closure<T> inner { w, nid, ANone, ownCtx, true, -1, {}, nullptr };
                QObject *cx = w->ctx[ownCtx] ? w->ctx[ownCtx].get() : nullptr;
                if (!cx) {
                    // own context already gone (cannot happen: we only run with a live context)
                    w->expectedRuns[nid] = 0;
                    break;
                }
                if constexpr (World<T>::isVoid)
                    t->then(cx, [inner]() mutable { inner.body(); });
                else
                    t->then(cx, [inner](T &&v) mutable { inner.bodyV(std::move(v)); });
                break;
            }
            break;
        }
        case ADropTasks:
            w->reentered = true;
            for (int i = 0; i < int(w->tasks.size()); i++)
                if (i != keepTask)
                    w->tasks[i].reset();
            break;
        case ADestroyOwnCtx:
            w->reentered = true;
            w->ctx[ownCtx].reset();
            break;
        case ADropOtherPromise:
            w->reentered = true;
            if (w->promises.size() > 1)
                w->promises[1].reset();
            break;
        case AFinishOther:
            w->reentered = true;
            if (w->other && !w->otherFinished) {
                w->otherFinished = true;
                if (w->otherContId >= 0 && w->ctx[0])
                    w->expectedRuns[w->otherContId] = 1;
                if constexpr (World<T>::isVoid) {
                    w->other->finish();
                } else {
                    int vid = w->nextValue++;
                    if (w->otherContId >= 0 && w->ctx[0])
                        w->expectedValue[w->otherContId] = vid;
                    w->other->finish(ValueOps<T>::make(vid));
                }
            }
            break;
        }
    }
    void operator()() { body(); }
    template<typename V>
    void bodyV(V &&v)
    {
        w->gotValue[id] = ValueOps<std::decay_t<V>>::idOf(v);
        if (consume) {
            std::decay_t<V> sink = std::move(v);
            (void)sink;
        }
        body();
    }
};

template<typename T>
static void checkInvariants(World<T> &w, Ctx &c, const char *when)
{
    for (auto &[id, n] : w.runs) {
        int exp = w.expectedRuns.count(id) ? w.expectedRuns[id] : 0;
        c.require(n <= exp, std::string("c13 continuation-ran-unexpectedly ") + (n > 1 ? "more-than-once" : "not-due"),
                  "continuation k" + std::to_string(id) + " ran " + std::to_string(n) + " times, model allows " + std::to_string(exp) + " (" + when + "); history:" + w.log);
    }
    for (auto &[id, exp] : w.expectedRuns) {
        int n = w.runs.count(id) ? w.runs[id] : 0;
        c.require(n == exp, std::string("c13 continuation-run-count ") + (n < exp ? "missing" : "extra"),
                  "continuation k" + std::to_string(id) + " ran " + std::to_string(n) + " times, model expects " + std::to_string(exp) + " (" + when + "); history:" + w.log);
    }
    if constexpr (!World<T>::isVoid) {
        for (auto &[id, v] : w.gotValue) {
            c.require(w.expectedValue.count(id) && w.expectedValue[id] == v, "c13 continuation-wrong-value",
                      "continuation k" + std::to_string(id) + " received value id " + std::to_string(v) + " expected " +
                          (w.expectedValue.count(id) ? std::to_string(w.expectedValue[id]) : std::string("none")) + " (negative = moved-from/null); history:" + w.log);
        }
        for (auto &t : w.tasks) {
            if (!t)
                continue;
            c.require(t->isFinished() == w.finished, "c13 isFinished-mismatch", std::string("isFinished() != model (") + when + "); history:" + w.log);
            c.require(t->hasResult() == w.stored.has_value(), "c13 hasResult-mismatch", std::string("hasResult() != model (") + when + "); history:" + w.log);
            if (w.stored) {
                c.require(ValueOps<T>::idOf(t->result()) == *w.stored, "c13 stored-wrong-value", "result() is not the finished value; history:" + w.log);
            }
        }
    } else {
        for (auto &t : w.tasks)
            if (t)
                c.require(t->isFinished() == w.finished, "c13 isFinished-mismatch", std::string("isFinished() != model (") + when + "); history:" + w.log);
    }
}

template<typename T>
static void runWorld(Tape &t, Ctx &c, int maxLen, bool small, bool convertingFinish = false)
{
    using VO = std::conditional_t<std::is_void_v<T>, ValueOps<Tracked>, ValueOps<std::conditional_t<std::is_void_v<T>, Tracked, T>>>;
    long values0 = g_liveValues, closures0 = g_liveClosures;
    {
        World<T> w;
        w.c = &c;
        w.promises.emplace_back(std::in_place);
        w.tasks.emplace_back(w.promises[0]->task());
        w.ctx.push_back(std::make_unique<QObject>());
        w.ctx.push_back(std::make_unique<QObject>());
        const int maxTasks = small ? 2 : 3;
        const int nActions = small ? 4 : int(ANumActions);
        if (!small) {
            // independent second promise with a plain continuation on ctx0
            w.other.emplace();
            int id = w.nextCont++;
            w.otherContId = id;
            w.expectedRuns[id] = 0;
            Closure<T> k { &w, id, ANone, 0, true, -1, {}, nullptr };
            auto ot = w.other->task();
            if constexpr (World<T>::isVoid)
                ot.then(w.ctx[0].get(), [k]() mutable { k.body(); });
            else
                ot.then(w.ctx[0].get(), [k](T &&v) mutable { k.bodyV(std::move(v)); });
        }

        int len = small ? maxLen : 1 + int(t.u(uint32_t(maxLen)));
        bool stop = false;
        for (int step = 0; step < len && !stop; step++) {
            // ops: 0 then, 1 finish, 2 destroyCtx, 3 copyTask, 4 dropTask, 5 copyPromise/dropPromiseCopy, 6 takeResult, 7 end
            uint32_t op = t.u(small ? 7 : 8);
            switch (op) {
            case 0: {
                // then(task i, ctx j, action a, selfCapture)
                std::vector<int> live;
                for (int i = 0; i < int(w.tasks.size()); i++)
                    if (w.tasks[i])
                        live.push_back(i);
                if (live.empty()) {
                    if (!w.promises[0])
                        break;
                    w.tasks.clear();
                    w.tasks.emplace_back(w.promises[0]->task());
                    live.push_back(0);
                }
                int ti = live[t.u(uint32_t(live.size()))];
                int cj = int(t.u(2));
                if (!w.ctx[cj])
                    break;   // precondition: the context passed to then() is alive
                int action = int(t.u(uint32_t(nActions)));
                bool self = small ? t.b() : t.u(3) == 2;
                bool consume = small ? true : t.b();
                int id = w.nextCont++;
                w.log += " then(t" + std::to_string(ti) + ",c" + std::to_string(cj) + "," + actionNames[action] + (self ? ",self-capture" : "") + ")=k" + std::to_string(id);
                Closure<T> k { &w, id, action, cj, consume, w.finished ? ti : -1, {}, nullptr };
                if (self)
                    k.self = std::make_shared<std::optional<QXmppTask<T>>>(*w.tasks[ti]);
                // model
                if (w.finished) {
                    if constexpr (World<T>::isVoid) {
                        w.expectedRuns[id] = 1;
                    } else {
                        if (w.stored) {
                            w.expectedRuns[id] = 1;
                            w.expectedValue[id] = *w.stored;
                            w.stored.reset();
                        } else {
                            w.expectedRuns[id] = 0;
                        }
                    }
                } else {
                    w.expectedRuns[id] = 0;   // until finish
                    w.cont = typename World<T>::ContModel { id, cj, self };
                }
                if constexpr (World<T>::isVoid)
                    w.tasks[ti]->then(w.ctx[cj].get(), [k]() mutable { k.body(); });
                else
                    w.tasks[ti]->then(w.ctx[cj].get(), [k](T &&v) mutable { k.bodyV(std::move(v)); });
                break;
            }
            case 1: {
                if (w.finished || !w.promises[0])
                    break;   // API contract: finish at most once
                int vid = w.nextValue++;
                w.log += " finish(v" + std::to_string(vid) + ")";
                w.finished = true;
                w.finishedValue = vid;
                if (w.cont) {
                    bool alive = bool(w.ctx[w.cont->ctx]);
                    if (alive) {
                        w.expectedRuns[w.cont->id] = 1;
                        w.expectedValue[w.cont->id] = vid;
                    } else {
                        w.ctxDiedBeforeFinish = true;
                    }
                    w.cont.reset();
                } else if constexpr (!World<T>::isVoid) {
                    w.stored = vid;
                }
                if constexpr (World<T>::isVoid) {
                    w.promises[0]->finish();
                } else if (convertingFinish) {
                    w.log += "[converting]";
                    ValueOps<T>::finishConverting(*w.promises[0], vid);
                } else {
                    w.promises[0]->finish(ValueOps<T>::make(vid));
                }
                break;
            }
            case 2: {
                int cj = int(t.u(2));
                if (!w.ctx[cj])
                    break;
                w.log += " destroyCtx(c" + std::to_string(cj) + ")";
                w.ctx[cj].reset();
                break;
            }
            case 3: {
                if (int(w.tasks.size()) >= maxTasks)
                    break;
                // a new task copy, obtained from the promise or by copying a task
                if (w.promises[0] && t.b()) {
                    w.tasks.emplace_back(w.promises[0]->task());
                    w.log += " task()";
                } else {
                    for (auto &x : w.tasks) {
                        if (x) {
                            w.tasks.emplace_back(*x);
                            w.log += " copyTask";
                            break;
                        }
                    }
                }
                w.multiCopy = true;
                break;
            }
            case 4: {
                if (w.tasks.empty())
                    break;
                int ti = int(t.u(uint32_t(w.tasks.size())));
                if (w.tasks[ti]) {
                    w.log += " dropTask(t" + std::to_string(ti) + ")";
                    w.tasks[ti].reset();
                }
                break;
            }
            case 5: {
                if (!w.promises[0])
                    break;
                if (w.promises.size() == 1) {
                    w.promises.emplace_back(*w.promises[0]);
                    w.log += " copyPromise";
                    w.multiCopy = true;
                } else if (w.promises[1]) {
                    w.promises[1].reset();
                    w.log += " dropPromiseCopy";
                } else if (w.finished || !w.cont) {
                    // drop the main promise too (only handle kept: tasks)
                    w.promises[0].reset();
                    w.log += " dropPromise";
                }
                break;
            }
            case 6: {
                if constexpr (!World<T>::isVoid) {
                    if (w.finished && w.stored) {
                        for (auto &x : w.tasks) {
                            if (x) {
                                w.log += " takeResult";
                                auto v = x->takeResult();
                                c.require(ValueOps<T>::idOf(v) == *w.stored, "c13 takeResult-wrong-value", "takeResult() returned another value; history:" + w.log);
                                w.stored.reset();
                                break;
                            }
                        }
                    }
                }
                break;
            }
            case 7:
                if (!small)
                    stop = true;
                break;
            }
            checkInvariants(w, c, "after step");
        }
        // labels / non-trivial rule
        bool hasThen = w.nextCont > (small ? 0 : 1);
        if (hasThen && w.finished) {
            if (w.ctxDiedBeforeFinish || w.reentered || w.multiCopy)
                c.nontrivial(vh::fnv(w.log));
        }
        c.label(std::string("type:") + (World<T>::isVoid ? "void" : VO::name()));
        if (w.finished)
            c.label("finished");
        if (w.reentered)
            c.label("reentrant");
        if (w.ctxDiedBeforeFinish)
            c.label("ctx-dead-at-finish");
        c.sample([&] { return std::string(World<T>::isVoid ? "void" : VO::name()) + ":" + w.log; });

        w.unfinishedSelfCapture = !w.finished && w.cont && w.cont->selfCapture;
        bool judgeBalance = !w.unfinishedSelfCapture;
        std::string history = w.log;
        bool ctxDead = w.ctxDiedBeforeFinish;
        // release every handle and context the harness owns
        w.tasks.clear();
        w.promises.clear();
        w.other.reset();
        w.ctx.clear();
        if (judgeBalance) {
            c.require(g_liveClosures == closures0, std::string("c13 continuation-not-released ") + (ctxDead ? "ctx-dead-at-finish" : "other"),
                      std::to_string(g_liveClosures - closures0) + " continuation closure(s) still alive after every task, promise and context was destroyed; history:" + history);
            c.require(g_liveValues == values0, "c13 value-not-released",
                      std::to_string(g_liveValues - values0) + " result value(s) still alive after every task and promise was destroyed; history:" + history);
        } else {
            c.label("excluded:self-capture-never-finished");
            // the cycle is the documented consequence of capturing a task in its own never-run continuation; restore the baseline
            g_liveClosures = closures0;
            g_liveValues = values0;
        }
    }
}

static void body(Tape &t, Ctx &c, bool small)
{
    int maxLen = int(c.param("len", small ? 5 : 20));
    switch (t.u(5)) {
    case 0: runWorld<void>(t, c, maxLen, small); break;
    case 1: runWorld<Tracked>(t, c, maxLen, small); break;
    case 2: runWorld<MoveOnly>(t, c, maxLen, small); break;
    // the same worlds finished through the converting overload finish(U&&), U != T
    case 3: c.label("finish:converting"); runWorld<Tracked>(t, c, maxLen, small, true); break;
    case 4: c.label("finish:converting"); runWorld<MoveOnly>(t, c, maxLen, small, true); break;
    }
}

// exhaustive small scope: 2 task copies, 2 contexts, 4 in-continuation actions, fixed length
VCHECK("c13.enum", 64) { body(t, c, true); }
// random, longer sequences over the full alphabet
VCHECK("c13.random", 160) { body(t, c, false); }

VH_MAIN()
