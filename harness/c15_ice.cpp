// C15 — ICE reacts only to checks authenticated with the session password; peers connect (DESIGN.md C15).
//
// c15.safety    One real QXmppIceConnection (one component) bound on 127.0.0.1.  The harness plays the honest peer
//               with its own STUN encoder (OpenSSL HMAC-SHA1, zlib CRC-32 — nothing of the library's encoder is
//               trusted) and drives the agent into a generated phase of an honest negotiation: idle (before
//               connectToHost) / started without candidates / checking / all checks failed (honest error replies) /
//               all checks answered / nominated.  Every phase is quiescent: no pair is left in the waiting state, so
//               the agent's own timers can only retransmit binding requests whose transaction ids the harness has
//               already seen.  Then a burst of 1-6 FORGED datagrams is sent from a harness socket (a known remote
//               candidate's port or a fresh one), followed by a non-STUN marker that the agent hands to the
//               application; when the marker has come out, the forged datagrams have been consumed.
//               Oracle: between the snapshot before the burst and the marker nothing externally visible may have
//               moved: isConnected(), `connected` emissions (connection and component), "ICE pair ..." log lines,
//               and every datagram the agent sent to any harness socket other than a retransmission of a request seen
//               before (a binding response to a forged request, a triggered check, a check to a new address are all
//               reactions).  Then one of two arms: (twin) the same burst is sent again under the RIGHT key and the
//               harness counts how often the state moves (non-vacuity; the check fails its own design when that never
//               happens); (probe) the honest peer completes the negotiation WITHOUT ever nominating and the final
//               state must be the one an untouched agent reaches (latent effects such as a forged USE-CANDIDATE that
//               only shows once the honest answer arrives).
// c15.liveness  Two real agents; credentials and candidates exchanged by the harness; roles proper / both controlling
//               / both controlled; 1-3 loopback addresses (127.0.0.1-3, ::1) x 1-2 components per agent; candidate
//               order permuted; optional harness STUN server (server-reflexive candidates); second agent started up
//               to 150 ms after the first; all traffic through a harness UDP relay that drops a generated subset of
//               the first up-to-6 datagrams (STUN only, and only until both agents are connected: nobody retransmits media).  Oracle: both emit connected(); advertised priorities and the PRIORITY
//               of every check equal RFC 5245 4.1.2.1 computed here; 1-3 payloads of 1..1400 bytes each way (per
//               component) arrive unchanged.
#include "lb.h"

#include "QXmppLogger.h"
#include "QXmppStun.h"

#include <QHostAddress>
#include <QUdpSocket>
#include <QtEndian>

#include <openssl/evp.h>
#include <openssl/hmac.h>
#include <zlib.h>

#include <memory>
#include <optional>

using vh::Ctx;
using vh::Tape;

namespace {

// ------------------------------------------------------------------ independent STUN encoder / TLV reader
constexpr quint32 MAGIC = 0x2112A442;
enum : quint16 {
    A_USERNAME = 0x0006,
    A_MI = 0x0008,
    A_ERROR = 0x0009,
    A_DATA = 0x0013,
    A_XORMAPPED = 0x0020,
    A_PRIORITY = 0x0024,
    A_USECAND = 0x0025,
    A_SOFTWARE = 0x8022,
    A_FINGERPRINT = 0x8028,
    A_CONTROLLED = 0x8029,
    A_CONTROLLING = 0x802a,
};
enum : quint16 { T_REQUEST = 0x0001, T_INDICATION = 0x0011, T_SUCCESS = 0x0101, T_ERROR = 0x0111 };

QByteArray be16(quint16 v)
{
    QByteArray o(2, 0);
    qToBigEndian<quint16>(v, reinterpret_cast<uchar *>(o.data()));
    return o;
}
QByteArray be32(quint32 v)
{
    QByteArray o(4, 0);
    qToBigEndian<quint32>(v, reinterpret_cast<uchar *>(o.data()));
    return o;
}
quint16 rd16(const QByteArray &b, int off) { return qFromBigEndian<quint16>(reinterpret_cast<const uchar *>(b.constData() + off)); }
quint32 rd32(const QByteArray &b, int off) { return qFromBigEndian<quint32>(reinterpret_cast<const uchar *>(b.constData() + off)); }
void setLen(QByteArray &b, int bodyLen) { qToBigEndian<quint16>(quint16(bodyLen), reinterpret_cast<uchar *>(b.data() + 2)); }

QByteArray hmacSha1(const QByteArray &key, const QByteArray &text)
{
    unsigned char out[EVP_MAX_MD_SIZE];
    unsigned int len = 0;
    static const char dummy = 0;
    HMAC(EVP_sha1(), key.isEmpty() ? &dummy : key.constData(), key.size(), reinterpret_cast<const unsigned char *>(text.constData()), size_t(text.size()), out, &len);
    return QByteArray(reinterpret_cast<const char *>(out), int(len));
}

struct Attr {
    quint16 type;
    QByteArray val;
    int declaredLen = -1;   // >= 0: lie about the length
};
QByteArray tlv(const Attr &a)
{
    QByteArray o = be16(a.type) + be16(quint16(a.declaredLen >= 0 ? a.declaredLen : a.val.size())) + a.val;
    while (o.size() % 4)
        o.append('\0');
    return o;
}
QByteArray stunHeader(quint16 type, const QByteArray &tid) { return be16(type) + be16(0) + be32(MAGIC) + tid; }
QByteArray miAttr(const QByteArray &prefix, const QByteArray &key)
{
    QByteArray p = prefix;
    setLen(p, p.size() - 20 + 24);
    return be16(A_MI) + be16(20) + hmacSha1(key, p);
}
QByteArray fpAttr(const QByteArray &prefix)
{
    QByteArray p = prefix;
    setLen(p, p.size() - 20 + 8);
    quint32 crc = quint32(crc32(0L, reinterpret_cast<const Bytef *>(p.constData()), uInt(p.size()))) ^ 0x5354554eu;
    return be16(A_FINGERPRINT) + be16(4) + be32(crc);
}
// key empty => no MESSAGE-INTEGRITY
QByteArray stunBuild(quint16 type, const QByteArray &tid, const std::vector<Attr> &attrs, const QByteArray &key, bool fp)
{
    QByteArray b = stunHeader(type, tid);
    for (auto &a : attrs)
        b += tlv(a);
    if (!key.isEmpty())
        b += miAttr(b, key);
    if (fp)
        b += fpAttr(b);
    setLen(b, b.size() - 20);
    return b;
}
Attr aUsername(const QString &u) { return { A_USERNAME, u.toUtf8() }; }
Attr aPriority(quint32 p) { return { A_PRIORITY, be32(p) }; }
Attr aUseCandidate() { return { A_USECAND, QByteArray() }; }
Attr aXorMapped(const QHostAddress &h, quint16 port, const QByteArray &tid)
{
    QByteArray v;
    v.append('\0');
    if (h.protocol() == QAbstractSocket::IPv6Protocol) {
        v.append('\2');
        v += be16(port ^ quint16(MAGIC >> 16));
        Q_IPV6ADDR a = h.toIPv6Address();
        QByteArray x = be32(MAGIC) + tid;
        for (int i = 0; i < 16; i++)
            v.append(char(a[i] ^ quint8(x[i])));
    } else {
        v.append('\1');
        v += be16(port ^ quint16(MAGIC >> 16));
        v += be32(h.toIPv4Address() ^ MAGIC);
    }
    return { A_XORMAPPED, v };
}
Attr aError(int code, const QByteArray &phrase)
{
    QByteArray v(2, 0);
    v.append(char(code / 100));
    v.append(char(code % 100));
    v += phrase;
    return { A_ERROR, v };
}

struct Parsed {
    bool stun = false;
    quint16 type = 0;
    QByteArray tid;
    std::vector<std::pair<quint16, QByteArray>> attrs;
    const QByteArray *find(quint16 a) const
    {
        for (auto &x : attrs)
            if (x.first == a)
                return &x.second;
        return nullptr;
    }
};
Parsed parseStun(const QByteArray &d)
{
    Parsed p;
    if (d.size() < 20 || rd32(d, 4) != MAGIC || rd16(d, 2) != d.size() - 20 || (quint8(d[0]) & 0xC0))
        return p;
    p.stun = true;
    p.type = rd16(d, 0);
    p.tid = d.mid(8, 12);
    int pos = 20;
    while (pos + 4 <= d.size()) {
        quint16 at = rd16(d, pos), al = rd16(d, pos + 2);
        if (pos + 4 + al > d.size())
            break;
        p.attrs.push_back({ at, d.mid(pos + 4, al) });
        pos += 4 + ((al + 3) / 4) * 4;
    }
    return p;
}
std::string hex(const QByteArray &b) { return b.toHex().toStdString(); }
const char *typeName(quint16 t)
{
    switch (t) {
    case T_REQUEST: return "binding-request";
    case T_INDICATION: return "binding-indication";
    case T_SUCCESS: return "binding-success";
    case T_ERROR: return "binding-error";
    }
    return "stun-other";
}

// RFC 5245 4.1.2.1, computed independently of the library
quint32 rfcPriority(int typePref, int component, int localPref = 65535)
{
    return (quint32(1) << 24) * quint32(typePref) + (quint32(1) << 8) * quint32(localPref) + quint32(256 - component);
}

QString genToken(Tape &t, int n)
{
    static const char alpha[] = "ABCDEFGHIJKLMNOPQRSTUVWXYZabcdefghijklmnopqrstuvwxyz0123456789+/";
    QString s;
    for (int i = 0; i < n; i++)
        s += QLatin1Char(alpha[t.u(64)]);
    return s;
}

// pump the event loop: at least `minIter` iterations and until `idleMs` without harness-visible activity
void pump(int idleMs, int maxMs, int minIter = 4)
{
    qint64 start = lb::clock().elapsed();
    lb::touch();
    int it = 0;
    while (lb::clock().elapsed() - start < maxMs) {
        QCoreApplication::processEvents(QEventLoop::AllEvents, 2);
        QCoreApplication::sendPostedEvents();
        it++;
        if (it >= minIter && lb::clock().elapsed() - lb::lastActivity() >= idleMs)
            break;
    }
}
void pumpFor(int ms)
{
    qint64 start = lb::clock().elapsed();
    while (lb::clock().elapsed() - start < ms)
        QCoreApplication::processEvents(QEventLoop::AllEvents, 2);
}

// ================================================================== c15.safety
struct Rx {
    int sock;
    QByteArray data;
};

struct SafetyCase {
    QObject ctx;
    QXmppIceConnection *ice = nullptr;
    QXmppIceComponent *comp = nullptr;
    std::vector<std::unique_ptr<QUdpSocket>> socks;   // [0,nCand): honest candidate sockets; then an optional fresh forging socket
    std::vector<Rx> rx;
    std::vector<std::string> pairLog;   // log lines containing "ICE pair"
    std::vector<std::string> warnLog;
    int connConnected = 0, compConnected = 0;
    std::vector<QByteArray> appData;

    QHostAddress agentHost = QHostAddress(QHostAddress::LocalHost);
    quint16 agentPort = 0;

    ~SafetyCase()
    {
        delete ice;
        socks.clear();
    }
    int addSocket()
    {
        auto s = std::make_unique<QUdpSocket>();
        if (!s->bind(QHostAddress(QHostAddress::LocalHost), 0))
            return -1;
        int idx = int(socks.size());
        QUdpSocket *raw = s.get();
        QObject::connect(raw, &QUdpSocket::readyRead, &ctx, [this, raw, idx] {
            while (raw->hasPendingDatagrams()) {
                QByteArray b(int(raw->pendingDatagramSize()), 0);
                raw->readDatagram(b.data(), b.size());
                rx.push_back({ idx, b });
                lb::touch();
            }
        });
        socks.push_back(std::move(s));
        return idx;
    }
    void send(int sock, const QByteArray &d)
    {
        socks[size_t(sock)]->writeDatagram(d, agentHost, agentPort);
        lb::touch();
    }
    int countLog(const char *needle) const
    {
        int n = 0;
        for (auto &l : pairLog)
            if (l.find(needle) != std::string::npos)
                n++;
        return n;
    }
};

struct Snapshot {
    bool connected;
    int connConnected, compConnected;
    size_t rxN, logN;
    std::set<std::pair<int, QByteArray>> seenRequests;   // (socket, transaction id) of requests the agent sent so far
};
Snapshot snapshot(const SafetyCase &S)
{
    Snapshot s { S.ice->isConnected(), S.connConnected, S.compConnected, S.rx.size(), S.pairLog.size(), {} };
    for (auto &r : S.rx) {
        Parsed p = parseStun(r.data);
        if (p.stun && p.type == T_REQUEST)
            s.seenRequests.insert({ r.sock, p.tid });
    }
    return s;
}

struct Reaction {
    std::string kind;     // stable, goes into the signature
    std::string detail;   // free text
    QByteArray tid;       // transaction id of a datagram sent by the agent (empty otherwise)
};
std::vector<Reaction> reactionsSince(const SafetyCase &S, const Snapshot &b, int forgerSock)
{
    std::vector<Reaction> out;
    if (S.ice->isConnected() != b.connected)
        out.push_back({ "isConnected-changed", std::string("isConnected() ") + (b.connected ? "true" : "false") + " -> " + (S.ice->isConnected() ? "true" : "false"), {} });
    if (S.connConnected != b.connConnected || S.compConnected != b.compConnected)
        out.push_back({ "connected-emitted", "connected() emitted: connection " + std::to_string(S.connConnected - b.connConnected) + "x, component " + std::to_string(S.compConnected - b.compConnected) + "x", {} });
    for (size_t i = b.rxN; i < S.rx.size(); i++) {
        const Rx &r = S.rx[i];
        Parsed p = parseStun(r.data);
        std::string to = r.sock == forgerSock ? "forging socket" : "candidate socket " + std::to_string(r.sock);
        if (!p.stun) {
            out.push_back({ "non-stun-datagram-sent", "agent sent " + std::to_string(r.data.size()) + " non-STUN bytes to " + to + ": " + hex(r.data.left(40)), {} });
            continue;
        }
        if (p.type == T_REQUEST && b.seenRequests.count({ r.sock, p.tid }))
            continue;   // retransmission of a check that was in flight before the burst
        std::string kind = p.type == T_REQUEST ? "new-check-sent" : p.type == T_SUCCESS ? "binding-response-sent" : std::string(typeName(p.type)) + "-sent";
        out.push_back({ kind, std::string("agent sent ") + typeName(p.type) + " tid=" + hex(p.tid) + " to " + to, p.tid });
    }
    for (size_t i = b.logN; i < S.pairLog.size(); i++) {
        const std::string &l = S.pairLog[i];
        std::string kind = "pair-log";
        for (const char *st : { "in-progress", "succeeded", "failed", "selected" })
            if (l.find(st) != std::string::npos) {
                kind = std::string("pair-") + st;
                break;
            }
        out.push_back({ kind, "log: " + l, {} });
    }
    return out;
}

enum Kind { K_REQUEST, K_SUCCESS, K_ERROR, K_INDICATION };
enum Integ { I_NONE, I_WRONGKEY, I_NEARKEY, I_PREFIXKEY, I_EXTENDEDKEY, I_TRUNCATED, I_SWALLOWED, I_COUNT };
const char *kindName[] = { "request", "success-response", "error-response", "indication" };
const char *integName[] = { "no-mi", "mi-wrong-key", "mi-one-char-off-key", "mi-prefix-of-key", "mi-extended-key", "mi-truncated", "mi-swallowed" };

struct Forged {
    Kind kind;
    Integ integ;
    bool useCandidate;
    int username;   // 0 receiver:sender (what RFC 5245 expects on an incoming check), 1 sender:receiver, 2 wrong, 3 absent
    int role;       // 0 none, 1 controlling, 2 controlled, 3 both
    int prio;       // 0 absent, 1 peer-reflexive, 2 random, 3 zero, 4 max
    bool inflightTid;
    bool fp;
    QByteArray tid;
    std::vector<Attr> attrs;
    QByteArray rightKey;
    QByteArray forgedBytes, twinBytes;
    bool wouldReact = false;
    std::string desc;
};

quint16 typeOf(Kind k) { return k == K_REQUEST ? T_REQUEST : k == K_SUCCESS ? T_SUCCESS : k == K_ERROR ? T_ERROR : T_INDICATION; }

}   // namespace

VCHECK("c15.safety", 900)
{
    SafetyCase S;
    // ---------------- generated configuration
    const bool controlling = t.b();
    const int compId = t.pick<int>({ 1, 1, 2, 7, 256 });
    const int nCand = int(t.u(3));
    const QString remoteUser = genToken(t, 4);
    const QString remotePassword = genToken(t, t.pick<int>({ 22, 22, 22, 6, 32, 70 }));
    enum Phase { IDLE, CHECKING, FAILED, ANSWERED, NOMINATED };
    Phase phase = nCand == 0 ? Phase(t.u(2)) : Phase(t.weighted({ 4, 4, 2, 3, 3 }));
    const bool nocreds = phase == IDLE && t.prob(1, 4);   // remote credentials not set yet (a Jingle initiator waiting for session-accept)
    const bool fromKnown = nCand > 0 && t.prob(2, 3);
    const int forgerPick = fromKnown ? int(t.u(uint32_t(nCand))) : -1;
    const bool waitForTimer = t.prob(1, 6);     // second pair: wait for the 500 ms check timer instead of an honest triggering request
    const bool nominateFirst = t.b();           // NOMINATED: honest USE-CANDIDATE request before / after the answers
    const int honestErrorCode = t.pick<int>({ 400, 401, 487, 500 });

    static const char *phaseName[] = { "idle", "checking", "failed", "answered", "nominated" };
    std::string caseDesc = std::string(controlling ? "controlling" : "controlled") + " comp=" + std::to_string(compId) + " cands=" + std::to_string(nCand) +
        " phase=" + (nCand == 0 && phase == CHECKING ? "started-no-candidates" : phaseName[phase]) + (nocreds ? " (no remote credentials yet)" : "") +
        " forger=" + (fromKnown ? "candidate-port#" + std::to_string(forgerPick) : "fresh-port");

    // ---------------- the agent
    S.ice = new QXmppIceConnection;
    S.ice->setIceControlling(controlling);
    S.ice->addComponent(compId);
    QObject::connect(S.ice, &QXmppLoggable::logMessage, &S.ctx, [&S](QXmppLogger::MessageType type, const QString &text) {
        if (text.contains(QLatin1String("ICE pair"))) {
            S.pairLog.push_back(vh::s(text));
            lb::touch();
        }
        if (type == QXmppLogger::WarningMessage)
            S.warnLog.push_back(vh::s(text));
    });
    QObject::connect(S.ice, &QXmppIceConnection::connected, &S.ctx, [&S] {
        S.connConnected++;
        lb::touch();
    });
    if (!S.ice->bind({ QHostAddress(QHostAddress::LocalHost) })) {
        c.label("setup:bind-failed");
        return;
    }
    S.comp = S.ice->component(compId);
    if (!S.comp || S.comp->localCandidates().size() != 1) {
        c.label("setup:no-local-candidate");
        return;
    }
    QObject::connect(S.comp, &QXmppIceComponent::connected, &S.ctx, [&S] {
        S.compConnected++;
        lb::touch();
    });
    QObject::connect(S.comp, &QXmppIceComponent::datagramReceived, &S.ctx, [&S](const QByteArray &d) {
        S.appData.push_back(d);
        lb::touch();
    });
    S.agentPort = S.comp->localCandidates().first().port();
    c.require(S.comp->localCandidates().first().host() == S.agentHost && S.agentPort != 0, "c15.safety setup local-candidate-not-loopback",
              "bind({127.0.0.1}) produced local candidate " + vh::s(S.comp->localCandidates().first().host().toString()));
    const QString localUser = S.ice->localUser();
    const QByteArray localKey = S.ice->localPassword().toUtf8();
    const QByteArray remoteKey = remotePassword.toUtf8();

    // honest candidate sockets exist (and are bound) before they are announced
    for (int i = 0; i < nCand; i++) {
        if (S.addSocket() < 0) {
            c.label("setup:bind-failed");
            return;
        }
        QXmppJingleCandidate cand;
        cand.setComponent(compId);
        cand.setHost(QHostAddress(QHostAddress::LocalHost));
        cand.setPort(S.socks[size_t(i)]->localPort());
        cand.setProtocol(QStringLiteral("udp"));
        cand.setType(QXmppJingleCandidate::HostType);
        cand.setPriority(int(rfcPriority(126, compId)));
        cand.setId(QStringLiteral("c%1").arg(i));
        cand.setFoundation(QStringLiteral("f%1").arg(i));
        S.ice->addRemoteCandidate(cand);
    }
    int forger = forgerPick;
    if (forger < 0) {
        forger = S.addSocket();
        if (forger < 0) {
            c.label("setup:bind-failed");
            return;
        }
    }
    if (!nocreds) {
        S.ice->setRemoteUser(remoteUser);
        S.ice->setRemotePassword(remotePassword);
    }

    // ---------------- honest peer primitives
    std::set<QByteArray> answered;
    std::vector<QByteArray> honestTids;
    int tidCounter = 0;
    auto freshTid = [&] {
        QByteArray id = t.bytes(11);
        id.append(char(tidCounter++));
        return id;
    };
    auto requestsAt = [&](int sock) {
        std::vector<QByteArray> ids;
        for (auto &r : S.rx) {
            if (r.sock != sock)
                continue;
            Parsed p = parseStun(r.data);
            if (p.stun && p.type == T_REQUEST && std::find(ids.begin(), ids.end(), p.tid) == ids.end())
                ids.push_back(p.tid);
        }
        return ids;
    };
    auto allCandSocketsHaveChecks = [&] {
        for (int i = 0; i < nCand; i++)
            if (requestsAt(i).empty())
                return false;
        return true;
    };
    auto honestRequest = [&](int sock, bool useCandidate) {
        std::vector<Attr> a = { aUsername(localUser + u':' + remoteUser), aPriority(rfcPriority(110, compId)) };
        if (useCandidate)
            a.push_back(aUseCandidate());
        a.push_back({ controlling ? A_CONTROLLED : A_CONTROLLING, QByteArray(8, char(0x5a + sock)) });
        QByteArray id = freshTid();
        honestTids.push_back(id);
        S.send(sock, stunBuild(T_REQUEST, id, a, localKey, true));
        return id;
    };
    auto answerAll = [&](bool success) {
        int n = 0;
        for (int i = 0; i < nCand; i++)
            for (auto &id : requestsAt(i)) {
                if (answered.count(id))
                    continue;
                answered.insert(id);
                n++;
                if (success)
                    S.send(i, stunBuild(T_SUCCESS, id, { aXorMapped(S.agentHost, S.agentPort, id) }, remoteKey, true));
                else
                    S.send(i, stunBuild(T_ERROR, id, { aError(honestErrorCode, "honest refusal") }, remoteKey, true));
            }
        return n;
    };
    auto setupFail = [&](const std::string &what) {
        std::string logs;
        for (auto &l : S.pairLog)
            logs += "\n  " + l;
        for (auto &l : S.warnLog)
            logs += "\n  warning: " + l;
        c.fail(std::string("c15.safety honest-phase-not-reached phase=") + phaseName[phase] + (controlling ? " controlling " : " controlled ") + what,
               "the harness-played honest peer could not bring the agent into the phase: " + what + "; case: " + caseDesc + logs);
    };
    // bring every pair out of the waiting state so that the agent's timers have nothing new to do
    auto startChecks = [&] {
        S.ice->connectToHost();
        if (nCand == 0) {
            pump(3, 50);
            return;
        }
        if (!lb::settleUntil([&] { for (int i = 0; i < nCand; i++) if (!requestsAt(i).empty()) return true; return false; }, 1500))
            setupFail("no-check-sent");
        if (!allCandSocketsHaveChecks() && !waitForTimer) {
            // an authenticated request from the not-yet-checked candidate triggers its check at once (RFC 5245 7.2.1.4)
            for (int i = 0; i < nCand; i++)
                if (requestsAt(i).empty())
                    honestRequest(i, false);
        }
        if (!lb::settleUntil(allCandSocketsHaveChecks, 2500))
            setupFail("check-missing-for-a-candidate");
        if (!lb::settleUntil([&] { return S.countLog("in-progress") >= nCand; }, 500))
            setupFail("pairs-not-in-progress");
    };

    bool honestNominated = false;
    if (phase >= CHECKING)
        startChecks();
    if (nCand > 0) {
        switch (phase) {
        case IDLE:
        case CHECKING:
            break;
        case FAILED:
            answerAll(false);
            if (!lb::settleUntil([&] { return S.countLog("state failed") >= nCand; }, 1500))
                setupFail("pairs-not-failed-after-error-replies");
            break;
        case ANSWERED:
            answerAll(true);
            if (!lb::settleUntil([&] { return S.countLog("state succeeded") >= nCand; }, 1500))
                setupFail("pairs-not-succeeded-after-answers");
            break;
        case NOMINATED: {
            auto nominate = [&] {
                // the honest peer's own check from candidate 0; it carries USE-CANDIDATE when the peer is the controlling side
                QByteArray id = honestRequest(0, !controlling);
                honestNominated = !controlling;
                if (!lb::settleUntil([&] {
                        for (auto &r : S.rx) {
                            Parsed p = parseStun(r.data);
                            if (r.sock == 0 && p.stun && p.type == T_SUCCESS && p.tid == id)
                                return true;
                        }
                        return false;
                    }, 1500))
                    setupFail("honest-request-not-answered");
            };
            if (nominateFirst)
                nominate();
            for (int round = 0; round < 4; round++) {
                int n = answerAll(true);
                pump(4, 100);
                if (!n && round > 0)
                    break;
            }
            if (!nominateFirst) {
                nominate();
                for (int round = 0; round < 3; round++) {
                    pump(4, 100);
                    if (!answerAll(true))
                        break;
                }
            }
            break;
        }
        }
    }
    pump(4, 150);
    {
        bool expectConnected = nCand > 0 && ((phase == ANSWERED && controlling) || phase == NOMINATED);
        if (S.ice->isConnected() != expectConnected)
            setupFail(expectConnected ? "not-connected" : "connected-too-early");
    }
    c.label(std::string("phase:") + (nCand == 0 && phase == CHECKING ? "started-no-candidates" : phaseName[phase]));
    c.label(controlling ? "role:controlling" : "role:controlled");
    c.label(fromKnown ? "forger:candidate-port" : "forger:fresh-port");

    // ---------------- the forged burst
    std::vector<QByteArray> inflightAtForger, inflightAnywhere;
    for (int i = 0; i < int(S.socks.size()); i++)
        for (auto &id : requestsAt(i)) {
            if (answered.count(id))
                continue;
            inflightAnywhere.push_back(id);
            if (i == forger)
                inflightAtForger.push_back(id);
        }
    const int nForged = 1 + int(t.u(6));
    std::vector<Forged> burst;
    for (int k = 0; k < nForged; k++) {
        Forged f;
        f.kind = Kind(t.weighted({ 6, 4, 1, 1 }));
        f.integ = Integ(t.u(I_COUNT));
        f.useCandidate = t.b();
        f.username = int(t.weighted({ 3, 2, 2, 2 }));
        f.role = int(t.u(4));
        f.prio = int(t.u(5));
        f.inflightTid = t.prob(2, 3);
        f.fp = t.b();
        f.rightKey = (f.kind == K_REQUEST || f.kind == K_INDICATION) ? localKey : remoteKey;
        bool haveInflight = false;
        if (f.inflightTid && !inflightAtForger.empty()) {
            f.tid = t.pick(inflightAtForger);
            haveInflight = true;
        } else if (f.inflightTid && !inflightAnywhere.empty()) {
            f.tid = t.pick(inflightAnywhere);
            haveInflight = true;
        } else {
            f.inflightTid = false;
            f.tid = freshTid();
        }
        // attributes
        if (f.kind == K_SUCCESS)
            f.attrs.push_back(aXorMapped(S.agentHost, S.agentPort, f.tid));
        if (f.kind == K_ERROR)
            f.attrs.push_back(aError(t.pick<int>({ 400, 401, 487 }), "forged"));
        if (f.prio) {
            quint32 p = f.prio == 1 ? rfcPriority(110, compId) : f.prio == 2 ? t.u(0) : f.prio == 3 ? 0u : 0xffffffffu;
            f.attrs.push_back(aPriority(p));
        }
        if (f.useCandidate)
            f.attrs.push_back(aUseCandidate());
        if (f.username == 0)
            f.attrs.push_back(aUsername(localUser + u':' + remoteUser));
        else if (f.username == 1)
            f.attrs.push_back(aUsername(remoteUser + u':' + localUser));
        else if (f.username == 2)
            f.attrs.push_back(aUsername(genToken(t, 4) + u':' + genToken(t, 4)));
        if (f.role & 1)
            f.attrs.push_back({ A_CONTROLLING, t.bytes(8) });
        if (f.role & 2)
            f.attrs.push_back({ A_CONTROLLED, t.bytes(8) });

        // the forged datagram may carry the reserved two top bits of the message type (RFC 5389 wants them zero; class and
        // method are in the lower bits, so a parser that masks differently in different places may classify it twice)
        const quint16 reservedBits = t.prob(1, 5) ? t.pick<quint16>({ 0x4000, 0x8000, 0xC000 }) : quint16(0);
        const quint16 twinType = typeOf(f.kind);
        const quint16 type = quint16(twinType | reservedBits);
        f.twinBytes = stunBuild(twinType, f.tid, f.attrs, f.rightKey, f.fp);
        switch (f.integ) {
        case I_NONE:
            f.forgedBytes = stunBuild(type, f.tid, f.attrs, QByteArray(), f.fp);
            break;
        case I_WRONGKEY:
            f.forgedBytes = stunBuild(type, f.tid, f.attrs, genToken(t, f.rightKey.size()).toUtf8() + "!", f.fp);
            break;
        case I_NEARKEY: {
            QByteArray k = f.rightKey;
            int pos = int(t.u(uint32_t(k.size())));
            k[pos] = char(k[pos] ^ char(1 << t.u(7)));
            f.forgedBytes = stunBuild(type, f.tid, f.attrs, k, f.fp);
            break;
        }
        case I_PREFIXKEY:
            f.forgedBytes = stunBuild(type, f.tid, f.attrs, f.rightKey.left(1 + int(t.u(uint32_t(f.rightKey.size() - 1)))), f.fp);
            break;
        case I_EXTENDEDKEY:
            f.forgedBytes = stunBuild(type, f.tid, f.attrs, f.rightKey + char(1 + t.u(255)), f.fp);
            break;
        case I_TRUNCATED: {
            // right key, but the datagram ends inside the MESSAGE-INTEGRITY value; header length made consistent
            QByteArray full = stunBuild(type, f.tid, f.attrs, f.rightKey, false);
            int keep = t.pick<int>({ 0, 4, 8, 12, 16, 19, 1, 10 });
            QByteArray cut = full.left(full.size() - 20 + keep);
            if (t.b())   // the attribute admits its real length
                qToBigEndian<quint16>(quint16(keep), reinterpret_cast<uchar *>(cut.data() + cut.size() - keep - 2));
            if (t.b())
                while (cut.size() % 4)
                    cut.append('\0');
            setLen(cut, cut.size() - 20);
            f.forgedBytes = cut;
            f.fp = false;
            break;
        }
        case I_SWALLOWED: {
            // a correct MESSAGE-INTEGRITY is present in the bytes, but the preceding attribute's length covers it
            quint16 swType = t.pick<quint16>({ A_SOFTWARE, A_USERNAME, A_DATA, quint16(0xC057) });
            QByteArray filler = t.bytes(4 * t.u(3));
            QByteArray b = stunHeader(type, f.tid);
            for (auto &a : f.attrs)
                b += tlv(a);
            b += be16(swType) + be16(quint16(filler.size() + 24)) + filler;
            b += miAttr(b, f.rightKey);   // valid for exactly these bytes, if a parser looked for it at this offset
            if (f.fp)
                b += fpAttr(b);
            setLen(b, b.size() - 20);
            f.forgedBytes = b;
            break;
        }
        default: break;
        }
        // would the authenticated twin be acted upon?  (used for the non-trivial count and to cross-check the twin arm)
        if (f.kind == K_REQUEST) {
            bool conflict = controlling ? ((f.role & 1) || f.useCandidate) : bool(f.role & 2);
            f.wouldReact = !conflict;
        } else if (f.kind == K_SUCCESS || f.kind == K_ERROR) {
            f.wouldReact = haveInflight && !nocreds;
        }
        static const char *un[] = { "user=rcv:snd", "user=snd:rcv", "user=wrong", "user=absent" };
        static const char *rn[] = { "role=none", "role=controlling", "role=controlled", "role=both" };
        static const char *pn[] = { "prio=absent", "prio=prflx", "prio=random", "prio=0", "prio=max" };
        f.desc = std::string(kindName[f.kind]) + "/" + integName[f.integ] + (f.useCandidate ? " USE-CANDIDATE " : " ") + un[f.username] + " " + rn[f.role] + " " + pn[f.prio] +
            (f.inflightTid ? " tid=in-flight" : " tid=random") + (f.fp ? " +fp" : "") + (reservedBits ? " type|=0x" + QByteArray::number(reservedBits, 16).toStdString() : std::string()) + (f.wouldReact ? " [live if authenticated]" : "");
        if (reservedBits)
            c.label("forged:reserved-type-bits");
        c.label(std::string("forged:") + kindName[f.kind] + "/" + integName[f.integ]);
        if ((f.kind == K_SUCCESS || f.kind == K_ERROR) && haveInflight && fromKnown)
            c.label("forged:response-to-in-flight-check-from-a-candidate-port");
        burst.push_back(std::move(f));
    }
    std::string burstDesc;
    bool anyLive = false;
    for (auto &f : burst) {
        burstDesc += "\n  " + f.desc + "  bytes=" + hex(f.forgedBytes);
        anyLive = anyLive || f.wouldReact;
    }
    c.sample([&] { return caseDesc + burstDesc; });
    if (anyLive) {
        uint64_t h = vh::fnv(caseDesc);
        for (auto &f : burst)
            h = vh::fnv(f.desc, h);
        c.nontrivial(h);
    }
    // sanity of the generator itself: a forged datagram must be a STUN message as far as the agent's demultiplexer is
    // concerned (header length consistent), otherwise it would be handed to the application as media
    for (auto &f : burst)
        c.require(rd16(f.forgedBytes, 2) == f.forgedBytes.size() - 20 && rd32(f.forgedBytes, 4) == MAGIC, "c15.safety design forged-datagram-not-stun", "generator bug: " + f.desc);

    auto sendBurstAndMarker = [&](bool twin, const QByteArray &marker) {
        for (auto &f : burst)
            S.send(forger, twin ? f.twinBytes : f.forgedBytes);
        S.send(forger, marker);
        bool seen = lb::settleUntil([&] { return std::find(S.appData.begin(), S.appData.end(), marker) != S.appData.end(); }, 3000);
        pump(8, 400, 6);
        return seen;
    };

    const Snapshot before = snapshot(S);
    const QByteArray marker1 = QByteArray("MK1") + t.bytes(6);
    if (!sendBurstAndMarker(false, marker1)) {
        c.label("inconclusive:marker-lost");
        return;
    }
    {
        auto re = reactionsSince(S, before, forger);
        if (!re.empty()) {
            // attribute to a forged message where possible (transaction id of what the agent sent)
            const Forged *culprit = nullptr;
            for (auto &r : re)
                for (auto &f : burst)
                    if (!culprit && r.kind == "binding-response-sent" && f.kind == K_REQUEST && r.tid == f.tid)
                        culprit = &f;
            std::string kinds, details;
            std::set<std::string> ks;
            for (auto &r : re) {
                if (ks.insert(r.kind).second)
                    kinds += (kinds.empty() ? "" : "+") + r.kind;
                details += "\n  " + r.detail;
            }
            std::string who;
            if (culprit)
                who = std::string(kindName[culprit->kind]) + "/" + integName[culprit->integ];
            else {
                // not attributable from the wire: name the forged messages that would be live if authenticated
                std::set<std::string> vs;
                for (auto &f : burst)
                    if (f.wouldReact)
                        vs.insert(std::string(kindName[f.kind]) + "/" + integName[f.integ]);
                if (vs.empty())
                    for (auto &f : burst)
                        vs.insert(std::string(kindName[f.kind]) + "/" + integName[f.integ]);
                for (auto &v : vs)
                    who += (who.empty() ? "" : ",") + v;
            }
            c.fail("c15.safety forged-traffic-changed-state [" + who + "] -> " + kinds,
                   "unauthenticated datagrams changed the agent's externally visible connectivity state.\n case: " + caseDesc + "\n forged burst:" + burstDesc + "\n reactions:" + details);
        }
    }

    // ---------------- second arm
    static uint64_t twinRuns = 0, twinReacted = 0, twinPredicted = 0, twinMismatch = 0;
    const bool probeApplicable = nCand > 0 && !nocreds && (phase == IDLE || phase == CHECKING);
    const bool doProbe = probeApplicable && t.b();
    if (!doProbe) {
        // (twin) the same traffic under the right key
        c.label("arm:twin");
        const Snapshot b2 = snapshot(S);
        const QByteArray marker2 = QByteArray("MK2") + t.bytes(6);
        if (!sendBurstAndMarker(true, marker2)) {
            c.label("inconclusive:marker-lost");
            return;
        }
        auto re = reactionsSince(S, b2, forger);
        twinRuns++;
        if (!re.empty())
            twinReacted++;
        if (anyLive)
            twinPredicted++;
        c.label(re.empty() ? "twin:no-state-change" : "twin:state-changed");
        // observation, not judged by C15 (the sender knows the password): is USERNAME looked at at all?
        static uint64_t badUserAnswered = 0, badUserLive = 0;
        for (auto &f : burst) {
            if (f.kind != K_REQUEST || !f.wouldReact || f.username == 0)
                continue;
            badUserLive++;
            for (auto &r : re)
                if (r.kind == "binding-response-sent" && r.tid == f.tid) {
                    badUserAnswered++;
                    c.label(f.username == 1 ? "twin:authenticated-request-with-swapped-USERNAME-answered" : f.username == 2 ? "twin:authenticated-request-with-wrong-USERNAME-answered" : "twin:authenticated-request-without-USERNAME-answered");
                    break;
                }
        }
        c.notes["twin_requests_with_bad_username"] = std::to_string(badUserLive);
        c.notes["twin_requests_with_bad_username_answered"] = std::to_string(badUserAnswered);
        if (re.empty() != !anyLive) {
            twinMismatch++;
            c.label(re.empty() ? "twin:predicted-live-but-silent" : "twin:predicted-dead-but-reacted");
        }
        c.notes["twin_runs"] = std::to_string(twinRuns);
        c.notes["twin_state_changed"] = std::to_string(twinReacted);
        c.notes["twin_predicted_live"] = std::to_string(twinPredicted);
        c.notes["twin_prediction_mismatch"] = std::to_string(twinMismatch);
        c.require(!(twinRuns >= 60 && twinReacted == 0), "c15.safety design non-vacuity-arm-never-changed-state",
                  "60 bursts re-sent under the right key never changed the observed state: the observation window is blind");
        return;
    }
    // (probe) finish the negotiation honestly, never nominating: a controlled agent must stay unconnected, a controlling one connects
    c.label("arm:probe");
    if (phase == IDLE)
        startChecks();
    for (int round = 0; round < 4; round++) {
        int n = answerAll(true);
        pump(4, 120);
        if (!n && round > 0)
            break;
    }
    const bool expectConnected = controlling;
    std::string logs;
    for (auto &l : S.pairLog)
        logs += "\n  " + l;
    if (S.ice->isConnected() && !expectConnected)
        c.fail("c15.safety latent controlled-agent-connected-without-authenticated-nomination",
               "after the forged burst the honest peer answered all checks and never sent USE-CANDIDATE, yet the controlled agent reports connected.\n case: " + caseDesc + "\n forged burst:" + burstDesc + "\n log:" + logs);
    if (!S.ice->isConnected() && expectConnected)
        c.fail("c15.safety latent controlling-agent-not-connected-after-honest-answers",
               "after the forged burst the honest peer answered all checks but the controlling agent did not connect.\n case: " + caseDesc + "\n forged burst:" + burstDesc + "\n log:" + logs);
    c.require(S.connConnected == (expectConnected ? 1 : 0) && S.compConnected == (expectConnected ? 1 : 0), "c15.safety latent connected-emission-count",
              "connected() emitted " + std::to_string(S.connConnected) + "x by the connection and " + std::to_string(S.compConnected) + "x by the component; expected " + (expectConnected ? "1" : "0") + ".\n case: " + caseDesc + "\n forged burst:" + burstDesc);
    c.label(expectConnected ? "probe:connected-as-expected" : "probe:unconnected-as-expected");
}

// ================================================================== c15.liveness
namespace {

struct LiveParams {
    int roles = 0;   // 0: A controlling / B controlled, 1: A controlled / B controlling, 2: both controlling, 3: both controlled
    std::vector<int> comps;
    QList<QHostAddress> addrA, addrB;
    std::vector<uint32_t> permA, permB;
    bool aFirst = true;
    int delayMs = 0;
    int dropWindow = 0;
    uint32_t dropMask = 0;
    bool stun = false;
    std::vector<QByteArray> payAB, payBA;
    std::string desc;
};

struct LiveAgent {
    QXmppIceConnection *ice = nullptr;
    bool controlling = false;
    int connected = 0, disconnected = 0;
    qint64 connectedAtMs = -1;
    int roleConflicts = 0;
    std::vector<std::string> log;
    std::map<int, std::vector<QByteArray>> received;
    QList<QXmppJingleCandidate> cands;
};

struct RelayPort {
    std::unique_ptr<QUdpSocket> sock;
    int owner;   // 0: stands for a candidate of A (faces B); 1: stands for a candidate of B (faces A)
    QHostAddress targetHost;
    quint16 targetPort;
    int comp;
};

struct LiveOutcome {
    bool setupFailed = false;
    std::string setupWhy;
    bool connA = false, connB = false, gaveUp = false;
    qint64 msA = -1, msB = -1;
    int roleConflicts = 0, relayed = 0, dropped = 0, unknownSource = 0, sent487 = 0, nCandA = 0, nCandB = 0, srflx = 0;
    std::string prioSig, prioMsg;
    std::string paySig, payMsg;
    bool reordered = false;
    std::string trace;
};

struct LiveRun {
    QObject ctx;
    LiveAgent ag[2];
    std::vector<std::unique_ptr<RelayPort>> ports;
    std::unique_ptr<QUdpSocket> stunServer;
    ~LiveRun()
    {
        ports.clear();
        stunServer.reset();
        delete ag[0].ice;
        delete ag[1].ice;
    }
};

bool sameEndpoint(const QHostAddress &a, quint16 ap, const QHostAddress &b, quint16 bp)
{
    return ap == bp && a.isEqual(b, QHostAddress::ConvertV4MappedToIPv4);   // NOT TolerantConversion: that equates ::1 with 127.0.0.1
}

LiveOutcome runNegotiation(const LiveParams &P, int deadlineMs)
{
    LiveOutcome o;
    QElapsedTimer clk;
    int relayedCount = 0;
    bool dropsOpen = true;
    LiveRun R;
    // optional STUN server: reports the source address it sees (no NAT on loopback)
    if (P.stun) {
        R.stunServer = std::make_unique<QUdpSocket>();
        if (!R.stunServer->bind(QHostAddress(QHostAddress::LocalHost), 0)) {
            o.setupFailed = true;
            o.setupWhy = "stun-bind";
            return o;
        }
        QUdpSocket *s = R.stunServer.get();
        QObject::connect(s, &QUdpSocket::readyRead, &R.ctx, [s] {
            while (s->hasPendingDatagrams()) {
                QByteArray b(int(s->pendingDatagramSize()), 0);
                QHostAddress h;
                quint16 p = 0;
                s->readDatagram(b.data(), b.size(), &h, &p);
                Parsed q = parseStun(b);
                if (q.stun && q.type == T_REQUEST)
                    s->writeDatagram(stunBuild(T_SUCCESS, q.tid, { aXorMapped(QHostAddress(h.toIPv4Address()), p, q.tid) }, QByteArray(), true), h, p);
            }
        });
    }
    for (int i = 0; i < 2; i++) {
        LiveAgent &a = R.ag[i];
        a.controlling = P.roles == 2 || (P.roles == 0 && i == 0) || (P.roles == 1 && i == 1);
        a.ice = new QXmppIceConnection;
        a.ice->setIceControlling(a.controlling);
        for (int comp : P.comps)
            a.ice->addComponent(comp);
        if (P.stun)
            a.ice->setStunServer(QHostAddress(QHostAddress::LocalHost), R.stunServer->localPort());
        LiveAgent *ap = &a;
        QObject::connect(a.ice, &QXmppLoggable::logMessage, &R.ctx, [ap](QXmppLogger::MessageType type, const QString &text) {
            if (text.contains(QLatin1String("Role conflict")))
                ap->roleConflicts++;
            if (type == QXmppLogger::WarningMessage || text.contains(QLatin1String("ICE ")))
                if (ap->log.size() < 60)
                    ap->log.push_back(vh::s(text));
        });
        QObject::connect(a.ice, &QXmppIceConnection::connected, &R.ctx, [ap, &clk] {
            ap->connected++;
            if (ap->connectedAtMs < 0)
                ap->connectedAtMs = clk.isValid() ? clk.elapsed() : 0;
        });
        QObject::connect(a.ice, &QXmppIceConnection::disconnected, &R.ctx, [ap] { ap->disconnected++; });
        if (!a.ice->bind(i == 0 ? P.addrA : P.addrB)) {
            o.setupFailed = true;
            o.setupWhy = "agent-bind";
            return o;
        }
        for (int comp : P.comps) {
            QXmppIceComponent *cp = a.ice->component(comp);
            QObject::connect(cp, &QXmppIceComponent::datagramReceived, &R.ctx, [ap, comp](const QByteArray &d) { ap->received[comp].push_back(d); });
        }
    }
    if (P.stun) {
        bool done = lb::settleUntil([&] {
            return R.ag[0].ice->gatheringState() == QXmppIceConnection::CompleteGatheringState && R.ag[1].ice->gatheringState() == QXmppIceConnection::CompleteGatheringState;
        }, 4000);
        if (!done) {
            o.setupFailed = true;
            o.setupWhy = "gathering-not-complete";
            return o;
        }
    }
    // ---- advertised candidates and their priorities
    for (int i = 0; i < 2; i++) {
        LiveAgent &a = R.ag[i];
        a.cands = a.ice->localCandidates();
        (i == 0 ? o.nCandA : o.nCandB) = a.cands.size();
        if (a.cands.isEmpty()) {
            o.setupFailed = true;
            o.setupWhy = "no-local-candidates";
            return o;
        }
        for (auto &cand : a.cands) {
            int pref = -1;
            const char *tn = "other";
            switch (cand.type()) {
            case QXmppJingleCandidate::HostType: pref = 126, tn = "host"; break;
            case QXmppJingleCandidate::PeerReflexiveType: pref = 110, tn = "peer-reflexive"; break;
            case QXmppJingleCandidate::ServerReflexiveType: pref = 100, tn = "server-reflexive", o.srflx++; break;
            default: break;
            }
            if (pref < 0)
                continue;
            quint32 want = rfcPriority(pref, cand.component());
            if (quint32(cand.priority()) != want && o.prioSig.empty()) {
                o.prioSig = std::string("c15 liveness candidate-priority-not-rfc5245 ") + tn;
                o.prioMsg = std::string(tn) + " candidate " + vh::s(cand.host().toString()) + ":" + std::to_string(cand.port()) + " component " + std::to_string(cand.component()) +
                    " advertises priority " + std::to_string(quint32(cand.priority())) + ", RFC 5245 4.1.2.1 gives " + std::to_string(want);
            }
        }
    }
    // ---- credentials
    R.ag[0].ice->setRemoteUser(R.ag[1].ice->localUser());
    R.ag[0].ice->setRemotePassword(R.ag[1].ice->localPassword());
    R.ag[1].ice->setRemoteUser(R.ag[0].ice->localUser());
    R.ag[1].ice->setRemotePassword(R.ag[0].ice->localPassword());
    // ---- relay: one port per distinct transport address of each agent
    auto portFor = [&](int owner, const QHostAddress &h, quint16 p) -> RelayPort * {
        for (auto &rp : R.ports)
            if (rp->owner == owner && sameEndpoint(rp->targetHost, rp->targetPort, h, p))
                return rp.get();
        return nullptr;
    };
    for (int owner = 0; owner < 2; owner++)
        for (auto &cand : R.ag[owner].cands) {
            if (portFor(owner, cand.host(), cand.port()))
                continue;
            auto rp = std::make_unique<RelayPort>();
            rp->owner = owner;
            rp->targetHost = cand.host();
            rp->targetPort = cand.port();
            rp->comp = cand.component();
            rp->sock = std::make_unique<QUdpSocket>();
            bool v6 = cand.host().protocol() == QAbstractSocket::IPv6Protocol;
            if (!rp->sock->bind(QHostAddress(v6 ? QHostAddress::LocalHostIPv6 : QHostAddress::LocalHost), 0)) {
                o.setupFailed = true;
                o.setupWhy = "relay-bind";
                return o;
            }
            RelayPort *raw = rp.get();
            QObject::connect(raw->sock.get(), &QUdpSocket::readyRead, &R.ctx, [&, raw] {
                while (raw->sock->hasPendingDatagrams()) {
                    QByteArray b(int(raw->sock->pendingDatagramSize()), 0);
                    QHostAddress h;
                    quint16 p = 0;
                    raw->sock->readDatagram(b.data(), b.size(), &h, &p);
                    RelayPort *out = portFor(1 - raw->owner, h, p);   // the port standing for the sender's socket
                    if (!out) {
                        o.unknownSource++;
                        continue;
                    }
                    Parsed q = parseStun(b);
                    if (q.stun && q.type == T_REQUEST) {
                        const QByteArray *pr = q.find(A_PRIORITY);
                        quint32 want = rfcPriority(110, raw->comp);
                        if ((!pr || pr->size() != 4 || rd32(*pr, 0) != want) && o.prioSig.empty()) {
                            o.prioSig = "c15 liveness check-priority-not-rfc5245 peer-reflexive";
                            o.prioMsg = "a connectivity check for component " + std::to_string(raw->comp) + " carries PRIORITY " + (pr && pr->size() == 4 ? std::to_string(rd32(*pr, 0)) : std::string("<absent>")) +
                                ", RFC 5245 7.1.2.1/4.1.2.1 gives " + std::to_string(want);
                        }
                    }
                    if (q.stun && q.type == T_ERROR) {
                        const QByteArray *e = q.find(A_ERROR);
                        if (e && e->size() >= 4 && quint8((*e)[2]) * 100 + quint8((*e)[3]) == 487)
                            o.sent487++;
                    }
                    int n = relayedCount++;
                    // loss hits the negotiation only (first transmissions of checks and answers); application data is not retransmitted by anyone
                    if (dropsOpen && q.stun && n < P.dropWindow && ((P.dropMask >> n) & 1)) {
                        o.dropped++;
                        if (o.trace.size() < 1500)
                            o.trace += std::string("\n  #") + std::to_string(n) + " DROPPED " + (raw->owner == 1 ? "A->B " : "B->A ") + (q.stun ? typeName(q.type) : "data");
                        continue;
                    }
                    if (n < 24 && o.trace.size() < 1500)
                        o.trace += std::string("\n  #") + std::to_string(n) + " relayed " + (raw->owner == 1 ? "A->B " : "B->A ") + (q.stun ? typeName(q.type) : "data") +
                            (clk.isValid() ? " @" + std::to_string(clk.elapsed()) + "ms" : "");
                    o.relayed++;
                    out->sock->writeDatagram(b, raw->targetHost, raw->targetPort);
                }
            });
            R.ports.push_back(std::move(rp));
        }
    // ---- candidates, in the generated order; every address is replaced by the relay port standing for it
    for (int owner = 0; owner < 2; owner++) {
        QList<QXmppJingleCandidate> order = R.ag[owner].cands;
        const auto &perm = owner == 0 ? P.permA : P.permB;
        for (int i = order.size() - 1; i > 0; i--) {
            int j = int(perm[size_t(i) % perm.size()] % uint32_t(i + 1));
            order.swapItemsAt(i, j);
        }
        for (auto cand : order) {
            RelayPort *rp = portFor(owner, cand.host(), cand.port());
            cand.setHost(rp->sock->localAddress());
            cand.setPort(rp->sock->localPort());
            R.ag[1 - owner].ice->addRemoteCandidate(cand);
        }
    }
    // ---- go
    clk.start();
    LiveAgent &first = R.ag[P.aFirst ? 0 : 1], &second = R.ag[P.aFirst ? 1 : 0];
    first.ice->connectToHost();
    if (P.delayMs)
        pumpFor(P.delayMs);
    second.ice->connectToHost();
    lb::settleUntil([&] { return (R.ag[0].connected && R.ag[1].connected) || R.ag[0].disconnected || R.ag[1].disconnected; }, deadlineMs);
    o.connA = R.ag[0].connected > 0 && R.ag[0].ice->isConnected();
    o.connB = R.ag[1].connected > 0 && R.ag[1].ice->isConnected();
    o.gaveUp = R.ag[0].disconnected || R.ag[1].disconnected;
    o.msA = R.ag[0].connectedAtMs;
    o.msB = R.ag[1].connectedAtMs;
    o.roleConflicts = R.ag[0].roleConflicts + R.ag[1].roleConflicts;
    if (!(o.connA && o.connB)) {
        for (int i = 0; i < 2; i++)
            for (auto &l : R.ag[i].log)
                if (o.trace.size() < 4000)
                    o.trace += std::string("\n  ") + (i ? "B: " : "A: ") + l;
        return o;
    }
    // ---- application datagrams, both ways, every component
    dropsOpen = false;
    for (int dir = 0; dir < 2 && o.paySig.empty(); dir++) {
        LiveAgent &from = R.ag[dir], &to = R.ag[1 - dir];
        const auto &pay = dir == 0 ? P.payAB : P.payBA;
        for (int comp : P.comps) {
            size_t base = to.received[comp].size();
            for (auto &d : pay) {
                qint64 n = from.ice->component(comp)->sendDatagram(d);
                if (n != d.size() && o.paySig.empty()) {
                    o.paySig = "c15 liveness payload-send-failed";
                    o.payMsg = "sendDatagram(" + std::to_string(d.size()) + " bytes) on a connected component returned " + std::to_string(n);
                }
            }
            lb::settleUntil([&] { return to.received[comp].size() >= base + pay.size(); }, 3000);
            pump(2, 30, 2);
            std::vector<QByteArray> got(to.received[comp].begin() + long(base), to.received[comp].end());
            if (got != pay && o.paySig.empty()) {
                std::vector<QByteArray> gs = got, ps = pay;
                std::sort(gs.begin(), gs.end());
                std::sort(ps.begin(), ps.end());
                if (gs == ps) {   // the statement does not promise ordering
                    o.reordered = true;
                    continue;
                }
                o.paySig = got.size() < pay.size() ? "c15 liveness payload-not-delivered" : "c15 liveness payload-changed";
                o.payMsg = std::string(dir == 0 ? "A->B" : "B->A") + " component " + std::to_string(comp) + ": sent " + std::to_string(pay.size()) + " datagrams, received " + std::to_string(got.size()) + ";";
                for (size_t k = 0; k < pay.size(); k++)
                    o.payMsg += "\n  sent[" + std::to_string(k) + "] " + std::to_string(pay[k].size()) + "B " + hex(pay[k].left(24)) + (k < got.size() ? "\n  got [" + std::to_string(k) + "] " + std::to_string(got[k].size()) + "B " + hex(got[k].left(24)) : "");
            }
        }
    }
    return o;
}

}   // namespace

VCHECK("c15.liveness", 9000)
{
    LiveParams P;
    P.roles = int(t.weighted({ 15, 15, 1, 1 }));   // conflicts are rare: each costs the full waiting time
    P.comps = t.pick<std::vector<int>>({ { 1 }, { 1 }, { 1 }, { 1, 2 }, { 2 }, { 256 } });
    auto genAddrs = [&] {
        static const char *pool[] = { "127.0.0.1", "127.0.0.2", "127.0.0.3", "::1" };
        QList<QHostAddress> l;
        int n = int(t.weighted({ 5, 3, 1 })) + 1;
        uint32_t start = t.u(4);
        for (int i = 0; i < n; i++)
            l << QHostAddress(QString::fromLatin1(pool[(start + uint32_t(i)) % 4]));
        return l;
    };
    P.addrA = genAddrs();
    P.addrB = genAddrs();
    bool v4A = false, v4B = false, v6A = false, v6B = false;
    for (auto &a : P.addrA)
        (a.protocol() == QAbstractSocket::IPv6Protocol ? v6A : v4A) = true;
    for (auto &a : P.addrB)
        (a.protocol() == QAbstractSocket::IPv6Protocol ? v6B : v4B) = true;
    if (!((v4A && v4B) || (v6A && v6B)))   // the agents must share an address family to have a pair at all
        P.addrB << QHostAddress(v4A ? QStringLiteral("127.0.0.1") : QStringLiteral("::1"));
    for (int i = 0; i < 8; i++)
        P.permA.push_back(t.u(0));
    for (int i = 0; i < 8; i++)
        P.permB.push_back(t.u(0));
    P.aFirst = t.b();
    P.delayMs = t.prob(1, 3) ? 0 : int(t.u(151));
    P.dropWindow = int(t.u(7));
    P.dropMask = t.prob(1, 4) ? 0 : t.u(64);
    P.stun = t.prob(1, 4);
    auto genPay = [&] {
        std::vector<QByteArray> v;
        int n = 1 + int(t.u(3));
        for (int i = 0; i < n; i++) {
            uint32_t len = t.prob(1, 4) ? t.pick<uint32_t>({ 1, 19, 20, 21, 1399, 1400 }) : 1 + t.u(1400);
            QByteArray d = t.prob(1, 3) ? QByteArray(int(len), char(t.u(256))) : t.bytes(std::min<uint32_t>(len, 48)) + QByteArray(int(len > 48 ? len - 48 : 0), char(0xA5));
            v.push_back(d);
        }
        return v;
    };
    P.payAB = genPay();
    P.payBA = genPay();
    static const char *rolesName[] = { "A=controlling,B=controlled", "A=controlled,B=controlling", "both-controlling", "both-controlled" };
    {
        std::string a, b;
        for (auto &x : P.addrA)
            a += (a.empty() ? "" : ",") + vh::s(x.toString());
        for (auto &x : P.addrB)
            b += (b.empty() ? "" : ",") + vh::s(x.toString());
        std::string comps;
        for (int x : P.comps)
            comps += (comps.empty() ? "" : ",") + std::to_string(x);
        char mask[8] = { 0 };
        for (int i = 0; i < P.dropWindow; i++)
            mask[i] = ((P.dropMask >> i) & 1) ? 'x' : '.';
        P.desc = std::string("roles=") + rolesName[P.roles] + " comps={" + comps + "} A@{" + a + "} B@{" + b + "} first=" + (P.aFirst ? "A" : "B") + " delay=" + std::to_string(P.delayMs) +
            "ms drop[first " + std::to_string(P.dropWindow) + "]=" + mask + (P.stun ? " stun-server" : "") + " payloads=" + std::to_string(P.payAB.size()) + "/" + std::to_string(P.payBA.size());
    }
    c.sample([&] { return P.desc; });
    const bool conflict = P.roles >= 2;
    const int deadline = conflict ? int(c.param("conflict_wait_ms", 12000)) : int(c.param("connect_wait_ms", 12000));

    QElapsedTimer wall;
    wall.start();
    LiveOutcome o = runNegotiation(P, deadline);
    if (o.setupFailed) {
        c.label("setup-failed:" + o.setupWhy);
        return;
    }
    c.label(std::string("roles:") + (conflict ? rolesName[P.roles] : "proper"));
    c.label("dropped:" + std::to_string(o.dropped));
    c.label("candidates:" + std::to_string(std::min(o.nCandA, 6)) + "x" + std::to_string(std::min(o.nCandB, 6)));
    if (o.srflx)
        c.label("server-reflexive-candidates");
    if (o.dropped > 0 || conflict)
        c.nontrivial(vh::fnv(P.desc));
    auto describe = [&](const LiveOutcome &x) {
        return "case: " + P.desc + "\n A " + (x.connA ? "connected after " + std::to_string(x.msA) + " ms" : std::string("NOT connected")) + ", B " +
            (x.connB ? "connected after " + std::to_string(x.msB) + " ms" : std::string("NOT connected")) + "; waited " + std::to_string(deadline) + " ms; relayed " + std::to_string(x.relayed) +
            ", dropped " + std::to_string(x.dropped) + ", role-conflict warnings " + std::to_string(x.roleConflicts) + ", 487 responses seen " + std::to_string(x.sent487) +
            (x.gaveUp ? "; the library emitted disconnected()" : "") + "\n trace:" + x.trace;
    };
    c.require(o.prioSig.empty(), o.prioSig, [&] { return o.prioMsg + "\n case: " + P.desc; });
    if (!(o.connA && o.connB)) {
        if (P.roles == 2)
            c.fail("c15 liveness both-controlling-never-connect", "two agents that both believe they are controlling never connect (role conflict is logged and the check dropped: no 487, no role switch).\n " + describe(o));
        if (P.roles == 3)
            c.fail("c15 liveness both-controlled-never-connect", "two agents that both believe they are controlled never connect (role conflict is logged and the check dropped: no 487, no role switch; nobody nominates).\n " + describe(o));
        if (o.gaveUp)
            c.fail("c15 liveness library-gave-up proper-roles", describe(o));
        // a pure timeout: inconclusive unless it reproduces at once
        LiveOutcome o2 = runNegotiation(P, deadline);
        if (o2.setupFailed || (o2.connA && o2.connB)) {
            c.label("inconclusive:timeout-not-reproduced");
            o = o2;
            if (o.setupFailed)
                return;
        } else {
            std::string who = !o2.connA && !o2.connB ? "neither" : !o2.connA ? "A-missing" : "B-missing";
            c.fail("c15 liveness not-connected proper-roles " + who + (o2.dropped ? " with-loss" : " no-loss"), "reproduced twice in a row.\n first run: " + describe(o) + "\n second run: " + describe(o2));
        }
    }
    qint64 ms = std::max(o.msA, o.msB);
    c.label(ms < 100 ? "connect:<100ms" : ms < 600 ? "connect:<600ms" : ms < 1600 ? "connect:<1.6s" : ms < 4000 ? "connect:<4s" : "connect:>=4s");
    static qint64 sumMs = 0, maxMs = 0, nConn = 0;
    sumMs += ms;
    maxMs = std::max(maxMs, ms);
    nConn++;
    c.notes["connect_ms_mean"] = std::to_string(sumMs / nConn);
    c.notes["connect_ms_max"] = std::to_string(maxMs);
    c.notes["connected_cases"] = std::to_string(nConn);
    c.require(o.paySig.empty(), o.paySig, [&] { return o.payMsg + "\n " + describe(o); });
    if (o.reordered)
        c.label("payloads-reordered");
    c.count("payload-datagrams", (P.payAB.size() + P.payBA.size()) * P.comps.size());
    static qint64 caseMsSum = 0;
    caseMsSum += wall.elapsed();
    c.notes["case_wall_ms_mean"] = std::to_string(caseMsSum / qint64(c.evals ? c.evals : 1));
}

VH_MAIN()
