// C19 — a file transfer reported successful delivered exactly the bytes that were sent (DESIGN.md C19).
// Two socketless clients (sender alice, receiver bob) with QXmppTransferManager restricted to in-band bytestreams,
// joined by a harness relay that stamps `from`, forwards stanzas and injects one fault into the block sequence:
// drop / duplicate / swap / bit-flip (still valid base64) / truncate payload / early close / no close / wrong sid /
// block from a third JID (replacing or additional) / sequence number off by one.
// Oracle: no fault -> receiver's device holds exactly the sender's bytes and both jobs finish with NoError, for every
// file size and block size incl. the >65536-block case (16-bit counter wrap); with a fault -> the receiver never
// reports NoError unless the delivered bytes are in fact identical.
#include "gens.h"
#include "tc.h"

#include "QXmppSocks.h"
#include "QXmppTransferManager.h"
#include "lb.h"

#include <QTcpSocket>

#include <QBuffer>
#include <QCryptographicHash>

using vh::Ctx;
using vh::Tape;

static std::string q(const QString &s) { return vh::s(s); }

enum Fault { None, Drop, Duplicate, Swap, BitFlip, Truncate, EarlyClose, NoClose, WrongSid, ThirdPartyReplaces, ThirdPartyAdds, SeqOffByOne, NumFaults };
static const char *faultNames[] = { "none", "drop", "duplicate", "swap", "bit-flip", "truncate-payload", "early-close", "no-close", "wrong-sid", "third-party-replaces-block", "third-party-adds-block", "seq-off-by-one" };

struct Peer {
    std::unique_ptr<TestClient> client;
    QXmppTransferManager *tm = nullptr;
    QString jid;
};

static void makePeer(Peer &p, const QString &jid, int blockSize)
{
    p.jid = jid;
    p.client = std::make_unique<TestClient>(QXmppClient::NoExtensions);
    p.client->configuration().setJid(jid);
    p.tm = p.client->addNewExtension<QXmppTransferManager>();
    p.tm->setSupportedMethods(QXmppTransferJob::InBandMethod);
    (void)blockSize;   // the library has no public block-size knob: its sender always proposes 4096
    p.client->beginSession(true, false);
    p.client->pump(1);
    p.client->take();
}

static void transfer(Tape &t, Ctx &c, qint64 size, int blockSize, int fault, const char *sub)
{
    TestClient::resetIdCounter();
    Peer a, b;
    makePeer(a, QStringLiteral("alice@example.org/phone"), blockSize);
    makePeer(b, QStringLiteral("bob@example.org/desk"), blockSize);

    // content
    QByteArray content(int(size), 0);
    {
        uint64_t x = 0x9e3779b97f4a7c15ull ^ (uint64_t(t.u(4)) << 7);   // content seed (bounded: the enum engine walks every choice)
        for (qint64 i = 0; i < size; i++) {
            x ^= x << 13;
            x ^= x >> 7;
            x ^= x << 17;
            content[int(i)] = char(x >> 32);
        }
    }
    QBuffer src;
    src.setData(content);
    src.open(QIODevice::ReadOnly);
    QBuffer dst;
    dst.open(QIODevice::WriteOnly);

    QXmppTransferJob *rjob = nullptr;
    QObject::connect(b.tm, &QXmppTransferManager::fileReceived, [&](QXmppTransferJob *job) {
        rjob = job;
        job->accept(&dst);
    });
    QXmppTransferFileInfo info;
    info.setName(QStringLiteral("file.bin"));
    info.setSize(size);
    info.setHash(QCryptographicHash::hash(content, QCryptographicHash::Md5));
    QXmppTransferJob *sjob = a.tm->sendFile(b.jid, &src, info);
    c.require(sjob != nullptr, "c19 harness-no-job", "sendFile returned no job");

    int nBlocks = int((size + blockSize - 1) / blockSize);
    int faultAt = nBlocks > 0 ? int(t.u(uint32_t(nBlocks))) : 0;
    if (fault != None && nBlocks == 0 && fault != NoClose)
        fault = None;
    std::string desc = std::string("size=") + std::to_string(size) + " block=" + std::to_string(blockSize) + " blocks=" + std::to_string(nBlocks) + " fault=" + faultNames[fault] + (fault != None ? "@" + std::to_string(faultAt) : std::string());
    c.sample([&] { return desc; });
    c.label(std::string("fault:") + faultNames[fault]);
    if (size % blockSize != 0 || nBlocks >= 65536 || fault != None)
        c.nontrivial(vh::fnv(desc));

    // ---- relay
    int dataSeen = 0;
    bool faultDone = false, swallowRest = false;
    QString heldBlock;   // for swap
    auto ackToSender = [&](const QDomElement &iq) {
        a.client->injectXml(QStringLiteral("<iq type='result' id=\"%1\" from=\"%2\" to=\"%3\"/>").arg(iq.attribute("id").toHtmlEscaped(), b.jid.toHtmlEscaped(), a.jid.toHtmlEscaped()));
    };
    auto stamp = [](const QString &xml, const QString &from) {
        // insert/replace the from attribute of the top-level element
        auto p = xu::parseFragment(xml);
        QDomElement el = p.el;
        el.setAttribute(QStringLiteral("from"), from);
        QString s;
        QTextStream ts(&s);
        el.save(ts, -1);
        return s;
    };
    auto forward = [&](Peer &from, Peer &to) {
        bool any = false;
        for (const QString &x : from.client->take()) {
            auto p = xu::parseFragment(x);
            if (!p.ok() || (p.el.tagName() != u"iq" && p.el.tagName() != u"message"))
                continue;
            if (p.el.attribute("to") != to.jid)
                continue;
            any = true;
            QString stamped = stamp(x, from.jid);
            QDomElement child = p.el.firstChildElement();
            bool isData = &from == &a && child.tagName() == u"data" && child.namespaceURI() == u"http://jabber.org/protocol/ibb";
            bool isClose = &from == &a && child.tagName() == u"close" && child.namespaceURI() == u"http://jabber.org/protocol/ibb";
            if (swallowRest && (isData || isClose)) {
                ackToSender(p.el);
                continue;
            }
            if (isClose && fault == NoClose) {
                ackToSender(p.el);
                continue;
            }
            if (isData) {
                int k = dataSeen++;
                if (!heldBlock.isEmpty()) {
                    // second half of a swap: k+1 first, then the held k
                    to.client->injectXml(stamped);
                    to.client->injectXml(heldBlock);
                    heldBlock.clear();
                    continue;
                }
                if (fault != None && !faultDone && k == faultAt) {
                    faultDone = true;
                    auto ps = xu::parseFragment(stamped);
                    QDomElement d = ps.el.firstChildElement();
                    auto save = [&] {
                        QString s;
                        QTextStream ts(&s);
                        ps.el.save(ts, -1);
                        return s;
                    };
                    switch (fault) {
                    case Drop: ackToSender(p.el); continue;
                    case Duplicate: to.client->injectXml(stamped); to.client->injectXml(stamped); continue;
                    case Swap:
                        if (k + 1 < nBlocks) {
                            heldBlock = stamped;
                            ackToSender(p.el);
                            continue;
                        }
                        break;
                    case BitFlip: {
                        QByteArray raw = QByteArray::fromBase64(d.text().toLatin1());
                        if (!raw.isEmpty()) {
                            raw[int(t.u(uint32_t(raw.size())))] = char(raw[0] ^ char(1 << t.u(8)));
                            raw[0] = char(raw[0] ^ 0x01);
                            while (!d.firstChild().isNull())
                                d.removeChild(d.firstChild());
                            d.appendChild(ps.doc.createTextNode(QString::fromLatin1(raw.toBase64())));
                            to.client->injectXml(save());
                            continue;
                        }
                        break;
                    }
                    case Truncate: {
                        QByteArray raw = QByteArray::fromBase64(d.text().toLatin1());
                        raw.chop(1 + int(t.u(uint32_t(std::max(1, raw.size())))) % std::max(1, raw.size()));
                        while (!d.firstChild().isNull())
                            d.removeChild(d.firstChild());
                        d.appendChild(ps.doc.createTextNode(QString::fromLatin1(raw.toBase64())));
                        to.client->injectXml(save());
                        continue;
                    }
                    case EarlyClose:
                        ackToSender(p.el);
                        swallowRest = true;
                        to.client->injectXml(QStringLiteral("<iq type='set' id='early-close' from=\"%1\" to=\"%2\"><close xmlns='http://jabber.org/protocol/ibb' sid=\"%3\"/></iq>")
                                                 .arg(a.jid.toHtmlEscaped(), b.jid.toHtmlEscaped(), d.attribute("sid").toHtmlEscaped()));
                        continue;
                    case WrongSid:
                        d.setAttribute(QStringLiteral("sid"), d.attribute("sid") + QStringLiteral("x"));
                        to.client->injectXml(save());
                        continue;
                    case ThirdPartyReplaces:
                        ps.el.setAttribute(QStringLiteral("from"), QStringLiteral("mallory@evil.example/x"));
                        to.client->injectXml(save());
                        ackToSender(p.el);
                        continue;
                    case ThirdPartyAdds: {
                        // a forged block with the right sid and sequence number arrives just before the real one
                        QString real = stamped;
                        ps.el.setAttribute(QStringLiteral("from"), QStringLiteral("mallory@evil.example/x"));
                        ps.el.setAttribute(QStringLiteral("id"), QStringLiteral("forged"));
                        while (!d.firstChild().isNull())
                            d.removeChild(d.firstChild());
                        d.appendChild(ps.doc.createTextNode(QStringLiteral("Zm9yZ2Vk")));
                        to.client->injectXml(save());
                        to.client->injectXml(real);
                        continue;
                    }
                    case SeqOffByOne:
                        d.setAttribute(QStringLiteral("seq"), QString::number((d.attribute("seq").toInt() + 1) & 0xffff));
                        to.client->injectXml(save());
                        continue;
                    default: break;
                    }
                }
            }
            to.client->injectXml(stamped);
        }
        return any;
    };
    // run until quiescent
    int idle = 0;
    for (long round = 0; round < 400000 && idle < 3; round++) {
        bool any = forward(a, b);
        b.client->pump(1);
        any = forward(b, a) || any;
        a.client->pump(1);
        idle = any ? 0 : idle + 1;
    }
    a.client->pump(3);
    b.client->pump(3);

    const QByteArray got = dst.data();
    const bool identical = got == content;
    const bool rFinished = rjob && rjob->state() == QXmppTransferJob::FinishedState;
    const bool rSuccess = rFinished && rjob->error() == QXmppTransferJob::NoError;
    const bool sFinished = sjob->state() == QXmppTransferJob::FinishedState;
    const bool sSuccess = sFinished && sjob->error() == QXmppTransferJob::NoError;
    std::string outcome = std::string("receiver: ") + (!rjob ? "no job" : !rFinished ? "unfinished" : rSuccess ? "NoError" : "error " + std::to_string(int(rjob->error()))) + ", sender: " +
        (!sFinished ? "unfinished" : sSuccess ? "NoError" : "error " + std::to_string(int(sjob->error()))) + ", delivered " + std::to_string(got.size()) + "/" + std::to_string(content.size()) + " bytes" +
        (identical ? " (identical)" : " (DIFFERENT)");
    std::string wrap = nBlocks > 65536 ? " blocks>65536" : "";
    if (fault == None) {
        c.require(rSuccess && sSuccess && identical, std::string("c19 honest-transfer-failed") + wrap, "a fault-free transfer did not end with both sides successful and identical content: " + outcome + "\n " + desc);
    }
    // the central claim, whatever the fault
    c.require(!rSuccess || identical, std::string("c19 success-reported-for-wrong-content ") + faultNames[fault], "the receiver reports success but does not hold the bytes that were sent: " + outcome + "\n " + desc);
    (void)sub;
}

// ---- scripted sender -> real receiver: any block size, any number of blocks ----------------------------------------
static void scripted(Tape &t, Ctx &c, qint64 size, int b, int fault)
{
    TestClient::resetIdCounter();
    Peer r;
    makePeer(r, QStringLiteral("bob@example.org/desk"), 0);
    const QString sender = QStringLiteral("alice@example.org/phone");
    QByteArray content(int(size), 0);
    {
        uint64_t x = 0x9e3779b97f4a7c15ull ^ (uint64_t(size > 60000 ? 1 : t.u(4)) << 7);   // content seed (bounded: the enum engine walks every choice)
        for (qint64 i = 0; i < size; i++) {
            x ^= x << 13;
            x ^= x >> 7;
            x ^= x << 17;
            content[int(i)] = char(x >> 32);
        }
    }
    QBuffer dst;
    dst.open(QIODevice::WriteOnly);
    QXmppTransferJob *rjob = nullptr;
    QObject::connect(r.tm, &QXmppTransferManager::fileReceived, [&](QXmppTransferJob *job) {
        rjob = job;
        job->accept(&dst);
    });
    const QString sid = QStringLiteral("sid-verif");
    int nBlocks = int((size + b - 1) / b);
    int faultAt = 0;
    if (fault == None) {
        faultAt = 0;
    } else if (nBlocks > 4096) {
        const int picks[] = { 0, 65535, nBlocks - 1 };   // first block, last block before the counter wraps, last block
        faultAt = picks[t.u(3)];
    } else if (nBlocks > 0) {
        faultAt = int(t.u(uint32_t(nBlocks)));
    }
    if (fault != None && nBlocks == 0 && fault != NoClose)
        fault = None;
    if (fault == Swap && faultAt + 1 >= nBlocks)
        fault = None;
    // the MD5 hash of the offer is optional (XEP-0096); without it an altered block of the right length from the right
    // sender cannot be noticed by anybody, every other fault still can (sequence numbers, size, session id, sender)
    const bool withHash = t.mode() == vh::Tape::Enum ? true : !t.prob(1, 3);
    if (!withHash && fault == BitFlip)
        fault = None;
    // a sender that stops and closes at the first refused block, or one that goes on to the end whatever the replies say
    // (blocks reordered on the way arrive like that: the sender has sent them all)
    const bool persistent = t.mode() == vh::Tape::Enum ? false : t.prob(1, 3);
    std::string desc = std::string("scripted-sender ") + (withHash ? "" : "offer-without-hash ") + (persistent ? "sender-ignores-refusals " : "") + "size=" + std::to_string(size) + " block=" + std::to_string(b) + " blocks=" + std::to_string(nBlocks) + " fault=" + faultNames[fault] + (fault != None ? "@" + std::to_string(faultAt) : std::string());
    c.sample([&] { return desc; });
    c.label(std::string("fault:") + faultNames[fault]);
    c.label(withHash ? "offer:with-hash" : "offer:without-hash");
    if (persistent)
        c.label("sender:ignores-refusals");
    if (size % b != 0 || nBlocks >= 65536 || fault != None)
        c.nontrivial(vh::fnv(desc));
    int iqn = 0;
    // returns the type of the reply the receiver gave to this IQ
    auto send = [&](const QString &from, const QString &child) {
        QString id = QStringLiteral("h%1").arg(++iqn);
        r.client->take();
        r.client->injectXml(QStringLiteral("<iq type='set' id='%1' from=\"%2\" to=\"%3\">%4</iq>").arg(id, from.toHtmlEscaped(), r.jid.toHtmlEscaped(), child));
        r.client->pump(1);
        QString type;
        for (auto &x : r.client->take()) {
            auto p = xu::parseFragment(x);
            if (p.ok() && p.el.tagName() == u"iq" && p.el.attribute("id") == id)
                type = p.el.attribute("type");
        }
        return type;
    };
    QString offer = QStringLiteral("<si xmlns='http://jabber.org/protocol/si' id='%1' profile='http://jabber.org/protocol/si/profile/file-transfer'>"
                                   "<file xmlns='http://jabber.org/protocol/si/profile/file-transfer' name='file.bin' size='%2'%3/>"
                                   "<feature xmlns='http://jabber.org/protocol/feature-neg'><x xmlns='jabber:x:data' type='form'><field var='stream-method' type='list-single'>"
                                   "<option><value>http://jabber.org/protocol/ibb</value></option></field></x></feature></si>")
                        .arg(sid)
                        .arg(size)
                        .arg(withHash ? QStringLiteral(" hash='%1'").arg(QString::fromLatin1(QCryptographicHash::hash(content, QCryptographicHash::Md5).toHex())) : QString());
    QString rt = send(sender, offer);
    c.require(rt == u"result" && rjob, "c19 scripted offer-not-accepted", "stream-initiation offer was not accepted (reply type '" + q(rt) + "'): " + desc);
    rt = send(sender, QStringLiteral("<open xmlns='http://jabber.org/protocol/ibb' sid='%1' block-size='%2' stanza='iq'/>").arg(sid).arg(b));
    c.require(rt == u"result", "c19 scripted open-rejected", "IBB <open block-size='" + std::to_string(b) + "'/> rejected: " + desc);
    bool senderSawError = false;
    // data blocks are answered synchronously: no event-loop round and no DOM parse of the reply needed (65k+ blocks)
    auto block = [&](int k, const QString &from, const QString &useSid, int seq, QByteArray payload) {
        (void)k;
        QString id = QStringLiteral("h%1").arg(++iqn);
        r.client->sent.clear();
        r.client->injectXml(QStringLiteral("<iq type='set' id='%1' from=\"%2\" to=\"%3\"><data xmlns='http://jabber.org/protocol/ibb' sid='%4' seq='%5'>%6</data></iq>")
                                .arg(id, from.toHtmlEscaped(), r.jid.toHtmlEscaped(), useSid)
                                .arg(seq & 0xffff)
                                .arg(QString::fromLatin1(payload.toBase64())));
        QString idAttr = QStringLiteral("id=\"%1\"").arg(id);
        for (const auto &x : r.client->sent)
            if (x.startsWith(u"<iq") && x.contains(idAttr))
                return x.contains(u"type=\"result\"") ? QStringLiteral("result") : QStringLiteral("error");
        return QString();
    };
    bool closed = false;
    for (int k = 0; k < nBlocks && !senderSawError; k++) {
        QByteArray payload = content.mid(k * b, b);
        QString from = sender, useSid = sid;
        int seq = k;
        if (fault != None && k == faultAt) {
            switch (fault) {
            case Drop: continue;
            case Duplicate: block(k, from, useSid, seq, payload); break;   // delivered twice; the second gets an error the sender ignores
            case Swap: {
                QString r1 = block(k + 1, from, useSid, seq + 1, content.mid((k + 1) * b, b));
                if (r1 != u"result" && !persistent)
                    senderSawError = true;
                break;
            }
            case BitFlip: payload[int(t.u(uint32_t(payload.size())))] = char(payload[0] ^ char(1 << t.u(8))); payload[0] = char(payload[0] ^ 1); break;
            case Truncate: payload.chop(1 + int(t.u(uint32_t(payload.size())))); break;
            case EarlyClose:
                send(sender, QStringLiteral("<close xmlns='http://jabber.org/protocol/ibb' sid='%1'/>").arg(sid));
                closed = true;
                senderSawError = true;
                continue;
            case WrongSid: useSid = sid + QStringLiteral("x"); break;
            case ThirdPartyReplaces:
                // somebody else's block of the right length, session id and sequence number instead of the sender's
                from = QStringLiteral("mallory@evil.example/x");
                for (auto &ch : payload)
                    ch = char(ch ^ 0x5a);
                break;
            case ThirdPartyAdds: {
                QByteArray forged = payload;
                for (auto &ch : forged)
                    ch = char(ch ^ 0x5a);
                block(k, QStringLiteral("mallory@evil.example/x"), useSid, seq, forged);
                break;
            }
            case SeqOffByOne: seq = k + 1; break;
            default: break;
            }
            if (senderSawError)
                continue;
        }
        if (fault == Swap && k == faultAt + 1)
            continue;   // already delivered before block faultAt
        QString r2 = block(k, from, useSid, seq, payload);
        // a conforming sender stops and closes the bytestream when a block is refused
        if (r2 != u"result" && !(fault == Duplicate && k == faultAt) && !persistent)
            senderSawError = true;
    }
    if (!closed && fault != NoClose)
        send(sender, QStringLiteral("<close xmlns='http://jabber.org/protocol/ibb' sid='%1'/>").arg(sid));
    r.client->pump(3);
    const QByteArray got = dst.data();
    const bool identical = got == content;
    const bool rFinished = rjob->state() == QXmppTransferJob::FinishedState;
    const bool rSuccess = rFinished && rjob->error() == QXmppTransferJob::NoError;
    std::string outcome = std::string("receiver: ") + (!rFinished ? "unfinished" : rSuccess ? "NoError" : "error " + std::to_string(int(rjob->error()))) + ", delivered " + std::to_string(got.size()) + "/" + std::to_string(content.size()) +
        " bytes" + (identical ? " (identical)" : " (DIFFERENT)");
    std::string wrap = nBlocks > 65536 ? " blocks>65536" : "";
    if (fault == None)
        c.require(rSuccess && identical, "c19 honest-transfer-failed" + wrap, "a fault-free transfer (conforming scripted sender) did not end in success with identical content: " + outcome + "\n " + desc);
    c.require(!rSuccess || identical, std::string("c19 success-reported-for-wrong-content ") + faultNames[fault], "the receiver reports success but does not hold the bytes that were sent: " + outcome + "\n " + desc);
}

// real sender <-> real receiver through the fault-injecting relay (the library's sender always proposes 4096-byte blocks)
VCHECK("c19.ibb", 60)
{
    const int b = 4096;
    qint64 size;
    switch (t.u(8)) {
    case 0: size = 0; break;
    case 1: size = 1; break;
    case 2: size = b - 1; break;
    case 3: size = b; break;
    case 4: size = b + 1; break;
    case 5: size = 2 * b; break;
    default: size = qint64(t.u(60000)); break;
    }
    int fault = t.b() ? None : 1 + int(t.u(NumFaults - 1));
    transfer(t, c, size, b, fault, "c19.ibb");
}

// conforming scripted sender -> real receiver: every block size the receiver accepts
VCHECK("c19.receiver", 60)
{
    int b;
    switch (t.u(4)) {
    case 0: b = 1 + int(t.u(16)); break;
    case 1: b = int(t.pick<int>({ 4096, 4095, 1024 })); break;
    default: b = 1 + int(t.u(300)); break;
    }
    qint64 size;
    switch (t.u(8)) {
    case 0: size = 0; break;
    case 1: size = 1; break;
    case 2: size = b - 1; break;
    case 3: size = b; break;
    case 4: size = b + 1; break;
    case 5: size = 2 * b; break;
    default: size = qint64(t.u(uint32_t(std::min<qint64>(40ll * b, 20000)) + 1)); break;
    }
    int fault = t.b() ? None : 1 + int(t.u(NumFaults - 1));
    scripted(t, c, size, b, fault);
}

// the 16-bit block counter wraps after 65536 blocks: 65535, 65536 and 65537(+1 byte) blocks; enumerated (enum engine)
VCHECK("c19.wrap", 16)
{
    int maxB = int(c.param("max_block", 1));
    int b = 1 + int(t.u(uint32_t(maxB)));
    uint32_t si = t.u(3);
    qint64 size = si == 0 ? 65535ll * b : si == 1 ? 65536ll * b : 65537ll * b + 1;
    uint32_t fi = t.u(uint32_t(c.param("faults", 2)));
    static const int faults[] = { None, BitFlip, Drop, SeqOffByOne, EarlyClose };
    scripted(t, c, size, b, faults[fi]);
}

// ---- SOCKS5 bytestream: scripted sender with a local stream host -> real receiver --------------------------------
// faults on the byte stream: none | cut short | extra bytes | one byte altered (same length) | two blocks swapped (same length)
VCHECK("c19.socks", 40)
{
    TestClient::resetIdCounter();
    Peer r;
    r.jid = QStringLiteral("bob@example.org/desk");
    r.client = std::make_unique<TestClient>(QXmppClient::NoExtensions);
    r.client->configuration().setJid(r.jid);
    r.tm = r.client->addNewExtension<QXmppTransferManager>();
    r.tm->setSupportedMethods(QXmppTransferJob::SocksMethod);
    r.client->beginSession(true, false);
    r.client->pump(1);
    r.client->take();
    const QString sender = QStringLiteral("alice@example.org/phone");
    qint64 size = t.prob(1, 4) ? qint64(t.pick<int>({ 1, 2, 4096, 65536, 100000 })) : 1 + qint64(t.u(50000));
    int fault = int(t.weighted({ 4, 2, 2, 3, 2 }));   // 0 none, 1 cut short, 2 extra bytes, 3 byte altered, 4 blocks swapped
    static const char *fn[] = { "none", "cut-short", "extra-bytes", "byte-altered-same-length", "blocks-swapped-same-length" };
    QByteArray content(int(size), 0);
    {
        uint64_t x = 0x9e3779b97f4a7c15ull ^ (uint64_t(t.u(4)) << 7);
        for (qint64 i = 0; i < size; i++) {
            x ^= x << 13;
            x ^= x >> 7;
            x ^= x << 17;
            content[int(i)] = char(x >> 32);
        }
    }
    QByteArray wire = content;
    switch (fault) {
    case 1: wire.chop(1 + int(t.u(uint32_t(std::min<qint64>(size, 2000))))); break;
    case 2: wire += t.bytes(1 + t.u(64)); break;
    case 3: {
        int pos = int(t.u(uint32_t(std::min<qint64>(size, 4000))));
        pos = int((qint64(pos) * 9973) % size);
        wire[pos] = char(wire[pos] ^ char(1 << t.u(8)));
        break;
    }
    case 4:
        if (size >= 64) {
            QByteArray a = wire.mid(0, 16), b = wire.mid(32, 16);
            if (a != b) {
                wire.replace(0, 16, b);
                wire.replace(32, 16, a);
            } else {
                fault = 0;
            }
        } else {
            fault = 0;
        }
        break;
    }
    std::string desc = std::string("socks5 scripted-sender size=") + std::to_string(size) + " fault=" + fn[fault];
    c.sample([&] { return desc; });
    c.label(std::string("fault:") + fn[fault]);
    c.nontrivial(vh::fnv(desc));

    QBuffer dst;
    dst.open(QIODevice::WriteOnly);
    QXmppTransferJob *rjob = nullptr;
    QObject::connect(r.tm, &QXmppTransferManager::fileReceived, [&](QXmppTransferJob *job) {
        rjob = job;
        job->accept(&dst);
    });
    // the harness is the stream host
    QXmppSocksServer socks;
    c.require(socks.listen(), "c19 harness-socks-listen", "cannot listen for SOCKS5");
    QTcpSocket *peerSocket = nullptr;
    QObject::connect(&socks, &QXmppSocksServer::newConnection, [&](QTcpSocket *s, QString, quint16) { peerSocket = s; });

    const QString sid = QStringLiteral("sid-socks");
    auto inject = [&](const QString &id, const QString &child) {
        r.client->injectXml(QStringLiteral("<iq type='set' id='%1' from=\"%2\" to=\"%3\">%4</iq>").arg(id, sender.toHtmlEscaped(), r.jid.toHtmlEscaped(), child));
    };
    inject(QStringLiteral("si1"), QStringLiteral("<si xmlns='http://jabber.org/protocol/si' id='%1' profile='http://jabber.org/protocol/si/profile/file-transfer'>"
                                                "<file xmlns='http://jabber.org/protocol/si/profile/file-transfer' name='file.bin' size='%2' hash='%3'/>"
                                                "<feature xmlns='http://jabber.org/protocol/feature-neg'><x xmlns='jabber:x:data' type='form'><field var='stream-method' type='list-single'>"
                                                "<option><value>http://jabber.org/protocol/bytestreams</value></option></field></x></feature></si>")
                                     .arg(sid)
                                     .arg(size)
                                     .arg(QString::fromLatin1(QCryptographicHash::hash(content, QCryptographicHash::Md5).toHex())));
    r.client->pump(2);
    c.require(rjob != nullptr, "c19 socks offer-not-accepted", "SOCKS5 offer not accepted: " + desc);
    inject(QStringLiteral("bs1"), QStringLiteral("<query xmlns='http://jabber.org/protocol/bytestreams' sid='%1' mode='tcp'><streamhost jid=\"%2\" host='127.0.0.1' port='%3'/></query>").arg(sid, sender.toHtmlEscaped()).arg(socks.serverPort()));
    bool connectedBack = lb::settleUntil([&] { return peerSocket != nullptr; }, 3000);
    if (!connectedBack) {
        c.label("inconclusive:receiver-did-not-connect-to-streamhost");
        return;
    }
    lb::settle(5, 300);
    // send the bytes in a few chunks, then close
    int chunks = 1 + int(t.u(5));
    for (int i = 0; i < chunks; i++) {
        int from = int(qint64(wire.size()) * i / chunks), to = int(qint64(wire.size()) * (i + 1) / chunks);
        peerSocket->write(wire.mid(from, to - from));
        peerSocket->flush();
        lb::settle(3, 200);
    }
    lb::settleUntil([&] { return peerSocket->bytesToWrite() == 0; }, 3000);
    lb::settle(5, 300);
    peerSocket->disconnectFromHost();
    lb::settleUntil([&] { return rjob->state() == QXmppTransferJob::FinishedState; }, 3000);
    r.client->pump(3);
    lb::settle(5, 100);
    const QByteArray got = dst.data();
    const bool identical = got == content;
    const bool rFinished = rjob->state() == QXmppTransferJob::FinishedState;
    const bool rSuccess = rFinished && rjob->error() == QXmppTransferJob::NoError;
    std::string outcome = std::string("receiver: ") + (!rFinished ? "unfinished" : rSuccess ? "NoError" : "error " + std::to_string(int(rjob->error()))) + ", delivered " + std::to_string(got.size()) + "/" + std::to_string(content.size()) +
        " bytes" + (identical ? " (identical)" : " (DIFFERENT)");
    if (fault == 0)
        c.require(rSuccess && identical, "c19 socks honest-transfer-failed", "a fault-free SOCKS5 transfer did not end in success with identical content: " + outcome + "\n " + desc);
    c.require(!rSuccess || identical, std::string("c19 socks success-reported-for-wrong-content ") + fn[fault], "the receiver reports success but does not hold the bytes that were sent: " + outcome + "\n " + desc);
}

VH_MAIN()
