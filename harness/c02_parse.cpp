// C02 — parsing any well-formed XML is safe and normalising: no crash, UB, hang or drift (DESIGN.md C02).
//   c02.parsers  seed document (harvested from the repository's tests) + 0..5 structure-aware mutations -> element E
//                (the root or a descendant).  Every registered parser whose own type check admits E, and a sample of
//                the parsers without a type check, must: return; serialise to well-formed XML; and the output must be a
//                fixpoint of one more parse/serialise pass (byte-identical).  ASan/UBSan/Q_ASSERT/uncaught exceptions
//                are crash failures.  Runs under rapidcheck and under libFuzzer (the choice tape is the fuzz input, so
//                coverage feedback steers the *mutation choices*: structure-aware by construction).
//   c02.client   E delivered to a connected client with every bundled manager installed, through the real receive entry
//                point; afterwards the client is alive, the event loop drains, every byte it emitted is well-formed.
//   c02.uninit   differential over heap fill: parse+serialise of the same E under allocator fill 0x00 and 0xFF must agree
//                (uninitialised members that reach getters/serialisation become visible without MSan).
#include "codec_registry.h"
#include "tc.h"
#include "xmlmut.h"

#include "QXmppE2eeMetadata.h"

#include <new>

using vh::Ctx;
using vh::Tape;

static std::string q(const QString &s) { return vh::s(s); }

// ---- controllable heap fill (c02.uninit) ----------------------------------------------------------
static int g_fillPattern = -1;   // -1: leave allocator default
void *operator new(std::size_t n)
{
    void *p = malloc(n ? n : 1);
    if (!p)
        throw std::bad_alloc();
    if (g_fillPattern >= 0)
        memset(p, g_fillPattern, n);
    return p;
}
void *operator new[](std::size_t n) { return operator new(n); }
void operator delete(void *p) noexcept { free(p); }
void operator delete[](void *p) noexcept { free(p); }
void operator delete(void *p, std::size_t) noexcept { free(p); }
void operator delete[](void *p, std::size_t) noexcept { free(p); }

struct Input {
    QString xml;        // the mutated document
    xu::Parsed parsed;  // owns the DOM
    QDomElement target; // E
    QString desc;
    int mutations = 0;
    int seed = 0;
};

static bool buildInput(Tape &t, Input &in, int maxMut = 5)
{
    auto &corp = xm::corpus();
    in.seed = int(t.u(uint32_t(corp.trees.size())));
    xm::XNode tree = corp.trees[in.seed];
    in.mutations = int(t.weighted({ 2, 6, 5, 3, 2, 1 }));
    if (in.mutations > maxMut)
        in.mutations = maxMut;
    QStringList ops;
    for (int i = 0; i < in.mutations; i++)
        ops << xm::mutate(t, tree);
    in.xml = xm::toXml(tree);
    if (in.xml.size() > 400000)
        return false;
    in.parsed = xu::parseFragment(in.xml);
    if (!in.parsed.ok())
        return false;
    // target: root, or a descendant element
    in.target = in.parsed.el;
    if (t.prob(1, 3)) {
        QVector<QDomElement> all;
        std::function<void(const QDomElement &)> walk = [&](const QDomElement &e) {
            all.push_back(e);
            if (all.size() > 400)
                return;
            for (QDomElement c = e.firstChildElement(); !c.isNull(); c = c.nextSiblingElement())
                walk(c);
        };
        walk(in.parsed.el);
        in.target = all[int(t.u(uint32_t(all.size())))];
    }
    in.desc = QStringLiteral("seed#%1 ops=[%2] target=<%3 xmlns='%4'>").arg(in.seed).arg(ops.join(u"; "), in.target.tagName(), in.target.namespaceURI());
    return true;
}

static QString elementXml(const QDomElement &e)
{
    QString s;
    QTextStream ts(&s);
    e.save(ts, -1);
    return s;
}

// the per-codec oracle; returns false if the codec did not apply
static bool checkCodec(Ctx &c, const codec::Codec &k, const Input &in)
{
    // QXmppExportData is a file format (written with an XML declaration), not a stream element: out of domain
    if (!strcmp(k.name, "QXmppExportData"))
        return false;
    if (k.typed && !k.accepts(in.target))
        return false;
    const QByteArray y = k.parseSerialize(in.target);
    c.label(std::string("codec:") + k.name);
    // recorded finding C02-xhtml-malformed: XHTML-IM content is copied by string surgery; every other source of ill-formed
    // output keeps a signature of its own
    const std::string illFormedTag = in.xml.contains(QStringLiteral("http://jabber.org/protocol/xhtml-im")) ? " (input has XHTML-IM)" : "";
    if (y.isEmpty())
        return true;   // nothing understood, nothing written
    const QString ys = QString::fromUtf8(y);
    // (b) well-formed under two independent parsers (a sequence of elements is allowed for list-like payloads)
    QString err;
    auto py = xu::parseFragment(ys);
    bool single = py.ok();
    if (!single) {
        // maybe several top-level elements: judge as a sequence
        QDomDocument d;
        QString e2;
        bool seqOk = d.setContent(xu::wrapOpen() + ys + xu::wrapClose(), true, &e2);
        QXmlStreamReader r(xu::wrapOpen() + ys + xu::wrapClose());
        while (!r.atEnd())
            r.readNext();
        c.require(seqOk && !r.hasError(), std::string("c02 ") + k.name + " output-not-well-formed" + illFormedTag, [&] {
            return std::string(k.name) + " serialises to XML that is not well-formed (" + q(py.error) + " / " + q(r.errorString()) + ")\n output=" + y.left(3000).toStdString() + "\n input: " + q(in.desc) + "\n E=" + q(elementXml(in.target).left(3000));
        });
        c.label("multi-element-output");
        return true;
    }
    c.require(xu::streamReaderAccepts(ys, &err) && xu::uniqueAttributes(ys, &err), std::string("c02 ") + k.name + " output-not-well-formed" + illFormedTag, [&] {
        return std::string(k.name) + " serialises to XML that QXmlStreamReader rejects (" + q(err) + ")\n output=" + y.left(3000).toStdString() + "\n input: " + q(in.desc) + "\n E=" + q(elementXml(in.target).left(3000));
    });
    // (c) fixpoint
    if (k.typed && !k.accepts(py.el)) {
        c.label("own-output-rejected-by-type-check");
        return true;
    }
    // list-like payloads are parsed from their *parent* element: the output cannot be fed back at the same level
    if (!strcmp(k.name, "QXmppBitsOfBinaryDataList"))
        return true;
    const QByteArray z = k.parseSerialize(py.el);
    // "the same document": compared as XML infosets (namespace-resolved, attribute order free, sibling order kept);
    // a redundant namespace declaration or quote style is not drift
    auto sameDocument = [&] {
        if (z == y)
            return true;
        auto pz = xu::parseFragment(z);
        return pz.ok() && xu::canonical(pz.el, false) == xu::canonical(py.el, false);
    };
    if (sameDocument())
        return true;
    QString where = QStringLiteral("(unparsable)");
    {
        auto pz = xu::parseFragment(z);
        if (z.isEmpty())
            where = QStringLiteral("(second pass writes nothing)");
        else if (pz.ok())
            where = xu::firstDiffPath(py.el, pz.el);
    }
    {
        // two recurring input shapes get their own signature so that other drift of the same class stays visible
        int errorKids = 0;
        for (QDomElement ch = in.target.firstChildElement(); !ch.isNull(); ch = ch.nextSiblingElement())
            if (ch.tagName() == u"error")
                errorKids++;
        if (errorKids >= 2)
            where = QStringLiteral("(input has several <error/> children)");
        else if (in.target.namespaceURI() == u"http://etherx.jabber.org/streams" && !strcmp(k.name, "QXmppElement"))
            where = QStringLiteral("(root element in the stream namespace)");
    }
    c.require(false, std::string("c02 ") + k.name + " not-fixpoint at " + q(where), [&] {
        // find first difference for the report
        int i = 0;
        while (i < y.size() && i < z.size() && y[i] == z[i])
            i++;
        return std::string(k.name) + ": serialize(parse(Y)) != Y for the library's own output Y (first difference at byte " + std::to_string(i) + ")\n Y=" +
            y.left(3000).toStdString() + "\n Z=" + z.left(3000).toStdString() + "\n input: " + q(in.desc) + "\n E=" + q(elementXml(in.target).left(3000));
    });
    return true;
}

VCHECK("c02.parsers", 600)
{
    Input in;
    if (!buildInput(t, in)) {
        c.label("rejected:not-well-formed-or-too-large");
        return;
    }
    const auto &codecs = codec::all();
    c.sample([&] { return q(in.desc) + " E=" + q(elementXml(in.target).left(300)); });
    int typedHits = 0;
    uint32_t untypedPick = t.u(8);
    int ui = 0;
    for (const auto &k : codecs) {
        if (!k.typed) {
            // every untyped parser sees every 8th input class; message/presence/iq/error/dataform always
            bool core = !strcmp(k.name, "QXmppMessage") || !strcmp(k.name, "QXmppPresence") || !strcmp(k.name, "QXmppIq") || !strcmp(k.name, "QXmppStanza::Error") ||
                !strcmp(k.name, "QXmppDataForm") || !strcmp(k.name, "QXmppElement");
            if (!core && (uint32_t(ui++) % 8) != untypedPick)
                continue;
            checkCodec(c, k, in);
        } else if (checkCodec(c, k, in)) {
            typedHits++;
        }
    }
    c.label(in.mutations ? "mutated" : "unmutated");
    if (in.mutations > 0)
        c.nontrivial(vh::fnv(in.xml.toUtf8(), vh::fnv(in.target.tagName().toUtf8())));
    if (typedHits)
        c.label("typed-parser-admitted");
}

// Deterministic single-edit sweep (enum engine): every seed x every attribute / text node x {drop, empty, negative,
// overflow, unknown token}.  "attributes missing, empty, ... non-numeric" applied one at a time to every position the
// repository's own documents have, so a drift that needs one specific attribute to be empty is reached by construction.
VCHECK("c02.sweep", 16)
{
    auto &corp = xm::corpus();
    Input in;
    in.seed = int(t.u(uint32_t(corp.trees.size())));
    xm::XNode tree = corp.trees[in.seed];
    QVector<xm::XNode *> nodes;
    xm::collect(tree, nodes);
    if (nodes.size() > 60)
        nodes.resize(60);
    xm::XNode *n = nodes[int(t.u(uint32_t(nodes.size())))];
    // positions of this node: its attributes, then its first text child (if any)
    int textIdx = -1;
    for (int i = 0; i < n->kids.size(); i++)
        if (n->kids[i].isText) {
            textIdx = i;
            break;
        }
    int positions = n->attrs.size() + (textIdx >= 0 ? 1 : 0);
    if (positions == 0) {
        c.label("node-without-values");
        return;
    }
    int pos = int(t.u(uint32_t(positions)));
    static const QStringList values = { QString(), "-1", "99999999999999999999", "zzz-unknown", "0" };
    uint32_t action = t.u(uint32_t(values.size()) + 1);   // last = drop
    QString what;
    if (pos < n->attrs.size()) {
        if (action == uint32_t(values.size())) {
            what = QStringLiteral("drop@") + n->attrs[pos].first;
            n->attrs.remove(pos);
        } else {
            what = QStringLiteral("@%1='%2'").arg(n->attrs[pos].first, values[int(action)]);
            n->attrs[pos].second = values[int(action)];
        }
    } else {
        if (action == uint32_t(values.size()) || values[int(action)].isEmpty()) {
            what = QStringLiteral("drop-text<%1>").arg(n->name);
            n->kids.remove(textIdx);
        } else {
            what = QStringLiteral("text<%1>='%2'").arg(n->name, values[int(action)]);
            n->kids[textIdx].text = values[int(action)];
        }
    }
    in.xml = xm::toXml(tree);
    in.parsed = xu::parseFragment(in.xml);
    if (!in.parsed.ok())
        return;
    in.target = in.parsed.el;
    in.mutations = 1;
    in.desc = QStringLiteral("seed#%1 single-edit[%2 on <%3>] target=<%4 xmlns='%5'>").arg(in.seed).arg(what, n->name, in.target.tagName(), in.target.namespaceURI());
    c.sample([&] { return q(in.desc); });
    c.nontrivial(vh::fnv(in.xml.toUtf8()));
    for (const auto &k : codec::all()) {
        bool core = !strcmp(k.name, "QXmppMessage") || !strcmp(k.name, "QXmppPresence") || !strcmp(k.name, "QXmppIq") || !strcmp(k.name, "QXmppStanza::Error") || !strcmp(k.name, "QXmppDataForm") ||
            !strcmp(k.name, "QXmppElement");
        if (k.typed || core)
            checkCodec(c, k, in);
    }
}

// Deterministic single structural edit (enum engine): every seed x every element below the root x {delete, duplicate,
// drop its children, rename to an unknown tag, re-namespace, swap with the next sibling, hoist above its parent}.
// "valid stanzas with children deleted, duplicated, reordered, re-namespaced or nested under the wrong parent", one edit at
// a time at every position the repository's own documents have: a parser that mishandles one specific missing child
// (a loop that never advances, an unchecked optional) is reached by construction, not by luck.  "prefix" spells one
// element with a namespace prefix instead of a default namespace declaration (re-namespaced in spelling only).
VCHECK("c02.sweep-structure", 16)
{
    auto &corp = xm::corpus();
    Input in;
    in.seed = int(t.u(uint32_t(corp.trees.size())));
    xm::XNode tree = corp.trees[in.seed];
    // (parent, index) of every element below the root, document order
    struct Ref {
        xm::XNode *parent;
        int idx;
        xm::XNode *grand;
        int parentIdx;
    };
    std::vector<Ref> refs;
    std::function<void(xm::XNode *, xm::XNode *, int)> walk = [&](xm::XNode *n, xm::XNode *parent, int idxInParent) {
        for (int i = 0; i < n->kids.size() && refs.size() < 48; i++) {
            if (n->kids[i].isText)
                continue;
            refs.push_back({ n, i, parent, idxInParent });
            walk(&n->kids[i], n, i);
        }
    };
    walk(&tree, nullptr, -1);
    if (refs.empty()) {
        c.label("document-without-child-elements");
        return;
    }
    const Ref r = refs[t.u(uint32_t(refs.size()))];
    xm::XNode &node = r.parent->kids[r.idx];
    const QString name = node.name;
    static const char *actions[] = { "delete", "duplicate", "drop-children", "rename", "re-namespace", "swap-with-next", "hoist-above-parent", "prefix" };
    const uint32_t action = t.u(8);
    switch (action) {
    case 0: r.parent->kids.remove(r.idx); break;
    case 1: {
        xm::XNode copy = node;
        r.parent->kids.insert(r.idx, copy);
        break;
    }
    case 2: node.kids.clear(); break;
    case 3: node.name = QStringLiteral("zzz-unknown"); break;
    case 4: node.ns = QStringLiteral("urn:verif:other-namespace"); break;
    case 7:
        // the same element written with a namespace prefix: the same XML infoset, another spelling
        if (!node.prefix.isEmpty()) {
            c.label("already-prefixed");
            return;
        }
        node.prefix = QStringLiteral("vp");
        break;
    case 5: {
        int j = r.idx + 1;
        while (j < r.parent->kids.size() && r.parent->kids[j].isText)
            j++;
        if (j >= r.parent->kids.size()) {
            c.label("no-next-sibling");
            return;
        }
        std::swap(r.parent->kids[r.idx], r.parent->kids[j]);
        break;
    }
    default: {
        if (!r.grand) {
            c.label("no-grandparent");
            return;
        }
        xm::XNode moved = node;
        r.parent->kids.remove(r.idx);
        r.grand->kids.insert(r.parentIdx, moved);   // nested under the wrong parent (one level up, before its old parent)
        break;
    }
    }
    in.xml = xm::toXml(tree);
    in.parsed = xu::parseFragment(in.xml);
    if (!in.parsed.ok())
        return;
    in.target = in.parsed.el;
    in.mutations = 1;
    in.desc = QStringLiteral("seed#%1 structural-edit[%2 <%3>] target=<%4 xmlns='%5'>").arg(in.seed).arg(QString::fromLatin1(actions[action]), name, in.target.tagName(), in.target.namespaceURI());
    c.sample([&] { return q(in.desc); });
    c.label(std::string("edit:") + actions[action]);
    c.nontrivial(vh::fnv(in.xml.toUtf8()));
    for (const auto &k : codec::all()) {
        bool core = !strcmp(k.name, "QXmppMessage") || !strcmp(k.name, "QXmppPresence") || !strcmp(k.name, "QXmppIq") || !strcmp(k.name, "QXmppStanza::Error") || !strcmp(k.name, "QXmppDataForm") ||
            !strcmp(k.name, "QXmppElement");
        if (k.typed || core)
            checkCodec(c, k, in);
    }
}

// message in the three SCE modes (the statement lists them for message)
VCHECK("c02.message-modes", 600)
{
    Input in;
    if (!buildInput(t, in))
        return;
    c.sample([&] { return q(in.desc); });
    if (in.mutations)
        c.nontrivial(vh::fnv(in.xml.toUtf8()));
    for (auto mode : { QXmpp::ScePublic, QXmpp::SceSensitive, QXmpp::SceAll }) {
        QXmppMessage m;
        m.parse(in.target, mode);
        QByteArray y;
        {
            QXmlStreamWriter w(&y);
            m.toXml(&w, mode);
        }
        auto py = xu::parseFragment(y);
        c.require(py.ok(), std::string("c02 QXmppMessage mode-output-not-well-formed") + (m.xhtml().isEmpty() ? "" : " xhtml"), [&] { return "message (mode " + std::to_string(int(mode)) + ") output not well-formed: " + y.left(2000).toStdString() + "\n input: " + q(in.desc); });
        QXmppMessage m2;
        m2.parse(py.el, mode);
        QByteArray z;
        {
            QXmlStreamWriter w(&z);
            m2.toXml(&w, mode);
        }
        auto pz = xu::parseFragment(z);
        c.require(z == y || (pz.ok() && xu::canonical(pz.el, false) == xu::canonical(py.el, false)), "c02 QXmppMessage mode-not-fixpoint mode" + std::to_string(int(mode)), [&] {
            return "message parse/serialise in SCE mode " + std::to_string(int(mode)) + " is not a fixpoint\n Y=" + y.left(2500).toStdString() + "\n Z=" + z.left(2500).toStdString() + "\n input: " + q(in.desc);
        });
    }
}

VCHECK("c02.client", 600)
{
    Input in;
    if (!buildInput(t, in))
        return;
    // an eighth of the inputs are stream-management nonzas with the counter at and around its bounds (the repository's tests
    // have no document for them, so the mutator would never produce one); a stanza of ours is waiting for an ack then
    const bool smNonza = t.prob(1, 8);
    if (smNonza) {
        static const QStringList hs = { "0", "1", "2", "2147483647", "2147483648", "4294967294", "4294967295", "4294967296", "4000000000", "-1", "", "abc" };
        const QString h = t.pick(hs.toVector().toStdVector());
        switch (t.u(4)) {
        case 0: in.xml = QStringLiteral("<a xmlns='urn:xmpp:sm:3' h='%1'/>").arg(h); break;
        case 1: in.xml = QStringLiteral("<resumed xmlns='urn:xmpp:sm:3' h='%1' previd='sid'/>").arg(h); break;
        case 2: in.xml = QStringLiteral("<enabled xmlns='urn:xmpp:sm:3' id='sid' resume='true' max='%1'/>").arg(h); break;
        default: in.xml = QStringLiteral("<r xmlns='urn:xmpp:sm:3'/>"); break;
        }
        in.parsed = xu::parseFragment(in.xml);
        in.target = in.parsed.el;
        in.mutations = 1;
        in.desc = QStringLiteral("stream-management nonza ") + in.xml;
    }
    TestClient::resetIdCounter();
    bool defaults = t.b();
    {
        tc::Storages st;
        TestClient client(defaults ? QXmppClient::BasicExtensions : QXmppClient::NoExtensions);
        tc::installAllManagers(client, st, defaults);
        client.enableSm(true);
        client.openSession();
        client.pump(1);
        if (smNonza) {
            // one stanza sent and not yet acknowledged
            QXmppMessage waiting(QString(), QStringLiteral("bob@example.org"), QStringLiteral("waiting for an ack"));
            client.send(std::move(waiting));
            client.pump(1);
            c.label("stream-management-nonza-with-unacked-stanza");
        }
        client.take();
        // An <iq/> may be the answer to a request of ours: with a request outstanding under the same id and addressee the
        // element takes the response path (OutgoingIqManager, the managers' result parsers) instead of the request path.
        // Its type is re-drawn now and then, so that e.g. an error response without <error/> or a result carrying a
        // request payload arrive as well.
        int pendingDone = -1;
        if (in.parsed.el.tagName() == u"iq") {
            if (t.prob(1, 3)) {
                static const QStringList types = { "get", "set", "result", "error", "", "bogus" };
                QString ty = t.pick(types.toVector().toStdVector());
                in.parsed.el.setAttribute(QStringLiteral("type"), ty);
                in.desc += QStringLiteral(" retyped='%1'").arg(ty);
                c.label("iq-retyped");
            }
            if (t.prob(1, 2)) {
                if (in.parsed.el.attribute(QStringLiteral("id")).isEmpty())
                    in.parsed.el.setAttribute(QStringLiteral("id"), QStringLiteral("r1"));
                QXmppIq req(QXmppIq::Get);
                req.setId(in.parsed.el.attribute(QStringLiteral("id")));
                req.setTo(in.parsed.el.attribute(QStringLiteral("from")));
                pendingDone = 0;
                client.sendIq(std::move(req)).then(&client, [&pendingDone](QXmppClient::IqResult &&) { pendingDone++; });
                client.pump(1);
                client.take();
                in.desc += QStringLiteral(" answers-an-outstanding-request");
                c.label("iq-with-outstanding-request");
            }
        }
        c.sample([&] { return q(in.desc) + " E=" + q(elementXml(in.parsed.el).left(300)); });
        // the connected client receives top-level stream elements
        client.inject(in.parsed.el);
        client.pump(2);
        QStringList out = client.take();
        c.label(out.isEmpty() ? "no-reaction" : "client-sent-something");
        for (auto &x : out) {
            if (x.isEmpty() || x == u"</stream:stream>")
                continue;
            QString err;
            c.require(xu::wellFormed(x, &err), "c02 client-emitted-malformed-xml", [&] {
                return "connected client emitted bytes that are not well-formed XML (" + q(err) + "): " + q(x.left(2000)) + "\n after receiving: " + q(in.xml.left(2000)) + "\n input: " + q(in.desc);
            });
        }
        if (in.mutations)
            c.nontrivial(vh::fnv(in.xml.toUtf8()));
        client.closeSession();
        client.pump(1);
        // whatever arrived, the request is over once the session is closed for good - and it completed once
        if (pendingDone >= 0)
            c.require(pendingDone == 1, "c02 client-request-completions " + std::to_string(pendingDone), [&] {
                return "a request was outstanding when the element arrived; after the element and the end of the session it completed " + std::to_string(pendingDone) + " times\n received: " + q(elementXml(in.parsed.el).left(2000)) + "\n input: " + q(in.desc);
            });
    }
    QCoreApplication::sendPostedEvents(nullptr, QEvent::DeferredDelete);
    QCoreApplication::processEvents();
}

VCHECK("c02.uninit", 600)
{
    Input in;
    if (!buildInput(t, in, 3))
        return;
    c.sample([&] { return q(in.desc); });
    const auto &codecs = codec::all();
    if (in.mutations)
        c.nontrivial(vh::fnv(in.xml.toUtf8()));
    for (const auto &k : codecs) {
        if (k.typed && !k.accepts(in.target))
            continue;
        QByteArray y[2];
        int pat[2] = { 0x00, 0xFF };
        for (int i = 0; i < 2; i++) {
            g_fillPattern = pat[i];
            y[i] = k.parseSerialize(in.target);
            g_fillPattern = -1;
        }
        c.require(y[0] == y[1], std::string("c02 uninit ") + k.name + " output-depends-on-heap-garbage", [&] {
            return std::string(k.name) + ": serialisation of the parsed object depends on uninitialised memory (heap pre-filled with 0x00 vs 0xFF gives different output)\n fill00=" +
                y[0].left(2000).toStdString() + "\n fillFF=" + y[1].left(2000).toStdString() + "\n input: " + q(in.desc) + "\n E=" + q(elementXml(in.target).left(2000));
        });
    }
    // getters named by the property that are not part of any serialisation
    QString dumpE[2];
    for (int i = 0; i < 2; i++) {
        g_fillPattern = i ? 0xFF : 0x00;
        {
            QXmppStanza::Error e;
            e.parse(in.target);
            QXmppE2eeMetadata md;
            QXmppMessage m;
            m.parse(in.target);
            dumpE[i] = QStringLiteral("err.code=%1 err.type=%2 err.cond=%3 fileTooLarge=%4 retry=%5 md.enc=%6 md.senderKey=%7 md.sceTs=%8 msg.e2ee=%9")
                           .arg(e.code())
                           .arg(int(e.type()))
                           .arg(int(e.condition()))
                           .arg(e.fileTooLarge() ? QString::number(e.maxFileSize()) : QStringLiteral("n/a"))
                           .arg(e.retryDate().isValid() ? e.retryDate().toString(Qt::ISODate) : QStringLiteral("invalid"))
                           .arg(int(md.encryption()))
                           .arg(QString::fromLatin1(md.senderKey().toHex()))
                           .arg(md.sceTimestamp().isValid() ? 1 : 0)
                           .arg(m.e2eeMetadata() ? int(m.e2eeMetadata()->encryption()) : -1);
        }
        g_fillPattern = -1;
    }
    c.require(dumpE[0] == dumpE[1], "c02 uninit getters-depend-on-heap-garbage", "getters of freshly constructed/parsed objects read uninitialised memory:\n fill00: " + q(dumpE[0]) + "\n fillFF: " + q(dumpE[1]) + "\n input: " + q(in.desc));
}

VH_MAIN()
