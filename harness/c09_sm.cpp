// C09 — stream management: a stanza is confirmed only when acked, else resent, in order (DESIGN.md C09).
// Stateful, model-based, on a socketless client with the real C2sStreamManager / StreamAckManager driven through the
// negotiation elements (<enabled/>, <resumed/>, <failed/>), <a/>, <r/> and incoming stanzas.
//   enum engine : every sequence of `depth` operations over a reduced alphabet (exhaustive small scope)
//   rapid engine: random sequences up to 60 operations over the full alphabet
// Reference model of XEP-0198: queue of (sequence number, id); a delivery report is 'acknowledged' iff a received h
// covered its number on the session that carried it; on resume / new session with stream management the stanzas
// emitted before anything newer are exactly the uncovered ones in original order; h in every emitted <a/> and
// <resume/> equals the number of message/presence/iq stanzas received since stream management started on the session.
#include "gens.h"
#include "tc.h"

#include "QXmppMessage.h"
#include "QXmppPresence.h"
#include "QXmppPacket_p.h"
#include "QXmppSendResult.h"
#include "QXmppStreamManagement_p.h"

using vh::Ctx;
using vh::Tape;
using namespace QXmpp::Private;

static std::string q(const QString &s) { return vh::s(s); }

struct Sent {
    QString id;
    int reports = 0;
    bool acknowledged = false;   // reported SendSuccess{acknowledged=true}
    bool success = false;
    bool error = false;
    // model
    bool queued = false;         // in the unacknowledged queue
    unsigned seq = 0;
    bool modelAcked = false;
};

struct World {
    std::unique_ptr<TestClient> client;
    std::vector<std::shared_ptr<Sent>> all;
    // model
    bool sessionOpen = false;
    bool smActive = false;        // ack manager active on the current session
    bool canResume = false;
    unsigned outSeq = 0;          // last outgoing sequence number of the current SM epoch
    unsigned received = 0;        // handled count
    std::vector<std::shared_ptr<Sent>> queue;   // unacknowledged, in order
    int nextId = 0;
    int smSessions = 0;
    std::string history;
    bool sawMixedLoss = false, sawOddAck = false;
};

static QStringList stanzaIds(const QStringList &sent)
{
    QStringList ids;
    for (auto &x : sent) {
        auto p = xu::parseFragment(x);
        if (!p.ok())
            continue;
        auto n = p.el.tagName();
        if ((n == u"message" || n == u"presence" || n == u"iq") && p.el.namespaceURI() == u"jabber:client")
            ids << p.el.attribute(QStringLiteral("id"));
    }
    return ids;
}
static std::optional<unsigned> lastAckH(const QStringList &sent, const QString &tag)
{
    std::optional<unsigned> h;
    for (auto &x : sent) {
        auto p = xu::parseFragment(x);
        if (p.ok() && p.el.tagName() == tag && p.el.namespaceURI() == u"urn:xmpp:sm:3")
            h = p.el.attribute(QStringLiteral("h")).toUInt();
    }
    return h;
}

static void checkReports(World &w, Ctx &c, const char *when)
{
    for (auto &s : w.all) {
        c.require(s->reports <= 1, "c09 report-fired-twice", "delivery report of " + q(s->id) + " fired " + std::to_string(s->reports) + " times (" + when + ")\n history:" + w.history);
        c.require(s->acknowledged == s->modelAcked, std::string("c09 report-differs-from-model ") + (s->acknowledged ? "acknowledged-without-covering-ack" : "covered-but-not-acknowledged"), [&] {
            return "stanza " + q(s->id) + " (seq " + std::to_string(s->seq) + "): report acknowledged=" + (s->acknowledged ? "true" : "false") + ", model=" + (s->modelAcked ? "true" : "false") + " (" + when + ")\n history:" + w.history;
        });
    }
}

static void modelAck(World &w, unsigned h)
{
    // RFC: h is the number of stanzas handled; everything with seq <= h is covered
    while (!w.queue.empty() && w.queue.front()->seq <= h) {
        w.queue.front()->modelAcked = true;
        w.queue.front()->queued = false;
        w.queue.erase(w.queue.begin());
    }
}

static void startSession(World &w, Ctx &c, int kind, unsigned resumeH)
{
    // kind: 0 new + sm enabled, 1 new, sm not offered, 2 new, enable failed, 3 resume accepted(resumeH), 4 resume failed then new + sm, 5 resume failed then new without sm
    TestClient &cl = *w.client;
    auto &c2s = cl.c2s();
    cl.take();
    c2s.onStreamStart();
    cl.setAuthenticated(true);
    auto feed = [&](const QString &xml) {
        auto p = xu::parseFragment(xml);
        c2s.handleElement(p.el);
    };
    bool triedResume = false;
    if (kind >= 3 && w.canResume) {
        triedResume = true;
        auto task = c2s.requestResume();
        auto hSent = lastAckH(cl.sent, QStringLiteral("resume"));
        c.require(hSent.has_value() && *hSent == w.received, "c09 resume-h-wrong", "<resume h='" + (hSent ? std::to_string(*hSent) : std::string("?")) + "'/> but " + std::to_string(w.received) + " stanzas were received\n history:" + w.history);
        cl.take();
        if (kind == 3) {
            w.history += " resumed(h=" + std::to_string(resumeH) + ")";
            // model: cover, then the rest is resent in order
            modelAck(w, resumeH);
            feed(QStringLiteral("<resumed xmlns='urn:xmpp:sm:3' h='%1' previd='sid'/>").arg(resumeH));
            QStringList resent = stanzaIds(cl.take());
            QStringList want;
            for (auto &s : w.queue)
                want << s->id;
            c.require(resent == want, "c09 resend-differs on-resume", [&] { return "after <resumed h=" + std::to_string(resumeH) + "/> the client re-sent [" + q(resent.join(u",")) + "], uncovered stanzas are [" + q(want.join(u",")) + "]\n history:" + w.history; });
            w.smActive = true;
            w.sessionOpen = true;
            cl.setSmCanResume(true);
            cl.openSession();
            cl.pump(1);
            return;
        }
        w.history += " resume-failed";
        feed(QStringLiteral("<failed xmlns='urn:xmpp:sm:3'><item-not-found xmlns='urn:ietf:params:xml:ns:xmpp-stanzas'/></failed>"));
        w.canResume = false;
    }
    int newKind = kind >= 3 ? (kind == 5 ? 1 : 0) : kind;
    (void)triedResume;
    if (newKind == 0 || newKind == 2) {
        auto task = c2s.requestEnable();
        cl.take();
        if (newKind == 0) {
            w.history += " new-session(sm)";
            feed(QStringLiteral("<enabled xmlns='urn:xmpp:sm:3' id='sid' resume='true'/>"));
            // model: renumber the uncovered stanzas from 1, handled count restarts
            QStringList want;
            unsigned n = 0;
            for (auto &s : w.queue) {
                s->seq = ++n;
                want << s->id;
            }
            w.outSeq = n;
            w.received = 0;
            w.smActive = true;
            w.canResume = true;
            w.smSessions++;
            QStringList resent = stanzaIds(cl.take());
            c.require(resent == want, "c09 resend-differs on-new-session", [&] { return "after <enabled/> on a new session the client re-sent [" + q(resent.join(u",")) + "], uncovered stanzas are [" + q(want.join(u",")) + "]\n history:" + w.history; });
        } else {
            w.history += " new-session(enable-failed)";
            feed(QStringLiteral("<failed xmlns='urn:xmpp:sm:3'/>"));
            w.smActive = false;
            w.canResume = false;
        }
    } else {
        w.history += " new-session(no-sm)";
        w.smActive = false;
        w.canResume = false;
    }
    w.sessionOpen = true;
    cl.openSession();
    cl.pump(1);
    // the initial presence of a new session is itself a stanza sent on the stream
    for (auto &id : stanzaIds(cl.take())) {
        Q_UNUSED(id);
        if (w.smActive) {
            auto s = std::make_shared<Sent>();
            s->id = QString();   // the initial presence carries no id attribute
            s->queued = true;
            s->seq = ++w.outSeq;
            w.queue.push_back(s);   // not tracked in w.all: it has no report we can observe
        }
    }
}

static void run(Tape &t, Ctx &c, bool small)
{
    TestClient::resetIdCounter();
    World w;
    w.client = std::make_unique<TestClient>(QXmppClient::NoExtensions);
    TestClient &cl = *w.client;
    int depth = small ? int(c.param("depth", 4)) : 2 + int(t.u(60));
    startSession(w, c, small ? 0 : int(t.u(3)), 0);
    for (int step = 0; step < depth; step++) {
        uint32_t nops = small ? 6 : 8;
        uint32_t op = t.u(nops);
        if (!w.sessionOpen)
            op = 100;   // must reconnect
        switch (op) {
        case 0: {   // send a stanza
            auto s = std::make_shared<Sent>();
            s->id = QStringLiteral("s%1").arg(++w.nextId);
            int kind = small ? 0 : int(t.u(3));
            w.history += " send(" + q(s->id) + ")";
            QXmppTask<QXmpp::SendResult> task = [&] {
                if (kind == 0) {
                    QXmppMessage m(QString(), QStringLiteral("bob@example.org"), QStringLiteral("hi"));
                    m.setId(s->id);
                    return cl.send(std::move(m));
                } else if (kind == 1) {
                    QXmppPresence p;
                    p.setId(s->id);
                    return cl.send(std::move(p));
                }
                QXmppIq iq(QXmppIq::Set);
                iq.setId(s->id);
                iq.setTo(QStringLiteral("bob@example.org/desk"));
                return cl.send(std::move(iq));
            }();
            task.then(&cl, [s](QXmpp::SendResult &&r) {
                s->reports++;
                if (auto *ok = std::get_if<QXmpp::SendSuccess>(&r)) {
                    s->success = true;
                    s->acknowledged = ok->acknowledged;
                } else {
                    s->error = true;
                }
            });
            if (w.smActive) {
                s->queued = true;
                s->seq = ++w.outSeq;
                w.queue.push_back(s);
            }
            w.all.push_back(s);
            break;
        }
        case 1: {   // server ack
            unsigned h;
            std::string kind;
            unsigned acked = w.queue.empty() ? w.outSeq : w.queue.front()->seq - 1;
            switch (small ? t.u(3) : t.u(5)) {
            case 0: h = w.outSeq; kind = "exact"; break;
            case 1: h = acked > 0 ? acked - (small ? 1 : t.u(acked) % (acked)) : 0; kind = "stale"; w.sawOddAck = true; break;
            case 2: h = w.queue.empty() ? w.outSeq : w.queue.front()->seq + (small ? 0 : t.u(uint32_t(w.queue.size()))); kind = "between"; break;
            case 3: h = w.outSeq + 1 + t.u(5); kind = "beyond"; w.sawOddAck = true; break;
            default: h = 0xffffffffu; kind = "max"; w.sawOddAck = true; break;
            }
            w.history += " ack(h=" + std::to_string(h) + "," + kind + ")";
            if (w.smActive)
                modelAck(w, h);
            cl.injectXml(QStringLiteral("<a xmlns='urn:xmpp:sm:3' h='%1'/>").arg(h));
            break;
        }
        case 2: {   // server asks for our handled count
            w.history += " r";
            cl.take();
            cl.injectXml(QStringLiteral("<r xmlns='urn:xmpp:sm:3'/>"));
            auto h = lastAckH(cl.take(), QStringLiteral("a"));
            if (w.smActive) {
                c.require(h.has_value(), "c09 no-answer-to-r", "no <a/> in answer to <r/>\n history:" + w.history);
                c.require(*h == w.received, "c09 reported-h-wrong", "client reports h=" + std::to_string(*h) + " but received " + std::to_string(w.received) + " stanzas on this session\n history:" + w.history);
            }
            break;
        }
        case 3: {   // receive something
            int kind = int(t.u(small ? 2 : 6));
            static const char *names[] = { "message", "nonza", "presence", "iq-result", "ack-like-nonza", "iq-result-answering-own-request" };
            w.history += std::string(" recv(") + names[kind] + ")";
            switch (kind) {
            case 0: cl.injectXml(QStringLiteral("<message from='bob@example.org/desk' type='chat'><body>yo</body></message>")); w.received++; break;
            case 1: cl.injectXml(QStringLiteral("<active xmlns='urn:xmpp:csi:0'/>")); break;
            case 2: cl.injectXml(QStringLiteral("<presence from='bob@example.org/desk'/>")); w.received++; break;
            case 3: cl.injectXml(QStringLiteral("<iq type='result' id='nobody-asked' from='bob@example.org/desk'/>")); w.received++; break;
            case 4: cl.injectXml(QStringLiteral("<enabled xmlns='urn:xmpp:sm:3' id='late'/>")); break;
            case 5: {
                // the answer to a request the client is tracking takes another path through the dispatcher (the IQ manager
                // claims it), and is a received stanza like any other
                QXmppIq req(QXmppIq::Get);
                const QString id = QStringLiteral("q%1").arg(++w.nextId);
                req.setId(id);
                req.setTo(QStringLiteral("bob@example.org/desk"));
                cl.sendIq(std::move(req));
                if (w.smActive) {
                    auto s = std::make_shared<Sent>();
                    s->id = id;
                    s->queued = true;
                    s->seq = ++w.outSeq;
                    w.queue.push_back(s);   // not tracked in w.all: sendIq() reports the answer, not the delivery
                }
                cl.injectXml(QStringLiteral("<iq type='%1' id='%2' from='bob@example.org/desk'>%3</iq>")
                                 .arg(t.b() ? QStringLiteral("result") : QStringLiteral("error"), id, QStringLiteral("<error type='cancel'><item-not-found xmlns='urn:ietf:params:xml:ns:xmpp-stanzas'/></error>")));
                w.received++;
                break;
            }
            }
            break;
        }
        case 4: {   // connection loss
            w.history += w.canResume ? " loss(resumable)" : " loss";
            bool covered = false, uncovered = !w.queue.empty();
            for (auto &s : w.all)
                covered = covered || s->modelAcked;
            if (covered && uncovered)
                w.sawMixedLoss = true;
            w.sessionOpen = false;
            w.smActive = false;   // StreamAckManager::onSessionClosed
            cl.closeSession();
            break;
        }
        case 5:
        case 6: {   // a nonza goes out: never numbered
            w.history += " send-nonza";
            cl.stream()->streamAckManager().send(QXmppPacket(QByteArrayLiteral("<inactive xmlns='urn:xmpp:csi:0'/>"), false, QXmppPromise<QXmpp::SendResult>()));
            break;
        }
        case 7: {   // send while the session is down is exercised by op 100 below
            break;
        }
        case 100: {
            if (!small && t.prob(1, 4)) {
                // send while disconnected: not queued by stream management (it is off), reported as an error at once
                auto s = std::make_shared<Sent>();
                s->id = QStringLiteral("s%1").arg(++w.nextId);
                w.history += " send-while-disconnected(" + q(s->id) + ")";
                QXmppMessage m(QString(), QStringLiteral("bob@example.org"), QStringLiteral("offline"));
                m.setId(s->id);
                cl.send(std::move(m)).then(&cl, [s](QXmpp::SendResult &&r) {
                    s->reports++;
                    if (auto *ok = std::get_if<QXmpp::SendSuccess>(&r))
                        s->acknowledged = ok->acknowledged;
                });
                w.all.push_back(s);
            }
            int kind = small ? int(t.u(3)) * 3 % 7 : int(t.u(6));   // small: 0 new+sm, 3 resume, 6->treated as 5
            if (kind > 5)
                kind = 5;
            unsigned h = 0;
            if (kind == 3) {
                unsigned lo = w.queue.empty() ? w.outSeq : w.queue.front()->seq - 1;
                h = small ? lo + t.u(2) : lo + t.u(uint32_t(w.queue.size()) + 2);
            }
            startSession(w, c, kind, h);
            break;
        }
        }
        cl.pump(1);
        checkReports(w, c, "after step");
    }
    if (w.sawMixedLoss || w.sawOddAck)
        c.nontrivial(vh::fnv(w.history));
    if (w.sawMixedLoss)
        c.label("loss-with-covered-and-uncovered");
    if (w.sawOddAck)
        c.label("stale-or-beyond-ack");
    c.label("sm-sessions:" + std::to_string(std::min(w.smSessions, 3)));
    c.sample([&] { return w.history; });
}

VCHECK("c09.enum", 32) { run(t, c, true); }
VCHECK("c09.random", 260) { run(t, c, false); }

VH_MAIN()
