// C03 — stream framing is independent of how the byte stream is split into reads (DESIGN.md C03).
// A real XmppSocket on a real (loopback, plain) QSslSocket; the harness owns the schedule: chunk i is written and
// flushed, then the event loop is pumped until the receiver has consumed exactly those bytes, so one chunk = one read.
// Oracle: differential against the single-read run of the same stream on a fresh socket pair: the sequence of
// stream-open / stanza / stream-close events with canonical XML of each element must be identical.  The null-element
// notification for whitespace keep-alives is not a stanza and is filtered on both sides.
//   c03.split2   every 2-way split of a generated stream (exhaustive per stream)
//   c03.random   random k-way splits biased into tags, attribute values, entities and multi-byte characters, and
//                one-byte-at-a-time delivery
#include "gens.h"
#include "xmlmut.h"

#include "XmppSocket.h"

#include <QSslSocket>
#include <QTcpServer>
#include <QTcpSocket>

using vh::Ctx;
using vh::Tape;
using QXmpp::Private::XmppSocket;

static std::string q(const QString &s) { return vh::s(s); }

// One loopback TCP connection per process, reused for every run (thousands of short connections per second
// would exhaust the ephemeral ports); every run gets a fresh XmppSocket on it.
struct Link {
    QTcpServer server;
    QSslSocket *client = nullptr;     // given to XmppSocket
    QTcpSocket *peer = nullptr;       // the harness writes here
    qint64 delivered = 0;             // bytes seen by readyRead on the client side
    bool ok = false;
    Link()
    {
        if (!server.listen(QHostAddress::LocalHost, 0))
            return;
        client = new QSslSocket;
        // connected BEFORE any XmppSocket connects its own slot: runs first, does not consume
        QObject::connect(client, &QSslSocket::readyRead, [this] { delivered += client->bytesAvailable(); });
        client->connectToHost(QHostAddress::LocalHost, server.serverPort());
        for (int i = 0; i < 5000 && !(server.hasPendingConnections() && client->state() == QAbstractSocket::ConnectedState); i++)
            QCoreApplication::processEvents(QEventLoop::AllEvents, 2);
        peer = server.nextPendingConnection();
        ok = peer && client->state() == QAbstractSocket::ConnectedState;
        if (peer)
            peer->setSocketOption(QAbstractSocket::LowDelayOption, 1);
    }
};
static Link &link()
{
    static Link *l = new Link;
    return *l;
}

struct Pair {
    Link &l = link();
    XmppSocket *xs = nullptr;
    qint64 base = 0;
    QStringList events;
    bool ok = false;

    Pair()
    {
        ok = l.ok;
        if (!ok)
            return;
        base = l.delivered;
        xs = new XmppSocket(nullptr);
        xs->setSocket(l.client);
        QObject::connect(xs, &XmppSocket::streamReceived, [this](const QDomElement &e) {
            // only the start tag: children present in the same read are delivered as stanzas
            QDomElement shallow = e.cloneNode(false).toElement();
            events << QStringLiteral("OPEN ") + xu::canonical(shallow, false);
        });
        QObject::connect(xs, &XmppSocket::stanzaReceived, [this](const QDomElement &e) {
            if (e.isNull())
                return;   // whitespace keep-alive notification
            events << QStringLiteral("STANZA ") + xu::canonical(e, false);
        });
        QObject::connect(xs, &XmppSocket::streamClosed, [this] { events << QStringLiteral("CLOSE"); });
    }
    ~Pair() { delete xs; }
    // write one chunk and wait until the receiver has consumed it
    bool deliver(const QByteArray &chunk, qint64 totalAfter)
    {
        if (chunk.isEmpty())
            return true;
        l.peer->write(chunk);
        l.peer->flush();
        for (int i = 0; i < 20000 && l.delivered - base < totalAfter; i++)
            QCoreApplication::processEvents(QEventLoop::AllEvents, 1);
        return l.delivered - base == totalAfter;
    }
};

struct Stream {
    QByteArray bytes;
    std::string desc;
    QVector<int> interesting;   // cut positions inside tags / attribute values / entities / multi-byte characters
};

static QString hardText(Tape &t)
{
    // text with entities-to-be, multi-byte characters of every length, '>' and quotes
    QString s;
    int n = 1 + int(t.u(10));
    static const QStringList pool = { "a", "é", "ß", "€", "日本", "\xF0\x9F\x98\x80", "\xF0\x9F\x91\x8D\xF0\x9F\x8F\xBE", "&", "<", ">", "\"", "'", " ", "\n", "x", "]]>", "&amp;" };
    for (int i = 0; i < n; i++)
        s += pool[int(t.u(uint32_t(pool.size())))];
    return s;
}

static Stream genStream(Tape &t, int maxStanzas)
{
    Stream s;
    static const QStringList headers = {
        "<?xml version='1.0'?><stream:stream xmlns='jabber:client' xmlns:stream='http://etherx.jabber.org/streams' version='1.0' id='s1' from='example.org'>",
        "<stream:stream xmlns='jabber:client' xmlns:stream='http://etherx.jabber.org/streams' version='1.0' id='abc' from='example.org' xml:lang='en'>",
        "<?xml version=\"1.0\" encoding=\"UTF-8\"?>\n<stream:stream from=\"example.org\" id=\"++TR84Sm6A3hnt3Q065SnAbbk3Y=\" xmlns=\"jabber:client\" xmlns:stream=\"http://etherx.jabber.org/streams\" version=\"1.0\">",
        "<stream:stream xmlns:stream='http://etherx.jabber.org/streams' xmlns='jabber:client' id='\xC3\xA9-1'>",
        "\n<stream:stream xmlns='jabber:client' xmlns:stream='http://etherx.jabber.org/streams' version='1.0'>",
    };
    QString text = headers[int(t.u(uint32_t(headers.size())))];
    int n = 1 + int(t.u(uint32_t(maxStanzas)));
    auto &corp = xm::corpus();
    for (int i = 0; i < n; i++) {
        switch (t.u(5)) {
        case 0:
        case 1: {
            // a document from the repository's tests (re-serialised by the harness: no XML declaration inside)
            const auto &tree = corp.trees[int(t.u(uint32_t(corp.trees.size())))];
            QString x = xm::toXml(tree);
            // a nested <stream:stream/> element is not part of a valid stream
            if (x.size() < 1500 && tree.name != u"stream")
                text += x;
            else
                text += QStringLiteral("<presence/>");
            break;
        }
        case 2: text += QStringLiteral("<message from='romeo@montague.example/orchard' type='chat'><body>") + xm::escText(hardText(t)) + QStringLiteral("</body></message>"); break;
        case 3: text += QStringLiteral("<presence from=\"bob@example.org/") + xm::escAttr(hardText(t)) + QStringLiteral("\"><status>") + xm::escText(hardText(t)) + QStringLiteral("</status></presence>"); break;
        case 4: text += QStringLiteral("<iq type='result' id=\"") + xm::escAttr(hardText(t)) + QStringLiteral("\"/>"); break;
        }
        if (t.prob(1, 4))
            text += t.pick<QString>({ " ", "\n", "\n\n", "\t " });
    }
    bool close = t.prob(1, 3);
    if (close)
        text += QStringLiteral("</stream:stream>");
    s.bytes = text.toUtf8();
    // byte classes
    bool inTag = false, inAttr = false;
    char quote = 0;
    for (int i = 1; i < s.bytes.size(); i++) {
        unsigned char ch = (unsigned char)s.bytes[i - 1];
        if (!inTag && ch == '<')
            inTag = true;
        else if (inTag && !inAttr && (ch == '"' || ch == '\'')) {
            inAttr = true;
            quote = char(ch);
        } else if (inAttr && char(ch) == quote)
            inAttr = false;
        else if (inTag && !inAttr && ch == '>')
            inTag = false;
        bool midChar = ((unsigned char)s.bytes[i] & 0xC0) == 0x80;   // cutting before a continuation byte
        bool inEntity = false;
        for (int k = i - 1; k >= 0 && k >= i - 6; k--) {
            if (s.bytes[k] == ';')
                break;
            if (s.bytes[k] == '&') {
                inEntity = true;
                break;
            }
        }
        if (inTag || inAttr || midChar || inEntity)
            s.interesting.push_back(i);
    }
    s.desc = "header+" + std::to_string(n) + " stanzas" + (close ? "+close" : "") + " (" + std::to_string(s.bytes.size()) + " bytes)";
    return s;
}

static QStringList runChunks(Ctx &c, const QByteArray &bytes, const QVector<int> &cuts, bool &delivered)
{
    Pair p;
    delivered = false;
    if (!p.ok)
        return p.events;   // no loopback available: inconclusive (delivered stays false), never a violation
    int prev = 0;
    for (int cut : cuts) {
        if (!p.deliver(bytes.mid(prev, cut - prev), cut))
            return p.events;
        prev = cut;
    }
    if (!p.deliver(bytes.mid(prev), bytes.size()))
        return p.events;
    for (int i = 0; i < 3; i++)
        QCoreApplication::processEvents(QEventLoop::AllEvents, 1);
    delivered = true;
    return p.events;
}

static std::string where(const QByteArray &bytes, int cut)
{
    bool mid = cut < bytes.size() && ((unsigned char)bytes[cut] & 0xC0) == 0x80;
    return std::string(mid ? "inside-multibyte-character" : "elsewhere");
}

static void compare(Ctx &c, const Stream &s, const QStringList &ref, const QStringList &got, const QVector<int> &cuts)
{
    if (got == ref)
        return;
    bool anyMid = false;
    for (int cut : cuts)
        anyMid = anyMid || where(s.bytes, cut) == "inside-multibyte-character";
    std::string kind = got.size() < ref.size() ? "events-lost" : got.size() > ref.size() ? "events-added" : "content-altered";
    QString cutsStr;
    for (int cut : cuts)
        cutsStr += QString::number(cut) + u' ';
    int idx = 0;
    while (idx < got.size() && idx < ref.size() && got[idx] == ref[idx])
        idx++;
    c.fail("c03 split-changes-events " + kind + (anyMid ? " cut-inside-multibyte-character" : " cut-elsewhere"),
           "delivering the stream in chunks (cuts at bytes " + q(cutsStr) + ") gives different events than a single read; first difference at event " + std::to_string(idx) + "\n single: " +
               q(idx < ref.size() ? ref[idx].left(600) : QStringLiteral("<none>")) + "\n chunked: " + q(idx < got.size() ? got[idx].left(600) : QStringLiteral("<none>")) + "\n stream=" + s.bytes.left(3000).toStdString());
}

VCHECK("c03.split2", 200)
{
    Stream s = genStream(t, 3);
    if (s.bytes.size() > 900) {
        c.label("skipped:too-long-for-exhaustive-splits");
        return;
    }
    c.sample([&] { return s.desc + " " + s.bytes.left(300).toStdString(); });
    bool ok = false;
    QStringList ref = runChunks(c, s.bytes, {}, ok);
    if (!ok) {
        c.label("inconclusive:delivery-stalled");
        return;
    }
    c.require(!ref.isEmpty() && ref.first().startsWith(QStringLiteral("OPEN")), "c03 single-read-no-stream-open", "single read did not produce a stream-open event: " + s.bytes.left(400).toStdString());
    uint64_t n = 0;
    for (int cut = 1; cut < s.bytes.size(); cut++) {
        bool d = false;
        QStringList got = runChunks(c, s.bytes, { cut }, d);
        if (!d) {
            c.label("inconclusive:delivery-stalled");
            continue;
        }
        n++;
        compare(c, s, ref, got, { cut });
    }
    c.count("two-way-splits", n);
    if (!s.interesting.isEmpty())
        c.nontrivial(vh::fnv(s.bytes));
}

VCHECK("c03.random", 400)
{
    Stream s = genStream(t, 12);
    if (s.bytes.size() > 8192)
        return;
    bool ok = false;
    QStringList ref = runChunks(c, s.bytes, {}, ok);
    if (!ok) {
        c.label("inconclusive:delivery-stalled");
        return;
    }
    QVector<int> cuts;
    std::string mode;
    if (t.prob(1, 8) && s.bytes.size() <= 1200) {
        for (int i = 1; i < s.bytes.size(); i++)
            cuts << i;
        mode = "byte-at-a-time";
    } else {
        int k = 1 + int(t.u(12));
        QSet<int> set;
        for (int i = 0; i < k; i++) {
            int cut = (!s.interesting.isEmpty() && t.prob(3, 4)) ? s.interesting[int(t.u(uint32_t(s.interesting.size())))] : 1 + int(t.u(uint32_t(s.bytes.size() - 1)));
            set.insert(cut);
        }
        cuts = set.values().toVector();
        std::sort(cuts.begin(), cuts.end());
        mode = std::to_string(cuts.size()) + "-cuts";
    }
    c.sample([&] { return s.desc + " " + mode; });
    c.label(mode == "byte-at-a-time" ? "byte-at-a-time" : "k-way");
    bool inside = false;
    for (int cut : cuts)
        inside = inside || s.interesting.contains(cut);
    if (inside)
        c.nontrivial(vh::fnv(s.bytes, vh::fnv(mode)));
    bool d = false;
    QStringList got = runChunks(c, s.bytes, cuts, d);
    if (!d) {
        c.label("inconclusive:delivery-stalled");
        return;
    }
    compare(c, s, ref, got, cuts);
}

VH_MAIN()
