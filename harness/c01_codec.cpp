// C01 — stanza codecs lose nothing: serialize-then-parse is the identity on every field (DESIGN.md C01).
//   c01.message   object-first: QXmppMessage with any subset of its ~34 known extensions, hard string values.
//                 Oracle: (1) every getter equal after parse(serialize(m)); (2) re-serialisation byte-identical;
//                 (3) structure lock: element skeleton independent of the string values; (4) well-formed output.
//   c01.docs      document-first, metamorphic: a value position of a document from the repository's tests is "free text
//                 for codec K" when two probe tokens full of JID / URI / list punctuation come back verbatim from
//                 K.parse -> K.serialise; substituting a hard value (markup metacharacters, quotes, non-ASCII, astral,
//                 TAB/LF/CR in attributes) there must then commute with the codec: same skeleton, the value intact
//                 wherever the probe appeared, well-formed, and still a fixpoint if the probe document was one.
//   c01.element   unknown payloads pass through unchanged: a generated element tree (namespaces switching back and forth
//                 between ancestors, hard attribute values and text) copied by QXmppElement, or carried as an unknown child
//                 of a message / presence / iq, is serialised as the same XML infoset it was parsed from.
//   c01.objects   the same four oracles for every class of the object-first tables (harness/common/objgen_*.h): presence,
//                 IQ payloads, nonzas ...; typed fields at their type bounds, every optional field present/absent.
#include "msggen.h"
#include "objgen_all.h"
#include "objgen_check.h"
#include "codec_registry.h"
#include "xmlmut.h"

#include "QXmppElement.h"
#include "QXmppIq.h"
#include "QXmppPresence.h"

using vh::Ctx;
using vh::Tape;

static std::string q(const QString &s) { return vh::s(s); }

VCHECK("c01.message", 900)
{
    Tape benignTape = t;   // identical choices, used to build the benign twin
    msggen::Vals v { t, msggen::Hard };
    v.forbidMask = 1ull << msggen::XE2eeFallbackBody;   // documented: only written in ScePublic mode
    auto g = msggen::genMessage(v);
    if (t.prob(1, 3))
        g.m.setLang(t.pick<QString>({ "en", "de", "el", "zh-Hant" }));
    const QByteArray y = xu::ser(g.m);
    c.sample([&] { return "exts={" + g.desc + "} xml=" + y.left(300).toStdString(); });
    int nExt = __builtin_popcountll(g.mask);
    c.label("exts:" + std::string(nExt == 0 ? "0" : nExt == 1 ? "1" : nExt == 2 ? "2" : nExt < 8 ? "3-7" : nExt < 20 ? "8-19" : "20+"));
    if (nExt >= 1 && v.sawHard)
        c.nontrivial(vh::fnvInt(g.mask, vh::fnvInt(v.valueClasses)));
    for (int i = 0; i < msggen::XCount; i++)
        if (g.has(i))
            c.label(std::string("ext:") + msggen::extNames[i]);

    // (4) well-formed
    QString werr;
    c.require(xu::wellFormed(QString::fromUtf8(y), &werr), "c01.message not-well-formed", [&] { return "serialised message is not well-formed (" + q(werr) + "): " + y.toStdString(); });
    auto p = xu::parseFragment(y);
    QXmppMessage back;
    back.parse(p.el);
    // (1) getters
    QStringList a = msggen::dump(g.m), b = msggen::dump(back);
    c.require(a == b, "c01.message field-lost " + q(msggen::firstDifferenceKey(a, b)), [&] {
        return "getter differs after parse(serialize(m)): " + q(msggen::firstDifference(a, b)) + "\n exts={" + g.desc + "}\n xml=" + y.toStdString();
    });
    // (2) re-serialise
    const QByteArray y2 = xu::ser(back);
    // "the same XML" is judged up to sibling order (sets such as reaction emojis have no order)
    auto p2 = xu::parseFragment(y2);
    c.require(p2.ok() && xu::canonical(p2.el, true) == xu::canonical(p.el, true), "c01.message reserialize-differs",
              [&] { return "serialize(parse(serialize(m))) differs\n first =" + y.toStdString() + "\n second=" + y2.toStdString(); });
    // (3) structure lock against the benign twin
    msggen::Vals vb { benignTape, msggen::Benign };
    vb.forbidMask = v.forbidMask;
    auto gb = msggen::genMessage(vb);
    if (!g.m.lang().isEmpty())
        gb.m.setLang(g.m.lang());
    const QByteArray yb = xu::ser(gb.m);
    auto pb = xu::parseFragment(yb);
    c.require(pb.ok(), "c01.message benign-not-well-formed", "benign twin not well-formed: " + yb.toStdString());
    // ids are generated from attribute-safe strings in both (benign uses "id1"); presence is identical
    QString s1 = xu::skeleton(p.el), s2 = xu::skeleton(pb.el);
    c.require(s1 == s2, "c01.message structure-depends-on-values", [&] {
        return "element structure changes with field values (markup injection or value-dependent loss)\n hard  =" + y.toStdString() + "\n benign=" + yb.toStdString();
    });
}

// canonical text of `e` with every occurrence of `tok` in attribute values and text replaced by `val`
static QString substCanonical(const QDomElement &e, const QString &tok, const QString &val, bool sortSiblings)
{
    auto sub = [&](QString v) { return v.replace(tok, val); };
    QString out = QStringLiteral("<{") + e.namespaceURI() + QStringLiteral("}") + (e.localName().isEmpty() ? e.tagName() : e.localName());
    QStringList attrs;
    auto am = e.attributes();
    for (int i = 0; i < am.count(); i++) {
        QDomAttr a = am.item(i).toAttr();
        QString n = a.nodeName();
        if (n == u"xmlns" || n.startsWith(u"xmlns:"))
            continue;
        attrs << QStringLiteral(" {") + a.namespaceURI() + QStringLiteral("}") + (a.localName().isEmpty() ? a.name() : a.localName()) + QStringLiteral("=\"") + sub(a.value()).toHtmlEscaped() + QStringLiteral("\"");
    }
    attrs.sort();
    out += attrs.join(QString());
    out += u'>';
    QStringList children;
    QString text;
    for (QDomNode n = e.firstChild(); !n.isNull(); n = n.nextSibling()) {
        if (n.isElement()) {
            if (!text.isEmpty()) {
                children << QStringLiteral("#text:") + sub(text).toHtmlEscaped();
                text.clear();
            }
            children << substCanonical(n.toElement(), tok, val, sortSiblings);
        } else if (n.isText() || n.isCDATASection()) {
            text += n.nodeValue();
        }
    }
    if (!text.isEmpty())
        children << QStringLiteral("#text:") + sub(text).toHtmlEscaped();
    if (sortSiblings)
        children.sort();
    out += children.join(QString());
    out += QStringLiteral("</>");
    return out;
}

VCHECK("c01.docs", 120)
{
    auto &corp = xm::corpus();
    if (corp.trees.isEmpty()) {
        c.label("no-seed-documents");
        return;
    }
    const int seed = int(t.u(uint32_t(corp.trees.size())));
    xm::XNode tree = corp.trees[seed];
    QVector<xm::XNode *> all;
    xm::collect(tree, all);
    if (all.size() > 200)
        all.resize(200);
    xm::XNode *target = (t.prob(1, 2) || all.isEmpty()) ? &tree : all[int(t.u(uint32_t(all.size())))];
    if (target->isText)
        target = &tree;
    // value positions of the target's subtree
    struct Pos {
        xm::XNode *n;
        int attr;   // >= 0: attribute index; -1: text child
        int kid;
    };
    std::vector<Pos> pos;
    {
        QVector<xm::XNode *> sub;
        xm::collect(*target, sub);
        if (!sub.contains(target))
            sub.push_front(target);
        for (auto *n : sub) {
            if (n->isText || pos.size() > 120)
                continue;
            for (int i = 0; i < n->attrs.size(); i++)
                pos.push_back({ n, i, -1 });
            for (int i = 0; i < n->kids.size(); i++)
                if (n->kids[i].isText && !n->kids[i].text.trimmed().isEmpty())
                    pos.push_back({ n, -1, i });
        }
    }
    if (pos.empty()) {
        c.label("document-without-values");
        return;
    }
    const size_t pi = t.u(uint32_t(pos.size()));
    const Pos p = pos[pi];
    const bool isAttr = p.attr >= 0;
    const QString hard = gen::str(t, isAttr ? unsigned(gen::AttrSafe | gen::CtlWs) : unsigned(gen::TextSafe), 24);
    const uint32_t untypedPick = t.u(8);
    auto render = [&](const QString &v) {
        if (isAttr)
            p.n->attrs[p.attr].second = v;
        else
            p.n->kids[p.kid].text = v;
        return xm::toXml(*target);
    };
    // probes: JID / URI / list punctuation, mixed case, inner blanks - whatever survives these verbatim is free text
    static const QString T1 = QStringLiteral("Vt1@k/A a:b=c;d,e.f|g+h"), T2 = QStringLiteral("Vt2@k/B a:b=c;d,e.f|i+j");
    const QString where = QStringLiteral("<%1>%2").arg(p.n->name, isAttr ? QStringLiteral("@") + p.n->attrs[p.attr].first : QStringLiteral("#text"));
    const QString e1 = render(T1), e2 = render(T2), eh = render(hard);
    auto p1 = xu::parseFragment(e1), p2 = xu::parseFragment(e2), ph = xu::parseFragment(eh);
    if (!p1.ok() || !p2.ok() || !ph.ok()) {
        c.label("harness:substituted-document-unparsable");
        return;
    }
    c.sample([&] { return "seed#" + std::to_string(seed) + " " + q(where) + " value=" + q(hard) + " doc=" + q(eh.left(240)); });
    const QByteArray t1u = T1.toUtf8();
    int transparentFor = 0;
    int ui = 0;
    for (const auto &k : codec::all()) {
        if (!strcmp(k.name, "QXmppExportData") || !strcmp(k.name, "QXmppBitsOfBinaryDataList"))
            continue;   // a file format / a list parsed from its parent: see c02
        if (!k.typed) {
            bool core = !strcmp(k.name, "QXmppMessage") || !strcmp(k.name, "QXmppPresence") || !strcmp(k.name, "QXmppIq") || !strcmp(k.name, "QXmppStanza::Error") ||
                !strcmp(k.name, "QXmppDataForm") || !strcmp(k.name, "QXmppElement");
            if (!core && (uint32_t(ui++) % 8) != untypedPick)
                continue;
        } else if (!k.accepts(p1.el) || !k.accepts(p2.el)) {
            continue;
        }
        const std::string name = k.name;
        const QByteArray y1 = k.parseSerialize(p1.el);
        if (y1.isEmpty() || !y1.contains(t1u))
            continue;
        auto d1 = xu::parseFragment(y1);
        if (!d1.ok())
            continue;   // several top-level elements or ill-formed probe output: c02's business
        auto d2 = xu::parseFragment(k.parseSerialize(p2.el));
        if (!d2.ok() || substCanonical(d1.el, T1, T2, true) != xu::canonical(d2.el, true)) {
            c.label("position-not-free-text");
            continue;
        }
        if (k.typed && !k.accepts(ph.el)) {
            c.label("hard-value-changes-type-check");
            continue;
        }
        transparentFor++;
        c.label("codec:" + name);
        const std::string ctx = name + " at " + q(where);
        const QByteArray yh = k.parseSerialize(ph.el);
        auto report = [&](const char *what) {
            return std::string(what) + "\n codec " + name + ", position " + q(where) + " of seed#" + std::to_string(seed) + ", value " + q(hard) + "\n input =" + q(eh.left(2000)) + "\n output=" + yh.left(2000).toStdString() +
                "\n probe output=" + y1.left(2000).toStdString();
        };
        QString werr;
        c.require(xu::wellFormed(QString::fromUtf8(yh), &werr), "c01.docs " + name + " not-well-formed-with-value at " + q(where), [&] { return report("the value makes the output ill-formed"); });
        auto dh = xu::parseFragment(yh);
        c.require(dh.ok(), "c01.docs " + name + " not-well-formed-with-value at " + q(where), [&] { return report("the value makes the output unparsable"); });
        c.require(xu::skeleton(dh.el) == xu::skeleton(d1.el), "c01.docs " + name + " structure-depends-on-value at " + q(where), [&] { return report("the element structure of the output depends on a free-text value"); });
        c.require(xu::canonical(dh.el, true) == substCanonical(d1.el, T1, hard, true), "c01.docs " + name + " value-not-preserved at " + q(where),
                  [&] { return report("the probe tokens pass this position verbatim, the hard value does not"); });
        // (sets such as reaction emojis are written in an order that depends on the values: compared up to sibling order)
        // fixpoint with the value, judged only where the probe document is a fixpoint (value-independent drift is c02's)
        if (!k.typed || k.accepts(d1.el)) {
            auto z1 = xu::parseFragment(k.parseSerialize(d1.el));
            if (z1.ok() && xu::canonical(z1.el, true) == xu::canonical(d1.el, true) && (!k.typed || k.accepts(dh.el))) {
                const QByteArray zh = k.parseSerialize(dh.el);
                auto dz = xu::parseFragment(zh);
                c.require(dz.ok() && xu::canonical(dz.el, true) == xu::canonical(dh.el, true), "c01.docs " + name + " not-fixpoint-with-value at " + q(where), [&] {
                    return report("parse-then-serialise changes the library's own output once it carries the value") + "\n second=" + zh.left(2000).toStdString();
                });
            }
        }
    }
    if (transparentFor == 0) {
        c.label("no-codec-treats-position-as-free-text");
        return;
    }
    c.label(isAttr ? "position:attribute" : "position:text");
    if (gen::hasNonAlnum(hard))
        c.nontrivial(vh::fnvInt(uint64_t(seed), vh::fnvInt(uint64_t(pi) * 64 + gen::strClass(hard), vh::fnvInt(uint64_t(transparentFor)))));
}

// ---- c01.element: generic element pass-through
// Domain (what QXmppElement documents / is built to keep): un-prefixed elements in default namespaces, un-prefixed attributes
// with non-empty values, an element has either text or child elements (text of mixed content is concatenated), no comments,
// processing instructions or CDATA distinction.
static xm::XNode genTree(Tape &t, const QString &parentNs, int depth, bool &sawSwitchBack, QStringList ancestors)
{
    static const QStringList nsPool = { QStringLiteral("urn:example:verif:a"), QStringLiteral("urn:example:verif:b"), QStringLiteral("urn:example:verif:c"), QStringLiteral("jabber:client") };
    static const QStringList names = { QStringLiteral("payload"), QStringLiteral("query"), QStringLiteral("item"), QStringLiteral("x"), QStringLiteral("message"), QStringLiteral("body") };
    xm::XNode n;
    n.isText = false;
    // the payload element itself gets a name no stanza class interprets (QXmppMessage reads <body/>, <subject/>, ... by tag
    // name alone); deeper levels also use message/body, as a forwarded stanza would
    n.name = names[int(t.u(depth <= 1 ? 3 : uint32_t(names.size())))];
    n.ns = (depth > 0 && t.b()) ? parentNs : t.pick(nsPool.toVector().toStdVector());
    if (n.ns != parentNs && ancestors.contains(n.ns))
        sawSwitchBack = true;
    int na = int(t.u(3));
    for (int i = 0; i < na; i++)
        n.attrs.push_back({ QStringLiteral("a%1").arg(i), gen::str(t, gen::AttrSafe | gen::CtlWs, 12) });
    if (depth >= 4 || t.prob(1, 3)) {
        if (t.b()) {
            xm::XNode tx;
            tx.isText = true;
            tx.text = gen::str(t, gen::TextSafe, 16);
            n.kids.push_back(tx);
        }
    } else {
        int nk = 1 + int(t.u(3));
        ancestors << n.ns;
        for (int i = 0; i < nk; i++)
            n.kids.push_back(genTree(t, n.ns, depth + 1, sawSwitchBack, ancestors));
    }
    return n;
}

VCHECK("c01.element", 300)
{
    bool switchBack = false;
    // carrier: 0 = QXmppElement itself, 1..3 = unknown child of message / presence / iq; the carrier declares jabber:client
    // itself (as a stanza received from a stream does) or inherits it
    const int carrier = int(t.u(4));
    const bool declared = t.b();
    const QString carrierNs = QStringLiteral("jabber:client");
    xm::XNode tree = genTree(t, carrierNs, carrier == 0 ? 0 : 1, switchBack, carrier == 0 ? QStringList() : QStringList { carrierNs });
    if (carrier != 0 && tree.ns == carrierNs)
        tree.ns = QStringLiteral("urn:example:verif:a");   // the payload itself must be foreign to the stanza
    QString inner;
    xm::toXml(tree, carrierNs, inner);
    static const char *open[] = { "", "<message%1 type='chat' id='m1'>", "<presence%1 id='p1'>", "<iq%1 type='set' id='i1'>" };
    static const char *close[] = { "", "</message>", "</presence>", "</iq>" };
    const QString doc = carrier == 0 ? inner : QString::fromLatin1(open[carrier]).arg(declared ? QStringLiteral(" xmlns='jabber:client'") : QString()) + inner + QString::fromLatin1(close[carrier]);
    auto pin = xu::parseFragment(doc);
    if (!pin.ok()) {
        c.label("harness:generated-document-unparsable");
        return;
    }
    c.sample([&] { return q(doc.left(300)); });
    QByteArray out;
    switch (carrier) {
    case 0:
        out = og::serWrapped(QXmppElement(pin.el));
        break;
    case 1: {
        QXmppMessage m;
        m.parse(pin.el);
        out = xu::ser(m);
        break;
    }
    case 2: {
        QXmppPresence pr;
        pr.parse(pin.el);
        out = xu::ser(pr);
        break;
    }
    default: {
        QXmppIq iq;
        iq.parse(pin.el);
        out = xu::ser(iq);
        break;
    }
    }
    static const char *carrierName[] = { "QXmppElement", "QXmppMessage", "QXmppPresence", "QXmppIq" };
    const std::string who = carrierName[carrier];
    c.label("carrier:" + who);
    if (switchBack)
        c.label("namespace-switches-back-to-an-ancestor's");
    c.nontrivial(vh::fnv(doc.toUtf8()));
    QString werr;
    c.require(xu::wellFormed(QString::fromUtf8(out), &werr), "c01.element " + who + " not-well-formed", [&] { return who + ": output not well-formed (" + q(werr) + ")\n in =" + q(doc) + "\n out=" + out.toStdString(); });
    auto pout = xu::parseFragment(out);
    QDomElement a = carrier == 0 ? pin.el : pin.el.firstChildElement(), b = carrier == 0 ? pout.el : pout.el.firstChildElement();
    c.require(!b.isNull() && xu::canonical(a, false) == xu::canonical(b, false), "c01.element " + who + " payload-changed" + (switchBack ? " (namespace switch-back)" : ""), [&] {
        return who + ": an unknown payload is not written back as the XML it was parsed from, first difference at " + q(b.isNull() ? QStringLiteral("(payload missing)") : xu::firstDiffPath(a, b)) + "\n in =" + q(doc) + "\n out=" + out.toStdString();
    });
}

VCHECK("c01.objects", 500)
{
    og::registerAll();
    og::runObjectCheck(t, c);
}

VH_MAIN()
