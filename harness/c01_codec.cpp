// C01 — stanza codecs lose nothing: serialize-then-parse is the identity on every field (DESIGN.md C01).
//   c01.message   object-first: QXmppMessage with any subset of its ~34 known extensions, hard string values.
//                 Oracle: (1) every getter equal after parse(serialize(m)); (2) re-serialisation byte-identical;
//                 (3) structure lock: element skeleton independent of the string values; (4) well-formed output.
//   c01.objects   the same four oracles for every class of the object-first tables (harness/common/objgen_*.h): presence,
//                 IQ payloads, nonzas ...; typed fields at their type bounds, every optional field present/absent.
#include "msggen.h"
#include "objgen_all.h"

using vh::Ctx;
using vh::Tape;

static std::string q(const QString &s) { return vh::s(s); }

VCHECK("c01.message", 900)
{
    Tape benignTape = t;   // identical choices, used to build the benign twin
    msggen::Vals v { t, msggen::Hard };
    v.forbidMask = 1ull << msggen::XE2eeFallbackBody;   // documented: only written in ScePublic mode
    auto g = msggen::genMessage(v);
    if (t.prob(1, 3))
        g.m.setLang(t.pick<QString>({ "en", "de", "el", "zh-Hant" }));
    const QByteArray y = xu::ser(g.m);
    c.sample([&] { return "exts={" + g.desc + "} xml=" + y.left(300).toStdString(); });
    int nExt = __builtin_popcountll(g.mask);
    c.label("exts:" + std::string(nExt == 0 ? "0" : nExt == 1 ? "1" : nExt == 2 ? "2" : nExt < 8 ? "3-7" : nExt < 20 ? "8-19" : "20+"));
    if (nExt >= 1 && v.sawHard)
        c.nontrivial(vh::fnvInt(g.mask, vh::fnvInt(v.valueClasses)));
    for (int i = 0; i < msggen::XCount; i++)
        if (g.has(i))
            c.label(std::string("ext:") + msggen::extNames[i]);

    // (4) well-formed
    QString werr;
    c.require(xu::wellFormed(QString::fromUtf8(y), &werr), "c01.message not-well-formed", [&] { return "serialised message is not well-formed (" + q(werr) + "): " + y.toStdString(); });
    auto p = xu::parseFragment(y);
    QXmppMessage back;
    back.parse(p.el);
    // (1) getters
    QStringList a = msggen::dump(g.m), b = msggen::dump(back);
    c.require(a == b, "c01.message field-lost " + q(msggen::firstDifferenceKey(a, b)), [&] {
        return "getter differs after parse(serialize(m)): " + q(msggen::firstDifference(a, b)) + "\n exts={" + g.desc + "}\n xml=" + y.toStdString();
    });
    // (2) re-serialise
    const QByteArray y2 = xu::ser(back);
    // "the same XML" is judged up to sibling order (sets such as reaction emojis have no order)
    auto p2 = xu::parseFragment(y2);
    c.require(p2.ok() && xu::canonical(p2.el, true) == xu::canonical(p.el, true), "c01.message reserialize-differs",
              [&] { return "serialize(parse(serialize(m))) differs\n first =" + y.toStdString() + "\n second=" + y2.toStdString(); });
    // (3) structure lock against the benign twin
    msggen::Vals vb { benignTape, msggen::Benign };
    vb.forbidMask = v.forbidMask;
    auto gb = msggen::genMessage(vb);
    if (!g.m.lang().isEmpty())
        gb.m.setLang(g.m.lang());
    const QByteArray yb = xu::ser(gb.m);
    auto pb = xu::parseFragment(yb);
    c.require(pb.ok(), "c01.message benign-not-well-formed", "benign twin not well-formed: " + yb.toStdString());
    // ids are generated from attribute-safe strings in both (benign uses "id1"); presence is identical
    QString s1 = xu::skeleton(p.el), s2 = xu::skeleton(pb.el);
    c.require(s1 == s2, "c01.message structure-depends-on-values", [&] {
        return "element structure changes with field values (markup injection or value-dependent loss)\n hard  =" + y.toStdString() + "\n benign=" + yb.toStdString();
    });
}

VCHECK("c01.objects", 500)
{
    og::registerAll();
    auto &reg = og::registry();
    // --param class=<name> restricts the run to one class (triage)
    static const std::string only = c.params.count("class") ? c.params.at("class") : std::string();
    size_t k = t.u(uint32_t(reg.size()));
    if (!only.empty()) {
        for (size_t i = 0; i < reg.size(); i++)
            if (only == reg[i].name)
                k = i;
    }
    const auto &e = reg[k];
    const std::string name = e.name;
    Tape benignTape = t;
    msggen::Vals v { t, msggen::Hard };
    og::Outcome o;
    e.run(v, o);
    c.label("class:" + name);
    c.sample([&] { return name + " xml=" + o.xml.left(300).toStdString(); });
    if (o.xml.isEmpty()) {
        c.label("empty-output");
        return;
    }
    c.nontrivial(vh::fnv(o.before.join(QChar(0x1e)).toUtf8(), vh::fnv(QByteArray(e.name))));
    if (v.sawHard)
        c.label("hard-string");
    // (4) well-formed
    QString werr;
    c.require(xu::wellFormed(QString::fromUtf8(o.xml), &werr), "c01.objects " + name + " not-well-formed", [&] { return name + ": output is not well-formed (" + q(werr) + "): " + o.xml.toStdString(); });
    // the class's own parser must admit the class's own output
    c.require(o.reparsed, "c01.objects " + name + " own-output-rejected", [&] { return name + ": the class's parser rejects (or cannot reach) what its serialiser wrote: " + o.xml.toStdString(); });
    // (1) getters
    c.require(o.before == o.after, "c01.objects " + name + " field-lost " + q(msggen::firstDifferenceKey(o.before, o.after)), [&] {
        return name + ": getter differs after parse(serialize(x)): " + q(msggen::firstDifference(o.before, o.after)) + "\n xml=" + o.xml.toStdString();
    });
    // (2) re-serialise, up to sibling order
    auto p = xu::parseFragment(o.xml), p2 = xu::parseFragment(o.xml2);
    c.require(p2.ok() && xu::canonical(p2.el, true) == xu::canonical(p.el, true), "c01.objects " + name + " reserialize-differs",
              [&] { return name + ": serialize(parse(serialize(x))) differs\n first =" + o.xml.toStdString() + "\n second=" + o.xml2.toStdString(); });
    // (3) structure lock against the benign twin (same tape, every free-text value replaced by a short marker)
    msggen::Vals vb { benignTape, msggen::Benign };
    og::Outcome ob;
    e.run(vb, ob);
    auto pb = xu::parseFragment(ob.xml);
    c.require(pb.ok() && xu::skeleton(p.el) == xu::skeleton(pb.el), "c01.objects " + name + " structure-depends-on-values", [&] {
        return name + ": element structure changes with field values (markup injection or value-dependent loss)\n hard  =" + o.xml.toStdString() + "\n benign=" + ob.xml.toStdString();
    });
}

VH_MAIN()
