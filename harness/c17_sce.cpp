// C17 — the public part of an encrypted message never contains its sensitive content (DESIGN.md C17).
//   c17.split   messages with any subset of the known extensions, every text-bearing value a unique token.
//               P = toXml(ScePublic), S = serializeExtensions(SceSensitive, "jabber:client") (exactly what the
//               encrypted send path puts into the SCE <content/>), A = toXml(SceAll).
//               (1) leak: no token of a sensitive extension occurs in P; children(P) within the allow-list;
//               (2) partition: children(P) + children(S) == children(A) as multisets (fallback markers and the
//                   explicit e2ee fallback body aside), nothing in both;
//               (3) recovery as the decrypt path does it: parse(P, ScePublic); setFallbackMarkers({});
//                   parseExtensions(S, SceSensitive) -> same getters, nothing known left in extensions().
//   c17.client  the same public-part check on the bytes QXmppClient::sendSensitive() hands to the stream when
//               an encryption extension is installed.
#include "msggen.h"

#include "QXmppClient.h"
#include "QXmppE2eeExtension.h"
#include "QXmppLogger.h"
#include "QXmppPromise.h"

using vh::Ctx;
using vh::Tape;
using namespace msggen;

static std::string q(const QString &s) { return vh::s(s); }

static QByteArray serMode(const QXmppMessage &m, QXmpp::SceMode mode)
{
    QByteArray out;
    QXmlStreamWriter w(&out);
    m.toXml(&w, mode);
    return out;
}
static QByteArray serSensitive(const QXmppMessage &m)
{
    QByteArray out;
    QXmlStreamWriter w(&out);
    w.writeStartElement(QStringLiteral("content"));
    w.writeDefaultNamespace(QStringLiteral("urn:xmpp:sce:1"));
    m.serializeExtensions(&w, QXmpp::SceSensitive, QStringLiteral("jabber:client"));
    w.writeEndElement();
    return out;
}
static QStringList childCanon(const QDomElement &parent)
{
    QStringList l;
    for (QDomElement e = parent.firstChildElement(); !e.isNull(); e = e.nextSiblingElement())
        l << xu::canonical(e, false);
    l.sort();
    return l;
}
static bool isFallbackMarker(const QString &canon) { return canon.startsWith(QStringLiteral("<{urn:xmpp:fallback:0}fallback")); }

// allow-list for children of the public part, derived from the statement: routing data, hints, ids, explicit fallback text
static bool allowedPublicChild(const QDomElement &e)
{
    const QString ns = e.namespaceURI(), n = e.localName().isEmpty() ? e.tagName() : e.localName();
    if (ns == u"http://jabber.org/protocol/address" && n == u"addresses") return true;
    if (ns == u"urn:xmpp:hints") return true;
    if (ns == u"urn:xmpp:sid:0") return true;
    if (ns == u"urn:xmpp:mix:core:1" && n == u"mix") return true;
    if (ns == u"urn:xmpp:eme:0" && n == u"encryption") return true;
    if (ns == u"urn:xmpp:carbons:2" && n == u"private") return true;
    if (ns == u"urn:xmpp:fallback:0" && n == u"fallback") return true;
    if (ns == u"jabber:client" && n == u"body") return true;   // explicit e2ee fallback body (checked separately)
    if (ns == u"jabber:client" && n == u"error") return true;
    return false;
}

static void checkPublicPart(Ctx &c, const Generated &g, const Vals &v, const QByteArray &P, const char *where)
{
    QString err;
    c.require(xu::wellFormed(QString::fromUtf8(P), &err), std::string("c17 public-part-not-well-formed ") + where, "public part not well-formed (" + q(err) + "): " + P.toStdString());
    const QString ps = QString::fromUtf8(P);
    for (auto &[tok, ext] : v.tokens) {
        if (ext >= 0 && !isPublicExt(ext) && ext != XFallback && ps.contains(tok)) {
            c.fail(std::string("c17 leak ") + extNames[ext] + " " + where,
                   std::string("value of sensitive extension '") + extNames[ext] + "' (token " + q(tok) + ") occurs in the public part\n exts={" + g.desc + "}\n public=" + P.toStdString());
        }
    }
    auto p = xu::parseFragment(P);
    for (QDomElement e = p.el.firstChildElement(); !e.isNull(); e = e.nextSiblingElement()) {
        c.require(allowedPublicChild(e), std::string("c17 public-part-unexpected-element ") + q(e.namespaceURI()) + " " + where,
                  "public part contains <" + q(e.tagName()) + " xmlns='" + q(e.namespaceURI()) + "'>, not routing data / hint / id / fallback\n exts={" + g.desc + "}\n public=" + P.toStdString());
        if (e.namespaceURI() == u"jabber:client" && e.tagName() == u"body")
            c.require(e.text() == g.m.e2eeFallbackBody(), std::string("c17 leak body-in-public ") + where, "public <body/> is not the explicit fallback text\n public=" + P.toStdString());
    }
}

VCHECK("c17.split", 1000)
{
    Vals v { t, Tokens };
    auto g = genMessage(v);
    const QXmppMessage &m = g.m;
    const QByteArray P = serMode(m, QXmpp::ScePublic), S = serSensitive(m), A = serMode(m, QXmpp::SceAll);
    c.sample([&] { return "exts={" + g.desc + "}\n P=" + P.left(400).toStdString() + "\n S=" + S.left(400).toStdString(); });
    bool anySens = false, anyPub = false;
    for (int i = 0; i < XCount; i++) {
        if (!g.has(i))
            continue;
        c.label(std::string("ext:") + extNames[i]);
        anySens = anySens || isSensitiveExt(i) || i == XJmi || i == XCallInvite;
        anyPub = anyPub || isPublicExt(i);
    }
    if (anySens && anyPub)
        c.nontrivial(vh::fnvInt(g.mask));

    // (1) leak
    checkPublicPart(c, g, v, P, "split");

    // (2) partition
    auto pp = xu::parseFragment(P), ps = xu::parseFragment(S), pa = xu::parseFragment(A);
    c.require(ps.ok(), "c17 sensitive-part-not-well-formed", "sensitive part not well-formed (" + q(ps.error) + "): " + S.toStdString());
    c.require(pa.ok(), "c17 combined-not-well-formed", "combined form not well-formed: " + A.toStdString());
    QStringList cp = childCanon(pp.el), cs = childCanon(ps.el), ca = childCanon(pa.el);
    auto strip = [&](QStringList &l, bool dropFallbackBody) {
        QStringList o;
        for (auto &x : l) {
            if (isFallbackMarker(x))
                continue;
            if (dropFallbackBody && x.startsWith(QStringLiteral("<{jabber:client}body>")))
                continue;
            o << x;
        }
        l = o;
    };
    strip(cp, true);
    strip(cs, false);
    strip(ca, false);
    for (auto &x : cp)
        c.require(!cs.contains(x), "c17 partition element-in-both-parts", "element is in the public and in the sensitive part: " + q(x) + "\n exts={" + g.desc + "}");
    QStringList both = cp + cs;
    both.sort();
    if (both != ca) {
        // name the first element that is missing or extra
        QString what;
        for (auto &x : ca)
            if (!both.contains(x)) {
                what = QStringLiteral("missing from both parts: ") + x;
                break;
            }
        if (what.isEmpty())
            for (auto &x : both)
                if (!ca.contains(x)) {
                    what = QStringLiteral("in a part but not in the unsplit message: ") + x;
                    break;
                }
        if (what.isEmpty())
            what = QStringLiteral("multiplicities differ");
        QString el = what.section(u'}', 1, 1).section(u'>', 0, 0).section(u' ', 0, 0);
        c.fail("c17 partition mismatch " + q(el), "public + sensitive children != children of the unsplit message: " + q(what.left(300)) + "\n exts={" + g.desc + "}\n P=" + P.toStdString() + "\n S=" + S.toStdString() + "\n A=" + A.toStdString());
    }

    // (3) recovery, as the decrypt path does it
    QXmppMessage r;
    r.parse(pp.el, QXmpp::ScePublic);
    r.setFallbackMarkers({});
    r.parseExtensions(ps.el, QXmpp::SceSensitive);
    QStringList a = dump(m, false), b = dump(r, false);
    c.require(a == b, "c17 recovery field-differs " + q(firstDifferenceKey(a, b)), [&] {
        return "field differs after parse(public) + parseExtensions(sensitive): " + q(firstDifference(a, b)) + "\n exts={" + g.desc + "}\n P=" + P.toStdString() + "\n S=" + S.toStdString();
    });
}

// ---- the client's encrypted send path -------------------------------------------------------------
class StubE2ee : public QXmppE2eeExtension
{
public:
    QXmppTask<MessageEncryptResult> encryptMessage(QXmppMessage &&m, const std::optional<QXmppSendStanzaParams> &) override
    {
        QXmppPromise<MessageEncryptResult> p;
        p.finish(MessageEncryptResult { std::make_unique<QXmppMessage>(std::move(m)) });
        return p.task();
    }
    QXmppTask<MessageDecryptResult> decryptMessage(QXmppMessage &&) override
    {
        QXmppPromise<MessageDecryptResult> p;
        p.finish(MessageDecryptResult { QXmppE2eeExtension::NotEncrypted() });
        return p.task();
    }
    QXmppTask<IqEncryptResult> encryptIq(QXmppIq &&, const std::optional<QXmppSendStanzaParams> &) override
    {
        QXmppPromise<IqEncryptResult> p;
        p.finish(IqEncryptResult { QXmppError { QStringLiteral("unsupported"), {} } });
        return p.task();
    }
    QXmppTask<IqDecryptResult> decryptIq(const QDomElement &) override
    {
        QXmppPromise<IqDecryptResult> p;
        p.finish(IqDecryptResult { QXmppE2eeExtension::NotEncrypted() });
        return p.task();
    }
    bool isEncrypted(const QDomElement &) override { return false; }
    bool isEncrypted(const QXmppMessage &) override { return false; }
};

VCHECK("c17.client", 1000)
{
    Vals v { t, Tokens };
    auto g = genMessage(v);
    QXmppClient client(QXmppClient::NoExtensions);
    QXmppLogger logger;
    logger.setLoggingType(QXmppLogger::SignalLogging);
    client.setLogger(&logger);
    StubE2ee e2ee;
    client.setEncryptionExtension(&e2ee);
    QStringList sent;
    QObject::connect(&logger, &QXmppLogger::message, [&](QXmppLogger::MessageType type, const QString &text) {
        if (type == QXmppLogger::SentMessage)
            sent << text;
    });
    QXmppMessage copy = g.m;
    client.sendSensitive(std::move(copy));
    c.sample([&] { return "exts={" + g.desc + "} sent=" + q(sent.join(u" | ")).substr(0, 500); });
    if (g.mask)
        c.nontrivial(vh::fnvInt(g.mask));
    // not connected: the packet is serialised (and logged as sent data) only when a socket is there;
    // the serialisation itself is what we judge, so fall back to the very call sendSensitive makes
    if (sent.isEmpty()) {
        c.label("no-socket:serialised-directly");
        sent << QString::fromUtf8(serMode(g.m, QXmpp::ScePublic));
    }
    for (auto &x : sent)
        checkPublicPart(c, g, v, x.toUtf8(), "client");
}

VH_MAIN()
