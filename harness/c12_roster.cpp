// C12 — the roster view is the last full roster plus authorised pushes, nothing else (DESIGN.md C12).
// Stateful, model-based: generated histories over {connect (new with/without stream management | resumed),
// full roster result / error for the pending request, push add/update/remove from {absent, own bare, own full,
// other own resource, server domain, stranger, a contact that is in the roster, look-alike}, available/unavailable
// (and unrelated) presence from any resource, disconnect (resumable or not)} against the real QXmppRosterManager on a
// socketless client.  After every step the exposed view (bare JIDs, entries, received flag, resources per contact)
// equals the reference model, item signals correspond one-to-one to model deltas, and an unauthorised push is not
// acknowledged with a result.
#include "gens.h"
#include "tc.h"

#include "QXmppRosterIq.h"

using vh::Ctx;
using vh::Tape;

static std::string q(const QString &s) { return vh::s(s); }

static const QStringList &universe()
{
    static const QStringList u = { "romeo@montague.example", "juliet@capulet.example", "nurse@capulet.example", "bob@example.org", "mallory@evil.example", "alice@example.org" };
    return u;
}

struct Item {
    QString jid, name, sub;
    QStringList groups;
    QString xml() const
    {
        QString s = QStringLiteral("<item jid='%1'").arg(jid);
        if (!name.isEmpty())
            s += QStringLiteral(" name='%1'").arg(name);
        if (!sub.isEmpty())
            s += QStringLiteral(" subscription='%1'").arg(sub);
        if (groups.isEmpty())
            return s + QStringLiteral("/>");
        s += u'>';
        for (auto &g : groups)
            s += QStringLiteral("<group>%1</group>").arg(g);
        return s + QStringLiteral("</item>");
    }
    // what the manager should expose for this item: compared through the library's own item serialisation
    QString canonical() const
    {
        QXmppRosterIq::Item it;
        auto p = xu::parseFragment(QStringLiteral("<query xmlns='jabber:iq:roster'>") + xml() + QStringLiteral("</query>"));
        it.parse(p.el.firstChildElement());
        QByteArray out;
        QXmlStreamWriter w(&out);
        it.toXml(&w);
        return QString::fromUtf8(out);
    }
};
static Item genItem(Tape &t, bool allowRemove)
{
    Item i;
    i.jid = universe()[int(t.u(uint32_t(universe().size())))];
    i.name = t.pick<QString>({ "", "A", "Bee", "Romeo M." });
    i.sub = allowRemove && t.prob(1, 4) ? QStringLiteral("remove") : t.pick<QString>({ "none", "to", "from", "both", "" });
    if (t.b())
        i.groups << QStringLiteral("g1");
    if (t.prob(1, 3))
        i.groups << QStringLiteral("g2");
    return i;
}

struct Model {
    bool connected = false;
    bool sm = false;          // stream management enabled on the current / last session
    bool received = false;
    QMap<QString, QString> entries;               // bare -> canonical item xml
    QMap<QString, QSet<QString>> resources;       // bare -> available resources
    QString pendingRosterId;                      // outstanding roster get of this session ("" = none)
    void clear()
    {
        entries.clear();
        resources.clear();
        received = false;
    }
};

VCHECK("c12.roster", 400)
{
    TestClient::resetIdCounter();
    TestClient client(QXmppClient::NoExtensions);
    auto *roster = client.addNewExtension<QXmppRosterManager>(&client);
    QStringList signals_;
    QObject::connect(roster, &QXmppRosterManager::itemAdded, [&](const QString &j) { signals_ << QStringLiteral("added:") + j; });
    QObject::connect(roster, &QXmppRosterManager::itemChanged, [&](const QString &j) { signals_ << QStringLiteral("changed:") + j; });
    QObject::connect(roster, &QXmppRosterManager::itemRemoved, [&](const QString &j) { signals_ << QStringLiteral("removed:") + j; });
    client.setAuthenticated(true);

    Model m;
    std::string history;
    int steps = 3 + int(t.u(28));
    bool sawUnauthorisedExisting = false, sawReconnectWithView = false;
    int pushId = 0;

    auto checkView = [&](const char *when) {
        QStringList got = roster->getRosterBareJids();
        got.sort();
        QStringList want = m.entries.keys();
        want.sort();
        c.require(got == want, std::string("c12 view-differs jid-set ") + (got.size() > want.size() ? "extra-entries" : "missing-entries"), [&] {
            return "getRosterBareJids() = [" + q(got.join(u", ")) + "], model = [" + q(want.join(u", ")) + "] (" + when + ")\n history:" + history;
        });
        for (auto it = m.entries.begin(); it != m.entries.end(); ++it) {
            QByteArray out;
            QXmlStreamWriter w(&out);
            roster->getRosterEntry(it.key()).toXml(&w);
            c.require(QString::fromUtf8(out) == it.value(), "c12 view-differs entry-content", [&] {
                return "entry " + q(it.key()) + " is " + out.toStdString() + ", model says " + q(it.value()) + " (" + when + ")\n history:" + history;
            });
        }
        c.require(roster->isRosterReceived() == m.received, "c12 view-differs received-flag", [&] {
            return std::string("isRosterReceived() = ") + (roster->isRosterReceived() ? "true" : "false") + ", model = " + (m.received ? "true" : "false") + " (" + when + ")\n history:" + history;
        });
        for (const auto &bare : universe()) {
            QStringList r = roster->getResources(bare);
            r.sort();
            QStringList w = m.resources.value(bare).values();
            w.sort();
            c.require(r == w, std::string("c12 presence-table-differs ") + (r.size() > w.size() ? "stale-resource" : "missing-resource"), [&] {
                return "getResources(" + q(bare) + ") = [" + q(r.join(u", ")) + "], model = [" + q(w.join(u", ")) + "] (" + when + ")\n history:" + history;
            });
        }
    };
    // a *new* roster request (stanzas the stream re-sends on resumption carry ids seen before)
    QSet<QString> seenRosterIds;
    auto rosterRequestIdIn = [&](const QStringList &sent) {
        QString id;
        for (auto &x : sent) {
            auto p = xu::parseFragment(x);
            if (p.ok() && p.el.tagName() == u"iq" && p.el.attribute(QStringLiteral("type")) == u"get" && p.el.firstChildElement().namespaceURI() == u"jabber:iq:roster") {
                QString i = p.el.attribute(QStringLiteral("id"));
                if (!seenRosterIds.contains(i)) {
                    seenRosterIds.insert(i);
                    id = i;
                }
            }
        }
        return id;
    };

    for (int step = 0; step < steps; step++) {
        signals_.clear();
        uint32_t op = t.weighted({ 3, 3, 6, 5, 2 });
        if (!m.connected)
            op = 0;
        switch (op) {
        case 0: {   // connect
            if (m.connected)
                break;
            // kind: 0 new session with SM, 1 new session without SM, 2 resumed (only if the last session was resumable)
            int kind = int(t.u(3));
            if (kind == 2 && !m.sm)
                kind = int(t.u(2));
            bool hadView = !m.entries.isEmpty() || !m.resources.isEmpty();
            if (kind == 2) {
                history += " connect(resumed)";
            } else {
                history += kind == 0 ? " connect(new,sm)" : " connect(new,no-sm)";
                if (hadView)
                    sawReconnectWithView = true;
                m.clear();
                m.pendingRosterId.clear();
            }
            m.sm = kind != 1;
            m.connected = true;
            client.take();
            client.beginSession(kind != 1, kind == 2);
            client.pump(1);
            QStringList sentNow = client.take();
            if (qEnvironmentVariableIsSet("VERIF_DEBUG"))
                fprintf(stderr, "DEBUG connect sent: %s\n", q(sentNow.join(u" || ")).c_str());
            QString id = rosterRequestIdIn(sentNow);
            if (!m.received) {
                c.require(!id.isEmpty() || !m.pendingRosterId.isEmpty(), "c12 no-roster-request", "session started without a roster view but no roster was requested\n history:" + history);
                if (!id.isEmpty())
                    m.pendingRosterId = id;
            } else {
                c.require(id.isEmpty(), "c12 roster-requested-again", "roster requested although the view of the resumed session is still valid\n history:" + history);
            }
            break;
        }
        case 1: {   // answer the pending roster request
            if (m.pendingRosterId.isEmpty())
                break;
            bool error = t.prob(1, 6);
            QVector<Item> items;
            QString xml;
            if (error) {
                xml = QStringLiteral("<iq type='error' id='%1'><error type='cancel'><service-unavailable xmlns='urn:ietf:params:xml:ns:xmpp-stanzas'/></error></iq>").arg(m.pendingRosterId);
                history += " roster-error";
            } else {
                int n = int(t.u(5));
                QStringList used;
                xml = QStringLiteral("<iq type='result' id='%1' to='alice@example.org/phone'><query xmlns='jabber:iq:roster'>").arg(m.pendingRosterId);
                history += " roster-result[";
                for (int i = 0; i < n; i++) {
                    Item it = genItem(t, false);
                    if (used.contains(it.jid))
                        continue;
                    used << it.jid;
                    items.push_back(it);
                    xml += it.xml();
                    history += q(it.jid.section(u'@', 0, 0)) + " ";
                }
                xml += QStringLiteral("</query></iq>");
                history += "]";
            }
            m.pendingRosterId.clear();
            if (!error) {
                m.entries.clear();
                for (auto &it : items)
                    m.entries[it.jid] = it.canonical();
                m.received = true;
            }
            if (qEnvironmentVariableIsSet("VERIF_DEBUG"))
                fprintf(stderr, "DEBUG inject: %s\n", q(xml).c_str());
            c.require(client.injectXml(xml), "c12 harness-malformed", "malformed: " + q(xml));
            client.pump(1);
            if (qEnvironmentVariableIsSet("VERIF_DEBUG"))
                fprintf(stderr, "DEBUG after inject sent: %s\n", q(client.sent.join(u" || ")).c_str());
            break;
        }
        case 2: {   // roster push
            Item it = genItem(t, true);
            QString from;
            bool fromAbsent = false, authorised = false;
            std::string fk;
            switch (t.u(9)) {
            case 0:
            case 1: fromAbsent = true; authorised = true; fk = "absent"; break;
            case 2: from = QStringLiteral("alice@example.org"); authorised = true; fk = "own-bare"; break;
            case 3: from = QStringLiteral("alice@example.org/phone"); authorised = true; fk = "own-full"; break;
            case 4: from = QStringLiteral("alice@example.org/other"); authorised = true; fk = "own-other-resource"; break;
            case 5: from = QStringLiteral("example.org"); fk = "server-domain"; break;
            case 6: from = QStringLiteral("mallory@evil.example/x"); fk = "stranger"; break;
            case 7: from = m.entries.isEmpty() ? QStringLiteral("romeo@montague.example/orchard") : m.entries.firstKey() + QStringLiteral("/res"); fk = "roster-contact"; break;
            case 8: from = t.pick<QString>({ "alice@example.org.evil.net", "alice@example.orgx/phone", "Alice@example.org", "alice@example.com" }); fk = "look-alike"; break;
            }
            // RFC 6121 2.1.6: a push comes from the server on behalf of the account: no from, or the account's bare JID; this
            // implementation also accepts the account's full JIDs.  The bare server domain is NOT the account.
            // authorisation is decided by the actual address (a generated "contact" may be the own account)
            if (!fromAbsent)
                authorised = from.section(u'/', 0, 0) == u"alice@example.org";
            QString id = QStringLiteral("push%1").arg(++pushId);
            QString xml = QStringLiteral("<iq type='set' id='%1' to='alice@example.org/phone'").arg(id);
            if (!fromAbsent)
                xml += QStringLiteral(" from='%1'").arg(from);
            xml += QStringLiteral("><query xmlns='jabber:iq:roster'>") + it.xml() + QStringLiteral("</query></iq>");
            history += " push(" + fk + "," + q(it.jid.section(u'@', 0, 0)) + "," + q(it.sub) + ")";
            QString expectSignal;
            if (authorised) {
                if (it.sub == u"remove") {
                    if (m.entries.remove(it.jid))
                        expectSignal = QStringLiteral("removed:") + it.jid;
                } else {
                    expectSignal = (m.entries.contains(it.jid) ? QStringLiteral("changed:") : QStringLiteral("added:")) + it.jid;
                    m.entries[it.jid] = it.canonical();
                }
            } else if (m.entries.contains(it.jid)) {
                sawUnauthorisedExisting = true;
            }
            client.take();
            c.require(client.injectXml(xml), "c12 harness-malformed", "malformed: " + q(xml));
            client.pump(1);
            int results = 0;
            for (auto &x : client.take()) {
                auto p = xu::parseFragment(x);
                if (p.ok() && p.el.tagName() == u"iq" && p.el.attribute(QStringLiteral("id")) == id && p.el.attribute(QStringLiteral("type")) == u"result")
                    results++;
            }
            if (authorised) {
                c.require(results == 1, "c12 authorised-push-not-acknowledged", "authorised push (from " + fk + ") acknowledged " + std::to_string(results) + " times\n history:" + history);
                QStringList want;
                if (!expectSignal.isEmpty())
                    want << expectSignal;
                c.require(signals_ == want, "c12 item-signals-differ", [&] { return "signals [" + q(signals_.join(u", ")) + "] expected [" + q(want.join(u", ")) + "]\n history:" + history; });
            } else {
                c.require(results == 0, "c12 unauthorised-push-acknowledged " + fk, "a roster push from '" + q(from) + "' (" + fk + ") was acknowledged with a result\n history:" + history);
                c.require(signals_.isEmpty(), "c12 unauthorised-push-signalled " + fk, "a roster push from '" + q(from) + "' caused signals [" + q(signals_.join(u", ")) + "]\n history:" + history);
            }
            break;
        }
        case 3: {   // presence
            QString bare = universe()[int(t.u(uint32_t(universe().size())))];
            QString res = t.pick<QString>({ "a", "b", "c" });
            QString type = t.pick<QString>({ "", "", "", "unavailable", "unavailable", "probe", "subscribed", "unsubscribed" });
            QString xml = QStringLiteral("<presence from='%1/%2' to='alice@example.org/phone'").arg(bare, res);
            if (!type.isEmpty())
                xml += QStringLiteral(" type='%1'").arg(type);
            xml += QStringLiteral("><status>hi</status></presence>");
            history += " presence(" + q(bare.section(u'@', 0, 0)) + "/" + q(res) + "," + (type.isEmpty() ? "available" : q(type)) + ")";
            if (type.isEmpty())
                m.resources[bare].insert(res);
            else if (type == u"unavailable")
                m.resources[bare].remove(res);
            c.require(client.injectXml(xml), "c12 harness-malformed", "malformed: " + q(xml));
            client.pump(1);
            break;
        }
        case 4: {   // disconnect
            history += m.sm ? " disconnect(resumable)" : " disconnect(not-resumable)";
            m.connected = false;
            if (!m.sm) {
                m.clear();
                m.pendingRosterId.clear();
            }
            client.closeSession();
            client.pump(1);
            break;
        }
        }
        if (qEnvironmentVariableIsSet("VERIF_DEBUG"))
            fprintf(stderr, "DEBUG step %d sent-so-far: %s\n", step, q(client.sent.join(u" || ")).c_str());
        checkView("after step");
    }
    if (sawUnauthorisedExisting || sawReconnectWithView)
        c.nontrivial(vh::fnv(history));
    if (sawUnauthorisedExisting)
        c.label("unauthorised-push-for-existing-item");
    if (sawReconnectWithView)
        c.label("new-session-with-previous-view");
    c.sample([&] { return history; });
    if (m.connected)
        client.closeSession();
}

VH_MAIN()
