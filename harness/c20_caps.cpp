// C20 — the entity-capabilities hash is the XEP-0115 value, order- and duplicate-blind (DESIGN.md C20).
//   c20.hash    generated info sets; (1) independent implementation of XEP-0115 5.1 (octet ordering of UTF-8,
//               SHA-1 via OpenSSL) must equal verificationString(); (2) metamorphic: unchanged under permutation of
//               identities/features/fields/values and feature repetition, changed by adding/removing/altering one item.
//   c20.client  a client with a generated identity/extension set: the `ver` advertised in its presence equals the
//               reference hash of what it answers to disco#info for node#ver.
#include "gens.h"
#include "tc.h"

#include "QXmppDataForm.h"
#include "QXmppDiscoveryIq.h"
#include "QXmppPresence.h"

#include <openssl/evp.h>

using vh::Ctx;
using vh::Tape;

// printable rendering: everything outside printable ASCII as \u{hex}
static std::string q(const QString &s)
{
    std::string o;
    const auto ucs = s.toUcs4();
    for (uint cp : ucs) {
        if (cp >= 0x20 && cp < 0x7f) {
            o += char(cp);
        } else {
            char buf[16];
            snprintf(buf, sizeof buf, "\\u{%X}", cp);
            o += buf;
        }
    }
    return o;
}

struct Ident {
    QString category, type, lang, name;
    bool operator==(const Ident &o) const { return category == o.category && type == o.type && lang == o.lang && name == o.name; }
};
struct FormField {
    QString key;
    QStringList values;
    bool multi = false;
};
struct InfoSet {
    QVector<Ident> identities;
    QStringList features;   // may contain duplicates
    bool hasForm = false;
    QString formType;
    QVector<FormField> fields;
};

// ---- independent reference: XEP-0115 section 5.1 ------------------------------------------------------
static QByteArray referenceHash(const InfoSet &s)
{
    auto u8 = [](const QString &x) { return x.toUtf8().toStdString(); };
    auto octetLess = [](const std::string &a, const std::string &b) {
        return std::lexicographical_compare(a.begin(), a.end(), b.begin(), b.end(), [](char x, char y) { return (unsigned char)x < (unsigned char)y; });
    };
    std::string S;
    // identities sorted by category, then type, then xml:lang, then name (octet order)
    struct I4 {
        std::string c, t, l, n;
    };
    std::vector<I4> ids;
    for (auto &i : s.identities)
        ids.push_back({ u8(i.category), u8(i.type), u8(i.lang), u8(i.name) });
    std::sort(ids.begin(), ids.end(), [&](const I4 &a, const I4 &b) {
        if (a.c != b.c) return octetLess(a.c, b.c);
        if (a.t != b.t) return octetLess(a.t, b.t);
        if (a.l != b.l) return octetLess(a.l, b.l);
        return octetLess(a.n, b.n);
    });
    for (auto &i : ids)
        S += i.c + "/" + i.t + "/" + i.l + "/" + i.n + "<";
    std::vector<std::string> feats;
    for (auto &f : s.features)
        feats.push_back(u8(f));
    std::sort(feats.begin(), feats.end(), octetLess);
    feats.erase(std::unique(feats.begin(), feats.end()), feats.end());
    for (auto &f : feats)
        S += f + "<";
    if (s.hasForm) {
        S += u8(s.formType) + "<";
        std::vector<std::pair<std::string, std::vector<std::string>>> fs;
        for (auto &f : s.fields) {
            std::vector<std::string> vals;
            for (auto &v : f.values)
                vals.push_back(u8(v));
            std::sort(vals.begin(), vals.end(), octetLess);
            fs.push_back({ u8(f.key), vals });
        }
        std::sort(fs.begin(), fs.end(), [&](auto &a, auto &b) { return octetLess(a.first, b.first); });
        for (auto &f : fs) {
            S += f.first + "<";
            for (auto &v : f.second)
                S += v + "<";
        }
    }
    unsigned char out[EVP_MAX_MD_SIZE];
    unsigned int len = 0;
    EVP_Digest(S.data(), S.size(), out, &len, EVP_sha1(), nullptr);
    return QByteArray(reinterpret_cast<const char *>(out), int(len));
}

static QXmppDiscoveryIq build(const InfoSet &s)
{
    QXmppDiscoveryIq iq;
    iq.setQueryType(QXmppDiscoveryIq::InfoQuery);
    QList<QXmppDiscoveryIq::Identity> ids;
    for (auto &i : s.identities) {
        QXmppDiscoveryIq::Identity id;
        id.setCategory(i.category);
        id.setType(i.type);
        id.setLanguage(i.lang);
        id.setName(i.name);
        ids << id;
    }
    iq.setIdentities(ids);
    iq.setFeatures(s.features);
    if (s.hasForm) {
        QXmppDataForm form;
        form.setType(QXmppDataForm::Result);
        QList<QXmppDataForm::Field> fields;
        QXmppDataForm::Field ft;
        ft.setKey(QStringLiteral("FORM_TYPE"));
        ft.setType(QXmppDataForm::Field::HiddenField);
        ft.setValue(s.formType);
        QVector<QXmppDataForm::Field> all;
        for (auto &f : s.fields) {
            QXmppDataForm::Field x;
            x.setKey(f.key);
            if (f.multi) {
                x.setType(QXmppDataForm::Field::ListMultiField);
                x.setValue(f.values);
            } else {
                x.setType(QXmppDataForm::Field::TextSingleField);
                x.setValue(f.values.first());
            }
            all.push_back(x);
        }
        // FORM_TYPE at its generated position among the fields
        int pos = s.fields.isEmpty() ? 0 : int(qHash(s.formType) % uint(s.fields.size() + 1));
        all.insert(pos, ft);
        for (auto &x : all)
            fields << x;
        form.setFields(fields);
        iq.setForm(form);
    }
    return iq;
}

// values: XML-legal, no '<' (XEP-0115 5.4 declares such input ill-formed)
static QString val(Tape &t, uint32_t maxLen, bool allowEmpty = false)
{
    if (allowEmpty && t.prob(1, 4))
        return QString();
    static const QStringList pool = { "client", "pc", "Psi", "Ψ", "en", "a", "b", "ab", "aB", "Ab", "\xF0\x9F\x98\x80", "\xEE\x80\x80", "\xEF\xBF\xBD", "z", "é", "e\xCC\x81" };
    QString s;
    if (t.b()) {
        s = QString::fromUtf8(pool[int(t.u(uint32_t(pool.size())))].toLatin1());
        s = pool[int(t.u(uint32_t(pool.size())))];
        if (t.b())
            s += pool[int(t.u(uint32_t(pool.size())))];
    } else {
        s = gen::str(t, gen::Ascii | gen::Meta | gen::InnerSpace | gen::Unicode | gen::Astral, maxLen);
    }
    s.remove(u'<');
    s.replace(QStringLiteral("&lt;"), QStringLiteral("&"));
    // removing characters may have exposed blanks at the edges: values are non-blank and not blank-edged (a
    // whitespace-only text node does not survive the harness's own DOM parse of the reply)
    s = s.trimmed();
    if (s.isEmpty() && !allowEmpty)
        s = QStringLiteral("x");
    return s;
}

static InfoSet genInfo(Tape &t)
{
    InfoSet s;
    int ni = int(t.u(5));
    for (int i = 0; i < ni; i++) {
        Ident id { t.b() ? t.pick<QString>({ "client", "account", "pubsub", "Client" }) : val(t, 8), t.b() ? t.pick<QString>({ "pc", "phone", "bot", "registered" }) : val(t, 8),
                   t.pick<QString>({ "", "en", "de", "el", "zh-Hant" }), val(t, 12, true) };
        if (!s.identities.contains(id))
            s.identities.push_back(id);
    }
    static const QStringList fpool = { "http://jabber.org/protocol/caps", "http://jabber.org/protocol/disco#info", "http://jabber.org/protocol/disco#items", "http://jabber.org/protocol/muc",
                                       "http://jabber.org/protocol/Muc", "urn:xmpp:ping", "urn:xmpp:pinG", "urn:xmpp:ping:0", "urn:xmpp", "jabber:iq:version", "urn:xmpp:\xF0\x9F\x98\x80", "urn:xmpp:\xEE\x80\x80" };
    int nf = int(t.len(40));
    for (int i = 0; i < nf; i++)
        s.features << (t.prob(3, 4) ? fpool[int(t.u(uint32_t(fpool.size())))] : val(t, 16));
    // explicit repetitions
    int rep = int(t.u(4));
    for (int i = 0; i < rep && !s.features.isEmpty(); i++)
        s.features.insert(int(t.u(uint32_t(s.features.size() + 1))), s.features[int(t.u(uint32_t(s.features.size())))]);
    if (t.b()) {
        s.hasForm = true;
        s.formType = t.b() ? QStringLiteral("urn:xmpp:dataforms:softwareinfo") : val(t, 16);
        int nfields = int(t.u(7));
        static const QStringList keys = { "os", "os_version", "software", "software_version", "ip_version", "os_", "OS", "a", "\xF0\x9F\x98\x80", "\xEE\x80\x80" };
        for (int i = 0; i < nfields; i++) {
            FormField f;
            f.key = t.prob(3, 4) ? keys[int(t.u(uint32_t(keys.size())))] : val(t, 10);
            if (f.key == u"FORM_TYPE")
                continue;
            bool dup = false;
            for (auto &o : s.fields)
                dup = dup || o.key == f.key;
            if (dup)
                continue;
            f.multi = t.b();
            int nv = f.multi ? 1 + int(t.u(3)) : 1;
            for (int k = 0; k < nv; k++)
                f.values << val(t, 10);
            s.fields.push_back(f);
        }
    }
    return s;
}

template<typename L>
static void shuffle(Tape &t, L &l)
{
    for (int i = l.size() - 1; i > 0; i--)
        l.swapItemsAt(i, int(t.u(uint32_t(i + 1))));
}

static std::string describe(const InfoSet &s)
{
    std::string d = "identities=[";
    for (auto &i : s.identities)
        d += q(i.category) + "/" + q(i.type) + "/" + q(i.lang) + "/" + q(i.name) + "; ";
    d += "] features=[" + q(s.features.join(u" , ")) + "]";
    if (s.hasForm) {
        d += " form{" + q(s.formType) + ": ";
        for (auto &f : s.fields)
            d += q(f.key) + (f.multi ? "=[" : "=") + q(f.values.join(u"|")) + (f.multi ? "] " : " ");
        d += "}";
    }
    return d;
}

VCHECK("c20.hash", 400)
{
    InfoSet s = genInfo(t);
    c.sample([&] { return describe(s); });
    bool dupFeature = QSet<QString>(s.features.begin(), s.features.end()).size() != s.features.size();
    bool multi = false;
    for (auto &f : s.fields)
        multi = multi || (f.multi && f.values.size() > 1);
    if (s.identities.size() >= 2 || dupFeature || multi)
        c.nontrivial(vh::fnv(describe(s)));
    c.label(s.identities.size() >= 2 ? "identities:2+" : "identities:<2");
    if (dupFeature)
        c.label("duplicate-feature");
    if (s.hasForm)
        c.label("form");
    if (multi)
        c.label("multi-valued-field");

    const QByteArray ref = referenceHash(s);
    const QByteArray got = build(s).verificationString();
    // which part disagrees? (for the signature)
    auto part = [&]() -> std::string {
        InfoSet a = s;
        a.hasForm = false;
        if (referenceHash(a) == build(a).verificationString())
            return "form";
        a.features.clear();
        if (referenceHash(a) == build(a).verificationString())
            return "features";
        return "identities";
    };
    c.require(got == ref, "c20 hash-differs-from-xep0115 " + (got == ref ? std::string() : part()), [&] {
        return "verificationString() = " + got.toBase64().toStdString() + ", XEP-0115 5.1 reference = " + ref.toBase64().toStdString() + "\n " + describe(s);
    });

    // metamorphic: permutations and repetitions
    for (int round = 0; round < 4; round++) {
        InfoSet p = s;
        shuffle(t, p.identities);
        shuffle(t, p.features);
        shuffle(t, p.fields);
        for (auto &f : p.fields)
            shuffle(t, f.values);
        if (!p.features.isEmpty() && t.b())
            p.features << p.features[int(t.u(uint32_t(p.features.size())))];
        QByteArray h = build(p).verificationString();
        c.require(h == got, "c20 hash-depends-on-order-or-repetition", [&] { return "hash changes under permutation/repetition\n original: " + describe(s) + "\n permuted: " + describe(p); });
    }
    // metamorphic: a single change must change the hash (judged against the reference, so a SHA-1 collision is not an issue)
    {
        InfoSet m = s;
        std::string what;
        switch (t.u(6)) {
        case 0:
            m.features << QStringLiteral("urn:verif:added-feature");
            what = "feature added";
            break;
        case 1:
            if (!m.features.isEmpty()) {
                QString f = m.features[int(t.u(uint32_t(m.features.size())))];
                m.features.removeAll(f);
                what = "feature removed";
            }
            break;
        case 2:
            if (!m.identities.isEmpty()) {
                auto &i = m.identities[int(t.u(uint32_t(m.identities.size())))];
                switch (t.u(4)) {
                case 0: i.category += u'x'; break;
                case 1: i.type += u'x'; break;
                case 2: i.lang = i.lang == u"fr" ? QStringLiteral("it") : QStringLiteral("fr"); break;
                case 3: i.name += u'x'; break;
                }
                what = "identity altered";
            }
            break;
        case 3:
            m.identities.push_back({ QStringLiteral("verif"), QStringLiteral("added"), QString(), QString() });
            what = "identity added";
            break;
        case 4:
            if (m.hasForm && !m.fields.isEmpty()) {
                auto &f = m.fields[int(t.u(uint32_t(m.fields.size())))];
                f.values[int(t.u(uint32_t(f.values.size())))] += u'x';
                what = "form value altered";
            }
            break;
        case 5:
            if (m.hasForm) {
                m.formType += u'x';
                what = "FORM_TYPE altered";
            }
            break;
        }
        bool unique = true;
        for (int i = 0; i < m.identities.size(); i++)
            for (int j = i + 1; j < m.identities.size(); j++)
                unique = unique && !(m.identities[i] == m.identities[j]);
        if (!what.empty() && unique && referenceHash(m) != ref) {
            QByteArray h = build(m).verificationString();
            c.require(h != got, "c20 hash-blind-to-change " + what, [&] { return "hash unchanged although " + what + "\n before: " + describe(s) + "\n after:  " + describe(m); });
            c.require(h == referenceHash(m), "c20 hash-differs-from-xep0115 after-change", [&] { return "after '" + what + "' the hash differs from the reference: " + describe(m); });
        }
    }
}

VCHECK("c20.client", 200)
{
    TestClient::resetIdCounter();
    tc::Storages st;
    bool defaults = t.b();
    TestClient client(defaults ? QXmppClient::BasicExtensions : QXmppClient::NoExtensions);
    if (!defaults)
        client.addNewExtension<QXmppDiscoveryManager>();
    // random extension subset
    std::string ex;
    auto maybe = [&](const char *name, auto add) {
        if (t.b()) {
            add();
            ex += std::string(name) + " ";
        }
    };
    maybe("pubsub", [&] { client.addNewExtension<QXmppPubSubManager>(); });
    maybe("mam", [&] { client.addNewExtension<QXmppMamManager>(); });
    maybe("muc", [&] { client.addNewExtension<QXmppMucManager>(); });
    maybe("carbons", [&] { client.addNewExtension<QXmppCarbonManager>(); });
    maybe("receipts", [&] { client.addNewExtension<QXmppMessageReceiptManager>(); });
    maybe("attention", [&] { client.addNewExtension<QXmppAttentionManager>(); });
    maybe("blocking", [&] { client.addNewExtension<QXmppBlockingManager>(); });
    maybe("transfer", [&] { client.addNewExtension<QXmppTransferManager>(); });
    maybe("jmi", [&] { client.addNewExtension<QXmppJingleMessageInitiationManager>(); });
    maybe("callinvite", [&] { client.addNewExtension<QXmppCallInviteManager>(); });
    maybe("usertune", [&] {
        if (!client.findExtension<QXmppPubSubManager>())
            client.addNewExtension<QXmppPubSubManager>();
        client.addNewExtension<QXmppUserTuneManager>();
    });
    maybe("rpc", [&] { client.addNewExtension<QXmppRpcManager>(); });
    maybe("mix", [&] {
        if (!client.findExtension<QXmppPubSubManager>())
            client.addNewExtension<QXmppPubSubManager>();
        client.addNewExtension<QXmppMixManager>();
    });
    auto *disco = client.findExtension<QXmppDiscoveryManager>();
    if (t.b())
        disco->setClientCategory(val(t, 8));
    if (t.b())
        disco->setClientType(val(t, 8));
    if (t.b())
        disco->setClientName(val(t, 12, true));
    if (t.b())
        disco->setClientCapabilitiesNode(QStringLiteral("https://example.org/") + val(t, 8).remove(u'#'));
    bool withForm = t.b();
    if (withForm) {
        QXmppDataForm form;
        form.setType(QXmppDataForm::Result);
        QList<QXmppDataForm::Field> fields;
        QXmppDataForm::Field ft;
        ft.setKey(QStringLiteral("FORM_TYPE"));
        ft.setType(QXmppDataForm::Field::HiddenField);
        ft.setValue(QStringLiteral("urn:xmpp:dataforms:softwareinfo"));
        fields << ft;
        static const QStringList keys = { "os", "os_version", "software", "software_version" };
        for (auto &k : keys) {
            if (t.b()) {
                QXmppDataForm::Field f;
                f.setKey(k);
                f.setValue(val(t, 10));
                fields << f;
            }
        }
        shuffle(t, fields);
        form.setFields(fields);
        disco->setClientInfoForm(form);
    }
    c.sample([&] { return "extensions: " + (defaults ? std::string("[defaults] ") : std::string()) + ex + (withForm ? " +form" : ""); });

    // as connectToServer() does: attach the capabilities to the client presence, then the session opens
    client.setClientPresence(QXmppPresence());
    client.setAuthenticated(true);
    client.enableSm(true);
    client.openSession();
    client.pump(2);
    int verifyCount = 0;
    auto verify = [&](const std::string &when, bool fromClientPresence) {
        const QString iqId = QStringLiteral("disco%1").arg(++verifyCount);
        // the caps of the presence: read from the bytes the client emitted when the session opened; for later updates from
        // the client presence itself (the socketless harness has no connection the update could be written to)
        QString ver, node, hashName;
        if (fromClientPresence) {
            const QXmppPresence cp = client.clientPresence();
            ver = QString::fromLatin1(cp.capabilityVer().toBase64());
            node = cp.capabilityNode();
            hashName = cp.capabilityHash();
        } else {
            for (auto &x : client.take()) {
                auto p = xu::parseFragment(x);
                if (!p.ok() || p.el.tagName() != u"presence")
                    continue;
                for (QDomElement ch = p.el.firstChildElement(); !ch.isNull(); ch = ch.nextSiblingElement()) {
                    if (ch.tagName() == u"c" && ch.namespaceURI() == u"http://jabber.org/protocol/caps") {
                        ver = ch.attribute(QStringLiteral("ver"));
                        node = ch.attribute(QStringLiteral("node"));
                        hashName = ch.attribute(QStringLiteral("hash"));
                    }
                }
            }
        }
        c.require(!ver.isEmpty(), "c20 client no-caps-in-presence", "the presence the client sent (" + when + ") carries no <c/> caps element; " + ex);
        c.require(hashName == u"sha-1", "c20 client caps-hash-name", "caps hash attribute is '" + q(hashName) + "'");
        c.nontrivial(vh::fnv(ex + q(ver) + when));

        // ask for node#ver
        QString query = QStringLiteral("<iq type='get' id='%2' from='romeo@montague.example/orchard' to='alice@example.org/phone'><query xmlns='http://jabber.org/protocol/disco#info' node=\"%1\"/></iq>")
                            .arg((node + u'#' + ver).toHtmlEscaped(), iqId);
        c.require(client.injectXml(query), "c20 harness-query-malformed", "query not well-formed: " + q(query));
        client.pump(2);
        QDomElement reply;
        xu::Parsed keep;
        for (auto &x : client.take()) {
            auto p = xu::parseFragment(x);
            if (p.ok() && p.el.tagName() == u"iq" && p.el.attribute(QStringLiteral("id")) == iqId) {
                keep = p;
                reply = keep.el;
            }
        }
        c.require(!reply.isNull() && reply.attribute(QStringLiteral("type")) == u"result", "c20 client no-disco-result",
                  "no result for disco#info on node#ver (got " + (reply.isNull() ? std::string("nothing") : q(reply.attribute(QStringLiteral("type")))) + "); " + ex);
        // reference hash of the reply, parsed from the emitted bytes
        InfoSet s;
        QDomElement qe = reply.firstChildElement(QStringLiteral("query"));
        for (QDomElement ch = qe.firstChildElement(); !ch.isNull(); ch = ch.nextSiblingElement()) {
            if (ch.tagName() == u"identity")
                s.identities.push_back({ ch.attribute(QStringLiteral("category")), ch.attribute(QStringLiteral("type")), ch.attribute(QStringLiteral("xml:lang")), ch.attribute(QStringLiteral("name")) });
            else if (ch.tagName() == u"feature")
                s.features << ch.attribute(QStringLiteral("var"));
            else if (ch.tagName() == u"x" && ch.namespaceURI() == u"jabber:x:data") {
                s.hasForm = true;
                for (QDomElement f = ch.firstChildElement(QStringLiteral("field")); !f.isNull(); f = f.nextSiblingElement(QStringLiteral("field"))) {
                    QStringList vals;
                    for (QDomElement v = f.firstChildElement(QStringLiteral("value")); !v.isNull(); v = v.nextSiblingElement(QStringLiteral("value")))
                        vals << v.text();
                    if (f.attribute(QStringLiteral("var")) == u"FORM_TYPE")
                        s.formType = vals.value(0);
                    else
                        s.fields.push_back({ f.attribute(QStringLiteral("var")), vals, vals.size() > 1 });
                }
            }
        }
        QByteArray ref = referenceHash(s).toBase64();
        c.require(QString::fromLatin1(ref) == ver, "c20 client advertised-ver-differs-from-disco-reply", [&] {
            return "presence advertises ver=" + q(ver) + " but the disco#info reply for that node hashes to " + ref.toStdString() + "\n reply: " + describe(s) + "\n extensions: " + ex + "\n when: " + when;
        });
    };
    verify("initial presence", false);
    // the application goes on: the advertised information changes (an extension is added, the client name or the software
    // form is set) and the presence is updated the usual way - from a copy of the current client presence or from a fresh one
    int rounds = int(t.u(3));
    for (int r = 0; r < rounds; r++) {
        std::string change;
        switch (t.u(4)) {
        case 0:
            if (!client.findExtension<QXmppMucManager>()) {
                client.addNewExtension<QXmppMucManager>();
                change = "add muc";
            } else if (!client.findExtension<QXmppAttentionManager>()) {
                client.addNewExtension<QXmppAttentionManager>();
                change = "add attention";
            } else {
                change = "no change";
            }
            break;
        case 1:
            disco->setClientName(val(t, 12, true) + QString::number(r));
            change = "client name";
            break;
        case 2: {
            QXmppDataForm form;
            form.setType(QXmppDataForm::Result);
            QXmppDataForm::Field ft, f;
            ft.setKey(QStringLiteral("FORM_TYPE"));
            ft.setType(QXmppDataForm::Field::HiddenField);
            ft.setValue(QStringLiteral("urn:xmpp:dataforms:softwareinfo"));
            f.setKey(QStringLiteral("software_version"));
            f.setValue(val(t, 10) + QString::number(r));
            form.setFields({ ft, f });
            disco->setClientInfoForm(form);
            change = "software form";
            break;
        }
        default: change = "no change"; break;
        }
        const bool reuse = t.b();
        QXmppPresence pr = reuse ? client.clientPresence() : QXmppPresence();
        pr.setStatusText(QStringLiteral("status %1").arg(r));
        client.take();
        client.setClientPresence(pr);
        client.pump(2);
        ex += "| " + change + (reuse ? ", presence updated from clientPresence()" : ", fresh presence") + " ";
        c.label("update:" + change + (reuse ? " (reused presence)" : " (fresh presence)"));
        verify("after update " + std::to_string(r + 1) + ": " + change, true);
    }
    client.closeSession();
}

VH_MAIN()
