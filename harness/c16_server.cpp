// C16 — the bundled server routes only for authenticated clients and stamps their true address (DESIGN.md C16).
// A REAL QXmppServer (domain example.org, no certificate => no STARTTLS offered, plain TCP on 127.0.0.1) with a
// harness password checker whose replies are kept pending and released on a generated schedule (automatically after
// 0/1/3 event-loop turns, or by hand between script steps, in a generated order; occasionally a TemporaryError).
// Two raw QTcpSocket peers:
//   victim   : honest PLAIN login as victim@example.org, binds "home", then only listens;
//   attacker : plays a generated script (<= 12 TCP writes of 1..3 elements) over stream open (right / wrong / no
//              domain), SASL <auth/> and SASL 2 <authenticate/> (PLAIN, DIGEST-MD5, ANONYMOUS, unknown, empty, SCRAM)
//              with right / wrong / malformed / victim's-name / unknown-user / empty credentials, <response/> and
//              <abort/> in both namespaces with or without a preceding auth, stream restarts, bind (absent / "" /
//              "home" / "x"), bind2, session, message / presence / iq with any from and to.
// Oracle = reference model + invariants over the bytes each peer receives:
//   approved(t) = users for which the checker released an approval of exactly (user, password) asked for on the
//                 attacker connection (PLAIN), or released the user's digest while the script has sent a response
//                 computed from that user's true password (DIGEST-MD5).  Only "alice" can ever be approved.
//   (1) whatever the victim receives after its login comes from the attacker connection: allowed only when approved
//       is non-empty, and then `from` must be the approved user's bare JID or a full JID the server bound for it;
//   (2) while approved is empty the attacker receives only stream header/features/errors and SASL challenge/failure;
//   (3) <success/> (either namespace) only when approved is non-empty; every JID the server assigns to the attacker
//       (SASL 2 authorization-identifier, bind result, `to` of replies) has an approved bare JID;
//   (4) QXmppServer::clientConnected(jid) after the victim's login only for a JID with an approved bare JID;
//   (5) the victim's connection is not replaced or closed;
//   (6) nothing the attacker sends and no checker reply, however late, crashes the server.  The server runs inside
//       this process, so every case is executed in a forked child that reports through a record file; a child that
//       dies (sanitizer report, failed assertion, signal) is an ordinary, shrinkable failure of that case with the
//       signature "c16 server-crash <on-client-input|on-checker-reply> <kind>", and the search goes on behind it.
// SASL 2 (urn:xmpp:sasl:2) IS implemented by the bundled server (QXmppIncomingClient::handleStanza), so it is part of
// the alphabet.  Without a certificate the server offers no STARTTLS; none is configured here.
#include "lb.h"
#include "xmlutil.h"

#include "QXmppLogger.h"
#include "QXmppPasswordChecker.h"
#include "QXmppServer.h"

#include <QAbstractEventDispatcher>
#include <QCryptographicHash>
#include <QPointer>
#include <QRegularExpression>
#include <QTcpServer>
#include <QTcpSocket>
#include <QTimer>

#include <sys/socket.h>
#include <sys/wait.h>

using vh::Ctx;
using vh::Tape;

namespace {

std::string q(const QString &s) { return vh::s(s); }

const QString DOMAIN = QStringLiteral("example.org");
const QString ALICE = QStringLiteral("alice"), ALICE_PW = QStringLiteral("wonderland");
const QString VICTIM = QStringLiteral("victim"), VICTIM_PW = QStringLiteral("v1ctim");
const QString VICTIM_BARE = QStringLiteral("victim@example.org"), VICTIM_FULL = QStringLiteral("victim@example.org/home");
const QString ALICE_BARE = QStringLiteral("alice@example.org");
const char *NS_SASL = "urn:ietf:params:xml:ns:xmpp-sasl";
const char *NS_SASL2 = "urn:xmpp:sasl:2";
const QString NS_STREAMS = QStringLiteral("http://etherx.jabber.org/streams");
const QString NS_CLIENT = QStringLiteral("jabber:client");

// ------------------------------------------------------------------ event loop
// The peers live in this process: after a write the kernel has the bytes in the receiver's queue when write() returns,
// so "quiet" = a few consecutive event-loop passes that dispatched nothing.  A late byte can only be attributed to a
// later model state, and the model only ever becomes MORE permissive over time (approvals are never withdrawn), so
// lateness can hide a violation but never create one.
void pump(int idleSpins = 4, int idleSleepUs = 40)
{
    int idle = 0;
    for (int i = 0; i < 4000 && idle < idleSpins; i++) {
        bool did = QAbstractEventDispatcher::instance()->processEvents(QEventLoop::AllEvents);
        QCoreApplication::sendPostedEvents(nullptr, QEvent::DeferredDelete);
        if (did) {
            idle = 0;
        } else {
            idle++;
            usleep(useconds_t(idleSleepUs));
        }
    }
}
template<typename Cond>
bool pumpUntil(Cond cond, int maxMs = 3000)
{
    QElapsedTimer tm;
    tm.start();
    while (!cond()) {
        if (tm.elapsed() > maxMs)
            return false;
        if (!QAbstractEventDispatcher::instance()->processEvents(QEventLoop::AllEvents))
            usleep(40);
    }
    return true;
}

// ------------------------------------------------------------------ raw peer
struct Peer {
    QTcpSocket sock;
    QByteArray rx;
    bool closed = false;
    int seen = 0;   // top-level elements already judged
    Peer()
    {
        QObject::connect(&sock, &QTcpSocket::readyRead, [this] { rx += sock.readAll(); });
        QObject::connect(&sock, &QTcpSocket::disconnected, [this] { closed = true; });
    }
    ~Peer()
    {
        sock.disconnect();
        if (sock.socketDescriptor() >= 0) {
            struct linger lg = { 1, 0 };   // RST instead of FIN: no TIME_WAIT pile-up over many thousand cases
            setsockopt(int(sock.socketDescriptor()), SOL_SOCKET, SO_LINGER, &lg, sizeof lg);
        }
        sock.abort();
    }
    bool alive() const { return !closed && sock.state() == QAbstractSocket::ConnectedState; }
    void send(const QByteArray &d)
    {
        if (alive()) {
            sock.write(d);
            sock.flush();
        }
    }
};

bool parseStream(const QByteArray &rx, QDomDocument &doc)
{
    static const QRegularExpression decl(QStringLiteral("<\\?xml[^>]*\\?>")), open(QStringLiteral("<stream:stream[^>]*>"));
    QString s = QString::fromUtf8(rx);
    s.remove(decl);
    s.replace(open, QStringLiteral("\n"));
    s.remove(QStringLiteral("</stream:stream>"));
    return doc.setContent(QStringLiteral("<stream:stream xmlns='jabber:client' xmlns:stream='http://etherx.jabber.org/streams'>") + s + QStringLiteral("</stream:stream>"), true);
}
QString elementText(const QDomElement &e)
{
    QString x;
    QTextStream ts(&x);
    e.save(ts, -1);
    return x;
}
QString bareOf(const QString &jid)
{
    int p = jid.indexOf(u'/');
    return p < 0 ? jid : jid.left(p);
}
std::string jidClass(const QString &jid)
{
    if (jid.isEmpty())
        return "empty";
    if (jid.startsWith(u'/'))
        return "resource-only";
    QString b = bareOf(jid);
    if (b == VICTIM_BARE)
        return jid == b ? "victim-bare" : "victim-full";
    if (b == ALICE_BARE)
        return "alice";
    if (b.startsWith(u'@'))
        return "empty-user";
    if (b.startsWith(QStringLiteral("mallory@")))
        return "stranger";
    return "other";
}

// ------------------------------------------------------------------ script
enum Kind { K_STANZA, K_AUTH1, K_BIND, K_STREAM, K_AUTH2, K_RESP1, K_SESSION, K_RESP2, K_ABORT1, K_ABORT2 };
struct Elem {
    Kind k = K_STANZA;
    int mech = 0, cred = 0, bind2 = 0, res = 0, tag = 0, from = 0, to = 0, dom = 0;
};
struct Step {
    std::vector<Elem> elems;
    std::vector<uint32_t> releases;   // picks into the pending list after the step
};
struct Sched {
    int mode = 0;   // 0 manual, 1 auto after 0 turns, 2 after 1 turn, 3 after 3 turns
    bool tempError = false;
};
struct Script {
    std::vector<Step> steps;
    std::vector<Sched> sched;
    bool drain = true;
    std::vector<uint32_t> drainOrder;
    // 0: the harness checker overrides checkPassword()/getDigest() and releases the replies on the generated schedule;
    // 1: the checker only implements getPassword() ("the simplest way to write a password checker") and the library's own
    //    QXmppPasswordChecker::checkPassword()/getDigest() produce the replies (src/server/QXmppPasswordChecker.cpp)
    int backend = 0;
};

const char *MECHS[] = { "PLAIN", "DIGEST-MD5", "ANONYMOUS", "X-UNKNOWN", "", "SCRAM-SHA-1" };
const char *PLAIN_CREDS[] = { "alice:right", "alice:wrong", "malformed-b64", "victim:wrong", "empty", "mallory", "authzid=victim,alice:right", "two-fields", "=" };
const char *RESP_CREDS[] = { "digest(alice:right)", "digest(alice:wrong)", "digest(victim:wrong)", "digest(victim-name,alice-secret)", "empty", "garbage", "digest(mallory)", "plain(alice:right)", "plain(victim:wrong)",
                              "digest(mallory:empty-password)", "digest(alice:empty-password)", "digest(victim:empty-password)" };
const char *FROMS[] = { "-", "own-full", "own-bare", "victim-full", "victim-bare", "''", "stranger", "server-assigned", "own-other-resource" };
const char *TOS[] = { "victim-bare", "victim-full", "server", "-", "alice-bare" };
const char *TAGS[] = { "message", "presence", "presence-subscribe", "iq-get", "iq-set", "iq-result" };
const char *RESOURCES[] = { "-", "''", "home", "x" };
const char *DOMS[] = { "example.org", "wrong.example", "-" };

std::string describe(const Elem &e)
{
    switch (e.k) {
    case K_STREAM: return std::string("stream(to=") + DOMS[e.dom] + ")";
    case K_AUTH1: return std::string("auth[") + MECHS[e.mech] + "," + PLAIN_CREDS[e.cred] + "]";
    case K_AUTH2: return std::string("authenticate2[") + MECHS[e.mech] + "," + PLAIN_CREDS[e.cred] + (e.bind2 == 1 ? ",bind2(tag)" : e.bind2 == 2 ? ",bind2" : "") + "]";
    case K_RESP1: return std::string("response[") + RESP_CREDS[e.cred] + "]";
    case K_RESP2: return std::string("response2[") + RESP_CREDS[e.cred] + "]";
    case K_ABORT1: return "abort";
    case K_ABORT2: return "abort2";
    case K_BIND: return std::string("bind(") + RESOURCES[e.res] + ")";
    case K_SESSION: return "session";
    case K_STANZA: return std::string(TAGS[e.tag]) + "(from=" + FROMS[e.from] + ",to=" + TOS[e.to] + ")";
    }
    return "?";
}

Script generate(Tape &t)
{
    Script s;
    int nSteps = 1 + int(t.u(12));
    int lastMech = -1;        // mechanism of the last auth in the script (generation context for "sensible" responses)
    bool rightDigestSent = false;
    for (int i = 0; i < nSteps; i++) {
        Step st;
        int nElems = 1 + int(t.weighted({ 6, 2, 1 }));
        for (int j = 0; j < nElems; j++) {
            Elem e;
            if (i == 0 && j == 0 && !t.prob(1, 12)) {
                e.k = K_STREAM;
                e.dom = int(t.weighted({ 10, 1, 1 }));
                st.elems.push_back(e);
                continue;
            }
            //                        stanza auth1 bind stream auth2 resp1 session resp2 abort1 abort2
            e.k = Kind(t.weighted({ 7, 6, 3, 2, 3, 3, 1, 1, 1, 1 }));
            if (e.k == K_STREAM && j != 0)
                e.k = K_STANZA;   // a stream header can only be recognised at the start of a read
            switch (e.k) {
            case K_STREAM: e.dom = int(t.weighted({ 10, 1, 1 })); break;
            case K_AUTH1:
            case K_AUTH2:
                e.mech = int(t.weighted({ 8, 4, 1, 1, 1, 1 }));
                e.cred = int(t.weighted({ 6, 2, 1, 4, 2, 1, 1, 1, 1 }));
                if (e.k == K_AUTH2)
                    e.bind2 = int(t.weighted({ 2, 2, 1 }));
                lastMech = e.mech;
                rightDigestSent = false;
                break;
            case K_RESP1:
            case K_RESP2:
                if (t.prob(2, 3)) {
                    // the response an implementation of the mechanism would send next
                    if (lastMech == 1)
                        e.cred = rightDigestSent ? 4 : 0;
                    else
                        e.cred = 7;
                } else {
                    e.cred = int(t.u(9));
                }
                if (e.cred == 0)
                    rightDigestSent = true;
                break;
            case K_BIND: e.res = int(t.weighted({ 1, 1, 3, 3 })); break;
            case K_STANZA:
                e.tag = int(t.weighted({ 5, 2, 1, 2, 1, 1 }));
                e.from = int(t.weighted({ 4, 2, 1, 3, 1, 1, 1, 1, 1 }));
                e.to = int(t.weighted({ 3, 5, 1, 1, 1 }));
                break;
            default: break;
            }
            st.elems.push_back(e);
        }
        int nRel = int(t.weighted({ 4, 4, 1 }));
        for (int r = 0; r < nRel; r++)
            st.releases.push_back(t.u(8));
        s.steps.push_back(std::move(st));
    }
    for (int i = 0; i < 8; i++) {
        Sched sc;
        sc.mode = int(t.weighted({ 5, 2, 1, 1 }));
        sc.tempError = t.prob(1, 14);
        s.sched.push_back(sc);
    }
    s.drain = !t.prob(1, 5);
    for (int i = 0; i < 8; i++)
        s.drainOrder.push_back(t.u(8));
    // later additions draw at the end of the tape so that older replay files keep their meaning
    s.backend = t.prob(1, 3) ? 1 : 0;
    for (auto &st : s.steps)
        for (auto &e : st.elems)
            if ((e.k == K_RESP1 || e.k == K_RESP2) && (e.cred == 0 || e.cred == 1 || e.cred == 2 || e.cred == 6) && t.prob(1, e.cred == 0 ? 6 : 2))
                e.cred = e.cred == 0 ? 9 + int(t.u(3)) : e.cred == 6 ? 9 : e.cred == 1 ? 10 : 11;   // a digest computed from the empty password
    // a complete DIGEST-MD5 login attempt (auth, response to the challenge, final empty response) with right, wrong or
    // empty-password credentials, placed right after the stream open: single elements rarely line up to one by chance
    if (t.prob(1, 4)) {
        static const int creds[] = { 0, 1, 2, 3, 6, 9, 10, 11 };
        int cred = creds[t.u(8)];
        bool v2 = t.prob(1, 3);
        Elem a, r1, r2;
        a.k = v2 ? K_AUTH2 : K_AUTH1;
        a.mech = 1;
        a.cred = 4;
        a.bind2 = v2 ? int(t.u(3)) : 0;
        r1.k = v2 ? K_RESP2 : K_RESP1;
        r1.cred = cred;
        r2.k = r1.k;
        r2.cred = 4;
        size_t pos = (!s.steps.empty() && !s.steps[0].elems.empty() && s.steps[0].elems[0].k == K_STREAM) ? 1 : 0;
        std::vector<Step> ins = { Step { { a }, {} }, Step { { r1 }, {} }, Step { { r2 }, {} } };
        s.steps.insert(s.steps.begin() + long(pos), ins.begin(), ins.end());
    }
    return s;
}

std::string scriptTextOf(const Script &script)
{
    std::string o;
    int i = 0;
    for (auto &st : script.steps) {
        o += (i++ ? " | " : "");
        bool first = true;
        for (auto &e : st.elems) {
            o += (first ? "" : " + ") + describe(e);
            first = false;
        }
        if (!st.releases.empty())
            o += " ; release x" + std::to_string(st.releases.size());
    }
    o += "\n checker schedule:";
    for (auto &sc : script.sched)
        o += std::string(" ") + (sc.mode == 0 ? "manual" : sc.mode == 1 ? "auto+0" : sc.mode == 2 ? "auto+1" : "auto+3") + (sc.tempError ? "(temp-error)" : "");
    o += script.drain ? " ; drain at end" : " ; leave pending at end";
    if (script.backend == 1)
        o += "\n checker backend: getPassword() only, replies from the library's checkPassword()/getDigest() (schedule unused)";
    return o;
}

// ------------------------------------------------------------------ checker
bool knownUser(const QString &u, QString &pw)
{
    if (u == ALICE) {
        pw = ALICE_PW;
        return true;
    }
    if (u == VICTIM) {
        pw = VICTIM_PW;
        return true;
    }
    return false;
}
struct Request {
    int id = 0;
    bool digest = false;
    QString user, pass;
    QPointer<QXmppPasswordReply> reply;
    bool tempError = false;
};
class Checker : public QXmppPasswordChecker
{
public:
    std::function<QXmppPasswordReply *(bool, const QXmppPasswordRequest &)> hook;
    std::function<void(bool, const QXmppPasswordRequest &)> note;   // backend 1: tells the model what is being asked
    bool useLibraryReplies = false;
    QXmppPasswordReply *checkPassword(const QXmppPasswordRequest &r) override
    {
        if (!useLibraryReplies)
            return hook(false, r);
        note(false, r);
        return QXmppPasswordChecker::checkPassword(r);
    }
    QXmppPasswordReply *getDigest(const QXmppPasswordRequest &r) override
    {
        if (!useLibraryReplies)
            return hook(true, r);
        note(true, r);
        return QXmppPasswordChecker::getDigest(r);
    }
    // the documented minimal backend: the password of a known user, AuthorizationError (out-parameter untouched) otherwise
    QXmppPasswordReply::Error getPassword(const QXmppPasswordRequest &r, QString &password) override
    {
        QString pw;
        if (!knownUser(r.username(), pw))
            return QXmppPasswordReply::AuthorizationError;
        password = pw;
        return QXmppPasswordReply::NoError;
    }
    bool hasGetPassword() const override { return true; }
};

// ------------------------------------------------------------------ case isolation
// The server under test runs inside this process, and some generated conversations crash it (null dereference,
// failed assertion).  Each case therefore runs in a forked child; everything the case wants to tell the framework
// (labels, fingerprints, sample, violations, the history so far, what it was doing last) goes through a record file
// that the parent reads afterwards.  A child that dies is an ordinary, shrinkable oracle failure of that case.
struct Ev {
    int fd = -1;
    void rec(char type, const std::string &payload)
    {
        std::string b;
        uint32_t n = uint32_t(payload.size());
        b.push_back(type);
        b.append(reinterpret_cast<const char *>(&n), 4);
        b += payload;
        (void)!::write(fd, b.data(), b.size());
    }
    void label(const std::string &l) { rec('L', l); }
};
struct Records {
    std::vector<std::string> labels, samples;
    std::vector<uint64_t> fps;
    std::vector<std::pair<std::string, std::string>> violations;
    std::string history, context;
    bool done = false;
};
Records readRecords(int fd)
{
    Records r;
    std::string all;
    char buf[65536];
    lseek(fd, 0, SEEK_SET);
    ssize_t n;
    while ((n = read(fd, buf, sizeof buf)) > 0)
        all.append(buf, size_t(n));
    size_t p = 0;
    while (p + 5 <= all.size()) {
        char type = all[p];
        uint32_t len;
        memcpy(&len, all.data() + p + 1, 4);
        if (p + 5 + len > all.size())
            break;
        std::string payload = all.substr(p + 5, len);
        p += 5 + len;
        switch (type) {
        case 'L': r.labels.push_back(payload); break;
        case 'S': r.samples.push_back(payload); break;
        case 'N': {
            uint64_t v = 0;
            memcpy(&v, payload.data(), std::min<size_t>(8, payload.size()));
            r.fps.push_back(v);
            break;
        }
        case 'V': {
            auto z = payload.find('\0');
            r.violations.push_back({ payload.substr(0, z), z == std::string::npos ? std::string() : payload.substr(z + 1) });
            break;
        }
        case 'H': r.history += payload; break;
        case 'X': r.context = payload; break;
        case 'D': r.done = true; break;
        }
    }
    return r;
}
std::string crashKind(int status, const std::string &out)
{
    auto cut = [](std::string x) {
        for (auto &ch : x)
            if (ch == ' ' || ch == '\n' || ch == '\'')
                ch = '-';
        return x.substr(0, 48);
    };
    auto p = out.find("runtime error: ");
    if (p != std::string::npos) {
        std::string x = out.substr(p + 15);
        auto e = x.find(" of type");
        auto nl = x.find('\n');
        return "ubsan:" + cut(x.substr(0, std::min(e, nl)));
    }
    p = out.find("ASSERT: \"");
    if (p != std::string::npos) {
        std::string x = out.substr(p + 9);
        return "assert:" + cut(x.substr(0, x.find('"')));
    }
    p = out.find("AddressSanitizer: ");
    if (p != std::string::npos) {
        std::string x = out.substr(p + 18);
        return "asan:" + cut(x.substr(0, x.find_first_of(" \n")));
    }
    if (status >= 100 && status < 200)
        return "signal-" + std::to_string(status - 100);
    return "exit-" + std::to_string(status);
}

// ------------------------------------------------------------------ the world of one case
struct World {
    const Ctx &c;
    Ev &ev;
    const Script &script;
    Checker checker;
    QObject guard;   // context object for timers: dies with the case
    std::unique_ptr<QXmppServer> server;
    Peer victim, attacker;
    bool attackPhase = false;
    int nextReq = 0;
    std::vector<Request> pending;

    // model
    QSet<QString> plainApproved, digestReleased, digestProven;
    QSet<QString> boundJids;          // every JID the server reported to the attacker as bound / assigned
    QString lastAssigned;             // the last of those
    bool overlap = false, stanzaBeforeAuth = false, bindBeforeAuth = false, spoof = false, sawSuccess = false, sawBound = false;

    // bookkeeping
    std::string history;
    std::set<std::string> caseSigs;
    bool haveFailure = false;   // an unknown violation outside collect mode: the rest of the script is not needed

    World(const Ctx &ctx, Ev &e, const Script &s) : c(ctx), ev(e), script(s) { }
    void hist(const std::string &x)
    {
        history += x;
        ev.rec('H', x);
    }

    QSet<QString> approvedBare() const
    {
        QSet<QString> out;
        for (auto &u : plainApproved)
            out.insert(u + u'@' + DOMAIN);
        for (auto &u : digestReleased)
            if (digestProven.contains(u))
                out.insert(u + u'@' + DOMAIN);
        return out;
    }

    std::string scriptText() const { return scriptTextOf(script); }
    std::string report(const std::string &what) const
    {
        return what + "\n script: " + scriptText() + "\n what happened:" + history + "\n attacker received: " + q(QString::fromUtf8(attacker.rx).right(1500)) + "\n victim received (all): " + q(QString::fromUtf8(victim.rx).right(1200));
    }
    // never throws: most call sites are inside event-loop callbacks
    void violation(const std::string &sig, const std::string &what)
    {
        if (!caseSigs.insert(sig).second)
            return;
        ev.rec('V', sig + std::string(1, '\0') + report(what).substr(0, 6000));
        if (!c.isKnown(sig) && !c.collectMode)
            haveFailure = true;
    }

    // ---- checker side
    QXmppPasswordReply *onRequest(bool digest, const QXmppPasswordRequest &r)
    {
        auto *reply = new QXmppPasswordReply;
        Request rq;
        rq.digest = digest;
        rq.user = r.username();
        rq.pass = r.password();
        rq.reply = reply;
        if (!attackPhase) {
            // the victim's honest login: answered at once
            QString pw;
            if (digest || !knownUser(rq.user, pw) || pw != rq.pass)
                reply->setError(QXmppPasswordReply::AuthorizationError);
            reply->finishLater();
            return reply;
        }
        rq.id = nextReq++;
        Sched sc = size_t(rq.id) < script.sched.size() ? script.sched[size_t(rq.id)] : Sched {};
        rq.tempError = sc.tempError;
        if (!pending.empty()) {
            overlap = true;
            ev.label("checker:overlapping-requests");
        }
        hist(" [checker#" + std::to_string(rq.id) + (digest ? " getDigest(" : " checkPassword(") + q(rq.user) + (digest ? "" : "," + q(rq.pass)) + ")]");
        pending.push_back(rq);
        if (sc.mode != 0) {
            int hops = sc.mode == 1 ? 0 : sc.mode == 2 ? 1 : 3;
            scheduleAuto(rq.id, hops);
        }
        return reply;
    }
    // backend 1: the reply comes from the library at the next event-loop turn; the model learns the honest checker's
    // answer when the question is asked (never later than the library can act on it, so never too strict)
    void onLibraryRequest(bool digest, const QXmppPasswordRequest &r)
    {
        if (!attackPhase)
            return;
        observe(false);
        QString pw;
        bool known = knownUser(r.username(), pw);
        bool ok = digest ? known : (known && pw == r.password());
        hist(" [library-checker " + std::string(digest ? "getDigest(" : "checkPassword(") + q(r.username()) + (digest ? "" : "," + q(r.password())) + "): " + (ok ? (digest ? "digest" : "APPROVED") : "not-authorized") + "]");
        ev.label("release:library");
        if (ok) {
            if (digest)
                digestReleased.insert(r.username());
            else
                plainApproved.insert(r.username());
        }
    }
    void scheduleAuto(int id, int hops)
    {
        QTimer::singleShot(0, &guard, [this, id, hops] {
            if (hops > 0) {
                scheduleAuto(id, hops - 1);
                return;
            }
            for (size_t i = 0; i < pending.size(); i++)
                if (pending[i].id == id) {
                    release(i, "auto");
                    return;
                }
        });
    }
    void release(size_t idx, const char *how)
    {
        Request rq = pending[idx];
        pending.erase(pending.begin() + long(idx));
        if (!rq.reply) {
            hist(" [release#" + std::to_string(rq.id) + ":connection-gone]");
            return;
        }
        observe(false);   // judge what arrived so far against the model as it was before this release
        QString pw;
        bool known = knownUser(rq.user, pw);
        int verdict;   // 0 ok, 1 not authorized, 2 temporary
        if (rq.tempError)
            verdict = 2;
        else if (rq.digest)
            verdict = known ? 0 : 1;
        else
            verdict = known && pw == rq.pass ? 0 : 1;
        if (verdict == 0 && rq.digest)
            rq.reply->setDigest(QCryptographicHash::hash((rq.user + u':' + DOMAIN + u':' + pw).toUtf8(), QCryptographicHash::Md5));
        else if (verdict == 1)
            rq.reply->setError(QXmppPasswordReply::AuthorizationError);
        else if (verdict == 2)
            rq.reply->setError(QXmppPasswordReply::TemporaryError);
        hist(" [release#" + std::to_string(rq.id) + "(" + how + "):" + (verdict == 0 ? (rq.digest ? "digest" : "APPROVED") : verdict == 1 ? "not-authorized" : "temporary-error") + "]");
        ev.label(std::string("release:") + how);

        if (verdict == 0) {
            if (rq.digest)
                digestReleased.insert(rq.user);
            else
                plainApproved.insert(rq.user);
        }
        ev.rec('X', "on-checker-reply");
        rq.reply->finish();
        ev.rec('X', "on-client-input");
    }

    // ---- observation
    void judgeAttacker(const QDomElement &e)
    {
        const QString name = e.localName().isEmpty() ? e.tagName() : e.localName();
        const QString ns = e.namespaceURI();
        const QSet<QString> ok = approvedBare();
        auto checkAssigned = [&](const QString &jid, const std::string &where) {
            boundJids.insert(jid);
            lastAssigned = jid;
            if (!ok.contains(bareOf(jid)))
                violation("c16 assigned-unapproved-address " + where + " " + jidClass(jid),
                          "the server assigned the attacker connection the address '" + q(jid) + "' (" + where + ") but the checker approved " + (ok.isEmpty() ? std::string("nobody") : q(QStringList(ok.values()).join(u','))) + " on that connection");
        };
        if (ns == NS_STREAMS)
            return;   // features, error
        if (ns == QLatin1String(NS_SASL) || ns == QLatin1String(NS_SASL2)) {
            if (name == u"challenge" || name == u"failure")
                return;
            if (name == u"success") {
                sawSuccess = true;
                if (plainApproved.isEmpty() && !ok.isEmpty())
                    ev.label("attacker:authenticated-via-digest-md5");
                ev.label(ns == QLatin1String(NS_SASL) ? "attacker:sasl-success" : "attacker:sasl2-success");
                if (ok.isEmpty())
                    violation(std::string("c16 success-without-approval ") + (ns == QLatin1String(NS_SASL) ? "sasl" : "sasl2"), "the attacker received <success/> although the checker approved nothing on that connection");
                if (ns == QLatin1String(NS_SASL2)) {
                    QString id = e.firstChildElement(QStringLiteral("authorization-identifier")).text();
                    checkAssigned(id, "sasl2-success");
                    if (!e.firstChildElement(QStringLiteral("bound")).isNull())
                        sawBound = true;
                }
                return;
            }
            violation("c16 unexpected-sasl-element " + q(name), "unexpected element sent to the attacker: " + q(elementText(e)));
            return;
        }
        if (name == u"iq" || name == u"message" || name == u"presence") {
            std::string what = q(name);
            QDomElement bind = e.firstChildElement(QStringLiteral("bind"));
            if (name == u"iq") {
                what += "-" + q(e.attribute(QStringLiteral("type")));
                if (!bind.isNull())
                    what += "-bind";
            }
            if (ok.isEmpty())
                violation("c16 reply-to-unauthenticated " + what, "a connection without an approved identity received " + q(elementText(e)));
            if (!bind.isNull()) {
                QString jid = bind.firstChildElement(QStringLiteral("jid")).text();
                sawBound = true;
                ev.label("attacker:bind-result");
                checkAssigned(jid, "bind-result");
            }
            QString to = e.attribute(QStringLiteral("to"));
            if (!to.isEmpty() && !ok.isEmpty() && !ok.contains(bareOf(to)))
                violation("c16 assigned-unapproved-address stanza-to " + jidClass(to), "the attacker connection received a stanza addressed to '" + q(to) + "': " + q(elementText(e)));
            return;
        }
        violation("c16 unexpected-element-to-attacker " + q(name), "unexpected element sent to the attacker: " + q(elementText(e)));
    }
    void judgeVictim(const QDomElement &e)
    {
        const QString name = e.localName().isEmpty() ? e.tagName() : e.localName();
        const QString ns = e.namespaceURI();
        const QSet<QString> ok = approvedBare();
        if (ns == NS_STREAMS) {
            QString cond = e.firstChildElement().tagName();
            violation("c16 victim-got-stream-" + q(name) + " " + q(cond), "after its login the victim received " + q(elementText(e)));
            return;
        }
        if (name == u"iq" || name == u"message" || name == u"presence") {
            const QString from = e.attribute(QStringLiteral("from"));
            ev.label("victim:received-stanza");
            // allowed: the approved user's bare JID, or a full JID the server itself bound for the approved user
            bool allowed = ok.contains(from) || (boundJids.contains(from) && ok.contains(bareOf(from)));
            if (!allowed) {
                std::string cls = jidClass(from);
                if (cls == "alice")
                    cls += ok.isEmpty() ? "-before-approval" : "-unbound-resource";
                // did the attacker write this from itself (and the server let it pass), or did the server stamp it?
                std::string origin = "unattributed";
                int a = -1, b = -1;
                if (sscanf(q(e.attribute(QStringLiteral("id"))).c_str(), "mk%de%d", &a, &b) == 2 && a >= 0 && size_t(a) < script.steps.size() && b >= 0 && size_t(b) < script.steps[size_t(a)].elems.size()) {
                    int fk = script.steps[size_t(a)].elems[size_t(b)].from;
                    origin = fk == 0 || fk == 5 ? "stamped-by-server" : "sender-supplied";
                }
                violation("c16 victim-received " + q(name) + " from-" + cls + " " + origin,
                          "the victim received a stanza from the attacker connection with from='" + q(from) + "'; the checker approved " + (ok.isEmpty() ? std::string("nobody") : q(QStringList(ok.values()).join(u','))) + " on that connection, so the only acceptable from is that user's bare JID or a full JID the server bound for it: " + q(elementText(e)));
                return;
            }
            ev.label("victim:received-correctly-stamped-stanza");
            return;
        }
        violation("c16 victim-unexpected-element " + q(name), "after its login the victim received " + q(elementText(e)));
    }
    void observe(bool final)
    {
        for (Peer *p : { &attacker, &victim }) {
            QDomDocument doc;
            if (!parseStream(p->rx, doc)) {
                if (final)
                    violation(std::string("c16 unparsable-output-to-") + (p == &victim ? "victim" : "attacker"), "the bytes sent by the server are not a well-formed stream");
                continue;
            }
            int i = 0;
            for (QDomElement e = doc.documentElement().firstChildElement(); !e.isNull(); e = e.nextSiblingElement(), i++) {
                if (i < p->seen)
                    continue;
                if (p == &victim)
                    judgeVictim(e);
                else
                    judgeAttacker(e);
            }
            p->seen = std::max(p->seen, i);
        }
        if (attackPhase && victim.closed)
            violation("c16 victim-disconnected", "the victim's connection was closed by the server during the attacker's script");
    }

    // ---- attacker elements
    QByteArray lastNonce() const
    {
        static const QRegularExpression re(QStringLiteral("<challenge[^>]*>([^<]*)</challenge>"));
        auto it = re.globalMatch(QString::fromUtf8(attacker.rx));
        QByteArray nonce = "c16-no-challenge-yet";
        while (it.hasNext()) {
            QByteArray ch = QByteArray::fromBase64(it.next().captured(1).toLatin1());
            static const QRegularExpression nre(QStringLiteral("nonce=\"?([^\",]*)"));
            auto m = nre.match(QString::fromLatin1(ch));
            if (m.hasMatch() && !ch.contains("rspauth"))
                nonce = m.captured(1).toLatin1();
        }
        return nonce;
    }
    static QByteArray digestResponse(const QString &user, const QString &secretUser, const QString &secretPass, const QByteArray &nonce)
    {
        const QByteArray realm = DOMAIN.toUtf8(), cnonce = "c16cnonce", nc = "00000001", uri = "xmpp/" + DOMAIN.toUtf8();
        auto md5 = [](const QByteArray &x) { return QCryptographicHash::hash(x, QCryptographicHash::Md5); };
        QByteArray secret = md5(secretUser.toUtf8() + ':' + realm + ':' + secretPass.toUtf8());
        QByteArray ha1 = md5(secret + ':' + nonce + ':' + cnonce).toHex();
        QByteArray ha2 = md5("AUTHENTICATE:" + uri).toHex();
        QByteArray resp = md5(ha1 + ':' + nonce + ':' + nc + ':' + cnonce + ":auth:" + ha2).toHex();
        return "username=\"" + user.toUtf8() + "\",realm=\"" + realm + "\",nonce=\"" + nonce + "\",cnonce=\"" + cnonce + "\",nc=" + nc + ",qop=auth,digest-uri=\"" + uri + "\",response=" + resp + ",charset=utf-8";
    }
    static QByteArray plainText(int cred)
    {
        auto z = QByteArray(1, '\0');
        switch (cred) {
        case 0: return (z + "alice" + z + "wonderland").toBase64();
        case 1: return (z + "alice" + z + "wr0ng").toBase64();
        case 2: return "%%%not*base64%%%";
        case 3: return (z + "victim" + z + "guess").toBase64();
        case 4: return "";
        case 5: return (z + "mallory" + z + "x").toBase64();
        case 6: return ("victim@example.org" + z + "alice" + z + "wonderland").toBase64();
        case 7: return ("alice" + z + "wonderland").toBase64();
        default: return "=";
        }
    }
    QByteArray responseText(int cred)
    {
        auto z = QByteArray(1, '\0');
        QByteArray n = lastNonce();
        switch (cred) {
        case 0: digestProven.insert(ALICE); return digestResponse(ALICE, ALICE, ALICE_PW, n).toBase64();
        case 1: return digestResponse(ALICE, ALICE, QStringLiteral("wr0ng"), n).toBase64();
        case 2: return digestResponse(VICTIM, VICTIM, QStringLiteral("guess"), n).toBase64();
        case 3: return digestResponse(VICTIM, ALICE, ALICE_PW, n).toBase64();
        case 4: return "";
        case 5: return QByteArray("foo=bar,qop=auth").toBase64();
        case 6: return digestResponse(QStringLiteral("mallory"), QStringLiteral("mallory"), QStringLiteral("x"), n).toBase64();
        case 7: return (z + "alice" + z + "wonderland").toBase64();
        case 9:
            if (!n.isEmpty())
                ev.label(script.backend == 1 ? "resp:unknown-user-empty-password-digest-on-live-nonce(library-backend)" : "resp:unknown-user-empty-password-digest-on-live-nonce(scheduled-backend)");
            return digestResponse(QStringLiteral("mallory"), QStringLiteral("mallory"), QString(), n).toBase64();
        case 10: return digestResponse(ALICE, ALICE, QString(), n).toBase64();
        case 11: return digestResponse(VICTIM, VICTIM, QString(), n).toBase64();
        default: return (z + "victim" + z + "guess").toBase64();
        }
    }
    QByteArray render(const Elem &e, const QByteArray &marker)
    {
        switch (e.k) {
        case K_STREAM: {
            QByteArray to = e.dom == 0 ? " to='example.org'" : e.dom == 1 ? " to='wrong.example'" : "";
            return "<?xml version='1.0'?><stream:stream" + to + " xmlns='jabber:client' xmlns:stream='http://etherx.jabber.org/streams' version='1.0'>";
        }
        case K_AUTH1: return QByteArray("<auth xmlns='") + NS_SASL + "' mechanism='" + MECHS[e.mech] + "'>" + plainText(e.cred) + "</auth>";
        case K_AUTH2: {
            QByteArray ir = plainText(e.cred);
            return QByteArray("<authenticate xmlns='") + NS_SASL2 + "' mechanism='" + MECHS[e.mech] + "'>" + (ir.isEmpty() ? QByteArray() : "<initial-response>" + ir + "</initial-response>") + (e.bind2 == 1 ? "<bind xmlns='urn:xmpp:bind:0'><tag>c16</tag></bind>" : e.bind2 == 2 ? "<bind xmlns='urn:xmpp:bind:0'/>" : "") + "</authenticate>";
        }
        case K_RESP1: return QByteArray("<response xmlns='") + NS_SASL + "'>" + responseText(e.cred) + "</response>";
        case K_RESP2: return QByteArray("<response xmlns='") + NS_SASL2 + "'>" + responseText(e.cred) + "</response>";
        case K_ABORT1: return QByteArray("<abort xmlns='") + NS_SASL + "'/>";
        case K_ABORT2: return QByteArray("<abort xmlns='") + NS_SASL2 + "'/>";
        case K_BIND: {
            QByteArray r = e.res == 0 ? "" : e.res == 1 ? "<resource></resource>" : e.res == 2 ? "<resource>home</resource>" : "<resource>x</resource>";
            return "<iq type='set' id='" + marker + "'><bind xmlns='urn:ietf:params:xml:ns:xmpp-bind'>" + r + "</bind></iq>";
        }
        case K_SESSION: return "<iq type='set' id='" + marker + "'><session xmlns='urn:ietf:params:xml:ns:xmpp-session'/></iq>";
        case K_STANZA: {
            QString own = lastAssigned.isEmpty() || bareOf(lastAssigned) != ALICE_BARE ? ALICE_BARE + QStringLiteral("/x") : lastAssigned;
            QString from;
            switch (e.from) {
            case 1: from = own; break;
            case 2: from = ALICE_BARE; break;
            case 3: from = VICTIM_FULL; break;
            case 4: from = VICTIM_BARE; break;
            case 6: from = QStringLiteral("mallory@example.org/evil"); break;
            case 7: from = lastAssigned.isEmpty() ? QStringLiteral("/x") : lastAssigned; break;
            case 8: from = ALICE_BARE + QStringLiteral("/other"); break;
            default: break;
            }
            QByteArray attrs = " id='" + marker + "'";
            if (e.from != 0)
                attrs += " from='" + from.toUtf8() + "'";
            static const char *tos[] = { "victim@example.org", "victim@example.org/home", "example.org", nullptr, "alice@example.org" };
            if (tos[e.to])
                attrs += QByteArray(" to='") + tos[e.to] + "'";
            switch (e.tag) {
            case 0: return "<message type='chat'" + attrs + "><body>" + marker + "</body></message>";
            case 1: return "<presence" + attrs + "><status>" + marker + "</status></presence>";
            case 2: return "<presence type='subscribe'" + attrs + "/>";
            case 3: return "<iq type='get'" + attrs + "><query xmlns='jabber:iq:version'/></iq>";
            case 4: return "<iq type='set'" + attrs + "><x xmlns='urn:verif:c16'>" + marker + "</x></iq>";
            default: return "<iq type='result'" + attrs + "/>";
            }
        }
        }
        return {};
    }
    void noteSend(const Elem &e)
    {
        const bool unauth = approvedBare().isEmpty();
        switch (e.k) {
        case K_STANZA:
            ev.label("elem:stanza");
            if (unauth) {
                stanzaBeforeAuth = true;
                ev.label("stanza-while-unapproved");
            }
            if (e.from >= 3 && e.from != 7) {
                spoof = true;
                ev.label("stanza-with-foreign-from");
            }
            break;
        case K_BIND:
        case K_SESSION:
            ev.label(e.k == K_BIND ? "elem:bind" : "elem:session");
            if (unauth) {
                bindBeforeAuth = true;
                ev.label("bind-or-session-while-unapproved");
            }
            break;
        case K_AUTH1:
        case K_AUTH2:
            ev.label(std::string(e.k == K_AUTH1 ? "elem:auth " : "elem:authenticate2 ") + MECHS[e.mech]);
            if (!pending.empty()) {
                overlap = true;
                ev.label("auth-while-checker-pending");
            }
            break;
        case K_STREAM:
            ev.label(std::string("elem:stream ") + DOMS[e.dom]);
            if (!pending.empty())
                ev.label("stream-restart-while-checker-pending");
            break;
        case K_RESP1:
        case K_RESP2: ev.label(e.k == K_RESP1 ? "elem:response" : "elem:response2"); break;
        case K_ABORT1:
        case K_ABORT2:
            ev.label(e.k == K_ABORT1 ? "elem:abort" : "elem:abort2");
            if (!pending.empty())
                ev.label("abort-while-checker-pending");
            break;
        }
    }
};

bool containsTwice(const QByteArray &hay, const char *needle)
{
    int p = hay.indexOf(needle);
    return p >= 0 && hay.indexOf(needle, p + 1) >= 0;
}

// runs in the forked child; reports through ev only
void runCase(const Script &script, const Ctx &c, Ev &ev)
{
    World w(c, ev, script);
    ev.rec('X', "on-client-input");
    w.checker.hook = [&w](bool digest, const QXmppPasswordRequest &r) { return w.onRequest(digest, r); };
    w.checker.note = [&w](bool digest, const QXmppPasswordRequest &r) { w.onLibraryRequest(digest, r); };
    w.checker.useLibraryReplies = script.backend == 1;
    ev.label(script.backend == 1 ? "backend:library-replies" : "backend:scheduled-replies");

    // ---- server
    w.server = std::make_unique<QXmppServer>();
    w.server->setDomain(DOMAIN);
    w.server->setPasswordChecker(&w.checker);
    QXmppLogger debugLogger;
    if (getenv("C16_DEBUG")) {
        debugLogger.setLoggingType(QXmppLogger::StdoutLogging);
        w.server->setLogger(&debugLogger);
    }
    if (!w.server->listenForClients(QHostAddress::LocalHost, 0)) {
        w.violation("c16 harness-no-listen", "QXmppServer cannot listen on loopback");
        return;
    }
    quint16 port = 0;
    for (auto *ts : w.server->findChildren<QTcpServer *>())
        if (ts->isListening())
            port = ts->serverPort();
    if (port == 0) {
        w.violation("c16 harness-no-port", "cannot learn the port the server listens on");
        return;
    }
    QStringList connectedJids;
    QObject::connect(w.server.get(), &QXmppServer::clientConnected, &w.guard, [&](const QString &jid) {
        connectedJids << jid;
        if (!w.attackPhase)
            return;
        w.hist(" [clientConnected(" + q(jid) + ")]");
        ev.label("signal:clientConnected-for-attacker");
        // the server announces the full JID it has bound for the connection; the bind result that tells the client may never
        // arrive (the same write can make the server close the stream), the binding is real all the same
        w.boundJids.insert(jid);
        auto ok = w.approvedBare();
        if (!ok.contains(bareOf(jid)))
            w.violation("c16 clientConnected-unapproved " + jidClass(jid),
                        "QXmppServer::clientConnected('" + q(jid) + "') was emitted for the attacker connection, on which the checker approved " + (ok.isEmpty() ? std::string("nobody") : q(QStringList(ok.values()).join(u','))));
    });

    // ---- both peers connect; the victim logs in honestly
    w.victim.sock.connectToHost(QHostAddress(QHostAddress::LocalHost), port);
    w.attacker.sock.connectToHost(QHostAddress(QHostAddress::LocalHost), port);
    const QByteArray header = "<?xml version='1.0'?><stream:stream to='example.org' xmlns='jabber:client' xmlns:stream='http://etherx.jabber.org/streams' version='1.0'>";
    bool ok = pumpUntil([&] { return w.victim.alive() && w.attacker.alive(); });
    // Nagle + delayed ACK would hold back the second small segment on a connection for 40 ms: switch it off on all
    // four socket ends (the server's ends are children of its QXmppIncomingClient objects)
    ok = ok && pumpUntil([&] { return w.server->findChildren<QSslSocket *>().size() >= 2; });
    for (auto *s : w.server->findChildren<QSslSocket *>())
        s->setSocketOption(QAbstractSocket::LowDelayOption, 1);
    w.victim.sock.setSocketOption(QAbstractSocket::LowDelayOption, 1);
    w.attacker.sock.setSocketOption(QAbstractSocket::LowDelayOption, 1);
    if (ok) {
        w.victim.send(header);
        ok = pumpUntil([&] { return w.victim.rx.contains("</stream:features>"); });
    }
    if (ok) {
        w.victim.send(QByteArray("<auth xmlns='") + NS_SASL + "' mechanism='PLAIN'>" + (QByteArray(1, '\0') + "victim" + QByteArray(1, '\0') + "v1ctim").toBase64() + "</auth>");
        ok = pumpUntil([&] { return w.victim.rx.contains("<success"); });
    }
    if (ok) {
        w.victim.send(header);
        ok = pumpUntil([&] { return containsTwice(w.victim.rx, "</stream:features>"); });
    }
    if (ok) {
        w.victim.send("<iq type='set' id='vbind'><bind xmlns='urn:ietf:params:xml:ns:xmpp-bind'><resource>home</resource></bind></iq>");
        ok = pumpUntil([&] { return w.victim.rx.contains("<jid>victim@example.org/home</jid>") && w.victim.rx.endsWith("</iq>"); });
    }
    if (!ok || connectedJids != QStringList { VICTIM_FULL }) {
        w.violation("c16 harness-victim-login-failed", "the honest victim could not log in; received: " + vh::s(w.victim.rx));
        return;
    }
    pump();
    {
        QDomDocument doc;
        if (!parseStream(w.victim.rx, doc)) {
            w.violation("c16 harness-victim-login-unparsable", vh::s(w.victim.rx));
            return;
        }
        w.victim.seen = doc.documentElement().childNodes().count();
    }
    w.attackPhase = true;

    // ---- the attacker's script
    int stepNo = 0;
    for (auto &st : script.steps) {
        if (!w.attacker.alive() || w.haveFailure)
            break;
        QByteArray wire;
        int j = 0;
        w.hist("\n  step " + std::to_string(stepNo) + ":");
        for (auto &e : st.elems) {
            w.noteSend(e);
            wire += w.render(e, "mk" + QByteArray::number(stepNo) + "e" + QByteArray::number(j));
            w.hist(" " + describe(e));
            j++;
        }
        if (st.elems.size() > 1)
            ev.label("several-elements-in-one-write");
        w.attacker.send(wire);
        pump();
        w.observe(false);
        for (uint32_t pick : st.releases) {
            if (w.pending.empty() || w.haveFailure)
                break;
            w.release(pick % w.pending.size(), "manual");
            pump();
            w.observe(false);
        }
        stepNo++;
    }
    if (!w.attacker.alive())
        ev.label("attacker-disconnected-by-server");
    if (script.drain) {
        for (uint32_t pick : script.drainOrder) {
            if (w.pending.empty() || w.haveFailure)
                break;
            w.release(pick % w.pending.size(), "drain");
            pump();
            w.observe(false);
        }
    }
    pump(8, 120);
    w.observe(true);

    // ---- evidence
    if (w.sawSuccess)
        ev.label("attacker:authenticated");
    if (w.sawBound)
        ev.label("attacker:bound");
    if (!w.approvedBare().isEmpty())
        ev.label("model:approved-alice");
    if (w.stanzaBeforeAuth || w.bindBeforeAuth || w.overlap || w.spoof) {
        uint64_t fp = vh::fnv(w.scriptText());
        ev.rec('N', std::string(reinterpret_cast<const char *>(&fp), 8));
    }
    ev.rec('S', w.scriptText() + "\n =>" + w.history + "\n attacker got: " + q(QString::fromUtf8(w.attacker.rx).right(500)) + "\n victim got after login: " + q(QString::fromUtf8(w.victim.rx).mid(w.victim.rx.indexOf("vbind")).right(400)));
    w.server.reset();
    QCoreApplication::sendPostedEvents(nullptr, QEvent::DeferredDelete);
    QCoreApplication::processEvents();
}

}   // namespace

VCHECK("c16.server", 400)
{
    Script scriptGen = generate(t);   // every random decision of the case is taken here, in the parent
    if (c.param("selftest_unknown_user_digest", 0)) {
        // harness self-test (never used by the registered commands): DIGEST-MD5 for an unknown user with the empty password
        auto mk = [](Kind k, int cred = 0, int mech = 0) {
            Elem e;
            e.k = k;
            e.cred = cred;
            e.mech = mech;
            return e;
        };
        Elem msg = mk(K_STANZA);
        msg.to = 1;
        scriptGen.steps = { Step { { mk(K_STREAM) }, {} }, Step { { mk(K_AUTH1, 4, 1) }, {} }, Step { { mk(K_RESP1, 9) }, {} }, Step { { mk(K_RESP1, 4) }, {} }, Step { { mk(K_STREAM) }, {} }, Step { { mk(K_BIND), msg }, {} } };
        scriptGen.backend = 1;
    }
    const Script &script = scriptGen;
    // warm-up: one benign conversation inside the parent, so that every lazily initialised piece of Qt / OpenSSL /
    // the library (CA store, regular expressions, meta types) is inherited by the children instead of being redone
    static bool warmed = false;
    if (!warmed) {
        warmed = true;
        Script ws;
        auto mk = [](Kind k) {
            Elem e;
            e.k = k;
            return e;
        };
        Elem msg = mk(K_STANZA), bind = mk(K_BIND);
        msg.to = 1;
        bind.res = 3;
        ws.steps = { Step { { mk(K_STREAM) }, {} }, Step { { mk(K_AUTH1) }, { 0 } }, Step { { mk(K_STREAM) }, {} }, Step { { bind, msg }, {} } };
        ws.sched.assign(8, Sched {});
        Ev none;
        runCase(ws, c, none);
    }

    char tmpl[] = "/tmp/c16recXXXXXX", tmpl2[] = "/tmp/c16errXXXXXX";
    int fd = mkstemp(tmpl), efd = mkstemp(tmpl2);
    c.require(fd >= 0 && efd >= 0, "c16 harness-no-tmpfile", "cannot create the record files in /tmp");
    unlink(tmpl);
    unlink(tmpl2);
    fflush(stdout);
    fflush(stderr);
    pid_t pid = fork();
    if (pid == 0) {
        vh::crashPath()[0] = 0;   // a crash in here is reported by the parent, not as a crash of the harness
        alarm(60);
        signal(SIGALRM, SIG_DFL);
        if (!c.replayMode || !getenv("C16_DEBUG"))
            dup2(efd, 2);
        Ev ev;
        ev.fd = fd;
        runCase(script, c, ev);
        ev.rec('D', "");
        fflush(stdout);
        _exit(0);
    }
    int status = 0;
    if (pid > 0)
        while (waitpid(pid, &status, 0) < 0 && errno == EINTR) { }
    Records r = readRecords(fd);
    std::string err;
    {
        char buf[4096];
        lseek(efd, 0, SEEK_SET);
        ssize_t n = read(efd, buf, sizeof buf);
        if (n > 0)
            err.assign(buf, size_t(n));
    }
    close(fd);
    close(efd);
    c.require(pid > 0, "c16 harness-fork-failed", "fork failed");

    for (auto &l : r.labels)
        c.label(l);
    for (auto fp : r.fps)
        c.nontrivial(fp);
    if (!r.done) {
        // the server took the whole process down
        int st = WIFEXITED(status) ? WEXITSTATUS(status) : 100 + (WIFSIGNALED(status) ? WTERMSIG(status) : 0);
        if (WIFSIGNALED(status) && WTERMSIG(status) == SIGALRM)
            r.violations.push_back({ "c16 harness-case-timeout", "the case did not finish within 60 s\n script: " + scriptTextOf(script) + "\n what happened:" + r.history });
        else
            r.violations.push_back({ "c16 server-crash " + r.context + " " + crashKind(st, err),
                                     "the server crashed the process (" + r.context + ", exit status " + std::to_string(st) + ")\n output: " + err.substr(0, 700) + "\n script: " + scriptTextOf(script) + "\n what happened:" + r.history });
        c.label("case-ended-by-server-crash");
    }
    for (auto &x : r.samples)
        c.sample([&] { return x; });
    bool failed = false;
    vh::Failure first;
    for (auto &[sig, msg] : r.violations) {
        if (c.isKnown(sig)) {
            c.excludedKnown[sig]++;
        } else if (c.collectMode) {
            if (!c.collected.count(sig))
                c.collected[sig] = msg.substr(0, 3000);
            c.collectedCount[sig]++;
        } else if (!failed) {
            failed = true;
            first = { sig, msg };
        }
    }
    if (failed)
        c.fail(first.sig, first.msg);
}

VH_MAIN()
