// development harness for the object-first tables of group "core" (not registered in MANIFEST.json)
#include "objgen_core.h"
#include "objgen_check.h"

VCHECK("c01.objects", 500)
{
    static bool once = (og::registerCore(), true);
    (void)once;
    og::runObjectCheck(t, c);
}

VH_MAIN()
