// C07 — every request completes exactly once, and only by a reply from the entity asked (DESIGN.md C07).
//   c07.iq        stateful, model-based: send(to, id) / reply(pending k, type, sender kind, payload) / duplicate reply /
//                 unrelated IQ / disconnect(resumable|not) / reconnect(resumed | new with sm | new without sm), with
//                 re-entrant operations executed from inside completion handlers (send another request, close the
//                 session).  Reference model: table id -> (addressee, state); a task completes iff the model says so,
//                 at most once at every step and exactly once after a final non-resumable close.
//   c07.managers  request APIs of the bundled managers x server behaviour {empty result, error, unexpected payload,
//                 silence then non-resumable disconnect}: the returned task completes exactly once.
#include "gens.h"
#include "tc.h"

#include "QXmppEntityTimeIq.h"
#include "QXmppExternalService.h"
#include "QXmppGeolocItem.h"
#include "QXmppMixInfoItem.h"
#include "QXmppMixParticipantItem.h"
#include "QXmppPubSubAffiliation.h"
#include "QXmppPubSubBaseItem.h"
#include "QXmppPubSubSubscription.h"
#include "QXmppPubSubNodeConfig.h"
#include "QXmppUserTuneItem.h"
#include "QXmppVCardIq.h"
#include "QXmppVersionIq.h"

using vh::Ctx;
using vh::Tape;

static std::string q(const QString &s) { return vh::s(s); }

struct Req {
    QString id, to, expectedFrom;
    int completions = 0;
    QString outcome;     // "result:<payload tag>" | "stanza-error" | "send-error:<text>"
    bool modelDone = false;
    QString modelOutcome;
    int reentrant = 0;   // 0 none, 1 send another request from the handler, 2 close the session from the handler
};

struct World {
    std::unique_ptr<TestClient> client;
    std::vector<std::shared_ptr<Req>> reqs;
    bool open = false, sm = false;
    // the current session was negotiated through the stream-management manager with a real <enabled/>: whether it can be
    // resumed is what the server said there (-1: session set up through the test switches, the tape decides at disconnect)
    int serverAllowsResume = -1;
    bool clientEndedStream = false;   // the client itself closed the stream (it does on an <iq/> without a type): never resumable
    std::string history;
    int nextId = 0;
    bool interesting = false;
};

static void modelCancelAll(World &w, const char *why)
{
    for (auto &r : w.reqs)
        if (!r->modelDone) {
            r->modelDone = true;
            r->modelOutcome = QStringLiteral("send-error");
        }
    (void)why;
}

static std::shared_ptr<Req> doSend(World &w, Ctx &c, const QString &to, const QString &wantedId, int reentrant);

static void onCompleted(World &w, Ctx &c, const std::shared_ptr<Req> &r, QXmppClient::IqResult &&res)
{
    r->completions++;
    if (auto *el = std::get_if<QDomElement>(&res)) {
        r->outcome = QStringLiteral("result:") + el->firstChildElement().tagName();
    } else {
        auto &err = std::get<QXmppError>(res);
        r->outcome = err.holdsType<QXmppStanza::Error>() ? QStringLiteral("stanza-error") : QStringLiteral("send-error");
    }
    if (r->reentrant == 1) {
        w.history += " [handler of " + q(r->id) + ": send]";
        doSend(w, c, QStringLiteral("bob@example.org/desk"), QString(), 0);
    } else if (r->reentrant == 2 && w.open) {
        w.history += " [handler of " + q(r->id) + ": close session]";
        w.open = false;
        modelCancelAll(w, "closed from handler");
        w.client->setSmCanResume(false);
        w.client->closeSession();
    }
}

static std::shared_ptr<Req> doSend(World &w, Ctx &c, const QString &to, const QString &wantedId, int reentrant)
{
    auto r = std::make_shared<Req>();
    r->to = to;
    r->reentrant = reentrant;
    QXmppIq iq(QXmppIq::Get);
    iq.setTo(to);
    iq.setId(wantedId);
    TestClient &cl = *w.client;
    int before = cl.sent.size();
    auto task = cl.sendIq(std::move(iq));
    // the id actually used (the library replaces empty and duplicate ids)
    for (int i = cl.sent.size() - 1; i >= before; i--) {
        auto p = xu::parseFragment(cl.sent[i]);
        if (p.ok() && p.el.tagName() == u"iq") {
            r->id = p.el.attribute(QStringLiteral("id"));
            break;
        }
    }
    r->expectedFrom = to.isEmpty() ? QStringLiteral("alice@example.org") : to;
    w.reqs.push_back(r);
    if (!w.open) {
        // nothing can be sent: the request must fail at once
        r->modelDone = true;
        r->modelOutcome = QStringLiteral("send-error");
    }
    World *wp = &w;
    Ctx *cp = &c;
    task.then(&cl, [wp, cp, r](QXmppClient::IqResult &&res) { onCompleted(*wp, *cp, r, std::move(res)); });
    return r;
}

static void check(World &w, Ctx &c, const char *when)
{
    for (auto &r : w.reqs) {
        c.require(r->completions <= 1, "c07 completed-more-than-once", "request " + q(r->id) + " (to '" + q(r->to) + "') completed " + std::to_string(r->completions) + " times (" + when + ")\n history:" + w.history);
        bool done = r->completions == 1;
        if (done != r->modelDone) {
            c.fail(std::string("c07 completion-differs-from-model ") + (done ? "completed-though-not-due" : "not-completed-though-due"),
                   "request " + q(r->id) + " (to '" + q(r->to) + "'): " + (done ? "completed with " + q(r->outcome) : std::string("still pending")) + ", model: " +
                       (r->modelDone ? "completed with " + q(r->modelOutcome) : std::string("pending")) + " (" + when + ")\n history:" + w.history);
        }
        if (done && r->modelDone)
            c.require(r->outcome == r->modelOutcome, "c07 completed-with-wrong-value", "request " + q(r->id) + " completed with " + q(r->outcome) + ", model says " + q(r->modelOutcome) + " (" + when + ")\n history:" + w.history);
    }
}

VCHECK("c07.iq", 300)
{
    TestClient::resetIdCounter();
    World w;
    w.client = std::make_unique<TestClient>(QXmppClient::NoExtensions);
    TestClient &cl = *w.client;
    cl.beginSession(true, false);
    w.open = true;
    w.sm = true;
    cl.pump(1);
    int steps = 2 + int(t.u(38));
    for (int step = 0; step < steps; step++) {
        uint32_t op = t.weighted({ 5, 8, 1, 1, 2, 3 });
        std::vector<std::shared_ptr<Req>> pending;
        for (auto &r : w.reqs)
            if (!r->modelDone)
                pending.push_back(r);
        switch (op) {
        case 0: {   // send
            if (pending.size() >= 8)
                break;
            QString to = t.pick<QString>({ "", "alice@example.org", "alice@example.org/phone", "example.org", "bob@example.org", "bob@example.org/desk", "room@muc.example.org", "mallory@evil.example/x" });
            QString id;
            std::string idKind;
            switch (t.u(4)) {
            case 0: idKind = "auto"; break;
            case 1:
                if (!pending.empty()) {
                    id = pending[t.u(uint32_t(pending.size()))]->id;
                    idKind = "duplicate-of-pending";
                    w.interesting = true;
                    break;
                }
                [[fallthrough]];
            default: id = QStringLiteral("req%1").arg(++w.nextId); idKind = "explicit"; break;
            }
            int reentrant = int(t.weighted({ 6, 1, 1 }));
            if (reentrant)
                w.interesting = true;
            w.history += " send(to='" + q(to) + "',id=" + idKind + (reentrant == 1 ? ",handler-sends" : reentrant == 2 ? ",handler-closes" : "") + ")";
            auto r = doSend(w, c, to, id, reentrant);
            w.history += "=" + q(r->id);
            break;
        }
        case 1: {   // a stanza carrying the id of a pending request
            if (pending.empty())
                break;
            auto r = pending[t.u(uint32_t(pending.size()))];
            QString type = t.pick<QString>({ "result", "result", "result", "error", "get", "set", "" });
            QString from;
            bool fromAbsent = false, authentic = false;
            std::string fk;
            QString bare = r->expectedFrom.section(u'/', 0, 0), res = r->expectedFrom.section(u'/', 1);
            switch (t.u(9)) {
            case 0:
            case 1:
            case 2: from = r->expectedFrom; authentic = true; fk = "addressee"; break;
            case 3: fromAbsent = true; authentic = true; fk = "absent"; break;
            case 4: from = res.isEmpty() ? bare + QStringLiteral("/mallory") : bare; fk = res.isEmpty() ? "full-jid-of-addressed-bare" : "bare-of-addressed-full"; break;
            case 5: from = bare + QStringLiteral("/other"); fk = "other-resource"; if (from == r->expectedFrom) { authentic = true; } break;
            case 6: from = QStringLiteral("mallory@evil.example/x"); fk = "stranger"; if (from == r->expectedFrom) { authentic = true; } break;
            case 7: from = r->expectedFrom + t.pick<QString>({ ".", "x", " " }); fk = "look-alike"; break;
            case 8: from = r->expectedFrom.left(1).toUpper() + r->expectedFrom.mid(1); fk = "case-variant"; if (from == r->expectedFrom) { authentic = true; } break;
            }
            if (!authentic)
                w.interesting = w.interesting || pending.size() >= 2;
            QString payload = t.pick<QString>({ "<query xmlns='urn:verif:payload'/>", "", "<unexpected xmlns='urn:verif:other'/>" });
            QString xml = QStringLiteral("<iq id=\"%1\"").arg(r->id.toHtmlEscaped());
            if (!type.isEmpty())
                xml += QStringLiteral(" type='%1'").arg(type);
            if (!fromAbsent)
                xml += QStringLiteral(" from=\"%1\"").arg(from.toHtmlEscaped());
            xml += u'>';
            bool malformedError = false;
            if (type == u"error") {
                malformedError = t.prob(1, 3);
                xml += malformedError ? QString() : QStringLiteral("<error type='cancel'><item-not-found xmlns='urn:ietf:params:xml:ns:xmpp-stanzas'/></error>");
            } else {
                xml += payload;
            }
            xml += QStringLiteral("</iq>");
            w.history += " stanza(id of " + q(r->id) + ",type=" + (type.isEmpty() ? "<none>" : q(type)) + ",from=" + fk + ")";
            c.label("stanza-with-pending-id:from=" + fk);
            c.label("stanza-with-pending-id:type=" + (type.isEmpty() ? std::string("<none>") : q(type)) + (malformedError ? "(no <error/>)" : ""));
            bool isReply = type == u"result" || type == u"error";
            if (isReply && authentic && w.open) {
                r->modelDone = true;
                if (type == u"error")
                    r->modelOutcome = QStringLiteral("stanza-error");
                else {
                    auto p = xu::parseFragment(xml);
                    r->modelOutcome = QStringLiteral("result:") + p.el.firstChildElement().tagName();
                }
                // re-entrant effects are applied by the handler itself (onCompleted) on the model too
            }
            if (w.open) {
                if (type.isEmpty())
                    w.clientEndedStream = true;   // "Unexpected element received": the client ends the stream cleanly
                cl.injectXml(xml);
            }
            break;
        }
        case 2: {   // duplicate reply for a request that is already complete
            std::shared_ptr<Req> done;
            for (auto &r : w.reqs)
                if (r->modelDone && !r->id.isEmpty())
                    done = r;
            if (!done || !w.open)
                break;
            w.history += " duplicate-reply(" + q(done->id) + ")";
            cl.injectXml(QStringLiteral("<iq type='result' id=\"%1\" from=\"%2\"/>").arg(done->id.toHtmlEscaped(), done->expectedFrom.toHtmlEscaped()));
            break;
        }
        case 3:
            if (!w.open)
                break;
            w.history += " unrelated-iq";
            cl.injectXml(QStringLiteral("<iq type='result' id='nobody-asked' from='bob@example.org/desk'/>"));
            break;
        case 4: {   // disconnect
            if (!w.open)
                break;
            const bool negotiated = w.sm && w.serverAllowsResume >= 0;
            bool resumable = negotiated ? (w.serverAllowsResume == 1 && !w.clientEndedStream) : (w.sm && t.b());
            w.history += resumable ? " disconnect(resumable)" : " disconnect(not-resumable)";
            c.label(std::string(resumable ? "disconnect(resumable)" : "disconnect(not-resumable)") + (pending.empty() ? "" : " with requests pending"));
            if (!pending.empty())
                w.interesting = true;
            w.open = false;
            if (!resumable)
                modelCancelAll(w, "closed");
            if (!negotiated)
                cl.setSmCanResume(resumable);
            cl.closeSession();
            break;
        }
        case 5: {   // reconnect
            if (w.open)
                break;
            int kind = int(t.u(3));   // 0 resumed, 1 new with sm, 2 new without sm
            bool canResume = cl.c2s().canResume();
            if (kind == 0 && !canResume)
                kind = 1;
            w.history += kind == 0 ? " reconnect(resumed)" : kind == 1 ? " reconnect(new,sm)" : " reconnect(new,no-sm)";
            c.label(std::string(kind == 0 ? "reconnect(resumed)" : kind == 1 ? "reconnect(new,sm)" : "reconnect(new,no-sm)") + (pending.empty() ? "" : " with requests pending"));
            if (kind != 0)
                modelCancelAll(w, "new session");
            w.sm = kind != 2;
            w.open = true;
            w.serverAllowsResume = -1;
            w.clientEndedStream = false;
            if (kind == 1 && t.b()) {
                // a new session on which stream management is enabled by the real exchange: <enable/> out, <enabled/> in,
                // with or without permission to resume
                auto &c2s = cl.c2s();
                c2s.onStreamStart();
                cl.setAuthenticated(true);
                auto task = c2s.requestEnable();
                w.serverAllowsResume = t.b() ? 1 : 0;
                auto p = xu::parseFragment(w.serverAllowsResume ? QStringLiteral("<enabled xmlns='urn:xmpp:sm:3' id='sid' resume='true'/>") : QStringLiteral("<enabled xmlns='urn:xmpp:sm:3' id='sid'/>"));
                c2s.handleElement(p.el);
                cl.openSession();
                w.history += w.serverAllowsResume ? "[<enabled resume/>]" : "[<enabled/> without resume]";
                c.label(w.serverAllowsResume ? "negotiated:<enabled resume/>" : "negotiated:<enabled/> without resume");
                break;
            }
            cl.beginSession(kind != 2, kind == 0);
            break;
        }
        }
        cl.pump(1);
        if (getenv("C07_DEBUG"))
            w.history += std::string("{cr=") + (cl.c2s().canResume() ? "1" : "0") + "}";
        check(w, c, "after step");
    }
    // final non-resumable close: every request must have completed exactly once
    if (w.open) {
        cl.setSmCanResume(false);
        w.open = false;
        modelCancelAll(w, "final close");
        cl.closeSession();
    } else {
        // a session that stays down without being resumable: the new session that replaces it cancels the rest
        modelCancelAll(w, "final new session");
        cl.beginSession(false, false);
        cl.setSmCanResume(false);
        cl.closeSession();
    }
    cl.pump(1);
    w.history += " final-close";
    check(w, c, "at the end");
    for (auto &r : w.reqs)
        c.label("request-completed-with:" + q(r->modelOutcome.section(u':', 0, 0)));
    for (auto &r : w.reqs)
        c.require(r->completions == 1, "c07 request-left-pending", "request " + q(r->id) + " completed " + std::to_string(r->completions) + " times at the end of the history\n history:" + w.history);
    if (w.interesting)
        c.nontrivial(vh::fnv(w.history));
    c.sample([&] { return w.history; });
}

// ---- manager request APIs ---------------------------------------------------------------------------------------
struct Api {
    const char *name;
    // starts the request; calls done() exactly when the returned task completes
    std::function<void(TestClient &, tc::Storages &, std::function<void()>)> start;
};
template<typename Task>
static void watch(TestClient &cl, Task task, std::function<void()> done)
{
    task.then(&cl, [done](auto &&) { done(); });
}
static const std::vector<Api> &apis()
{
    static const std::vector<Api> a = {
        { "client.sendIq", [](TestClient &c, tc::Storages &, std::function<void()> d) { QXmppIq iq(QXmppIq::Get); iq.setTo("bob@example.org/desk"); watch(c, c.sendIq(std::move(iq)), d); } },
        { "client.sendGenericIq", [](TestClient &c, tc::Storages &, std::function<void()> d) { QXmppIq iq(QXmppIq::Set); iq.setTo("example.org"); watch(c, c.sendGenericIq(std::move(iq)), d); } },
        { "discovery.requestDiscoInfo", [](TestClient &c, tc::Storages &, std::function<void()> d) { watch(c, c.findExtension<QXmppDiscoveryManager>()->requestDiscoInfo("example.org"), d); } },
        { "discovery.requestDiscoItems", [](TestClient &c, tc::Storages &, std::function<void()> d) { watch(c, c.findExtension<QXmppDiscoveryManager>()->requestDiscoItems("example.org"), d); } },
        { "mam.retrieveMessages", [](TestClient &c, tc::Storages &, std::function<void()> d) { watch(c, c.findExtension<QXmppMamManager>()->retrieveMessages(), d); } },
        { "pubsub.requestNodes", [](TestClient &c, tc::Storages &, std::function<void()> d) { watch(c, c.findExtension<QXmppPubSubManager>()->requestNodes("pubsub.example.org"), d); } },
        { "pubsub.createNode", [](TestClient &c, tc::Storages &, std::function<void()> d) { watch(c, c.findExtension<QXmppPubSubManager>()->createNode("pubsub.example.org", "n1"), d); } },
        { "pubsub.deleteNode", [](TestClient &c, tc::Storages &, std::function<void()> d) { watch(c, c.findExtension<QXmppPubSubManager>()->deleteNode("pubsub.example.org", "n1"), d); } },
        { "pubsub.requestItemIds", [](TestClient &c, tc::Storages &, std::function<void()> d) { watch(c, c.findExtension<QXmppPubSubManager>()->requestItemIds("pubsub.example.org", "n1"), d); } },
        { "pubsub.requestItems", [](TestClient &c, tc::Storages &, std::function<void()> d) { watch(c, c.findExtension<QXmppPubSubManager>()->requestItems<QXmppPubSubBaseItem>("pubsub.example.org", "n1"), d); } },
        { "pubsub.retractItem", [](TestClient &c, tc::Storages &, std::function<void()> d) { watch(c, c.findExtension<QXmppPubSubManager>()->retractItem("pubsub.example.org", "n1", QString("i1")), d); } },
        { "pubsub.purgeItems", [](TestClient &c, tc::Storages &, std::function<void()> d) { watch(c, c.findExtension<QXmppPubSubManager>()->purgeItems("pubsub.example.org", "n1"), d); } },
        { "pubsub.requestSubscriptions", [](TestClient &c, tc::Storages &, std::function<void()> d) { watch(c, c.findExtension<QXmppPubSubManager>()->requestSubscriptions("pubsub.example.org"), d); } },
        { "pubsub.requestNodeAffiliations", [](TestClient &c, tc::Storages &, std::function<void()> d) { watch(c, c.findExtension<QXmppPubSubManager>()->requestNodeAffiliations("pubsub.example.org", "n1"), d); } },
        { "pubsub.requestOwnPepNodes", [](TestClient &c, tc::Storages &, std::function<void()> d) { watch(c, c.findExtension<QXmppPubSubManager>()->requestOwnPepNodes(), d); } },
        { "pubsub.requestNodeConfiguration", [](TestClient &c, tc::Storages &, std::function<void()> d) { watch(c, c.findExtension<QXmppPubSubManager>()->requestNodeConfiguration("pubsub.example.org", "n1"), d); } },
        { "roster.addRosterItem", [](TestClient &c, tc::Storages &, std::function<void()> d) { watch(c, c.findExtension<QXmppRosterManager>()->addRosterItem("bob@example.org", "Bob"), d); } },
        { "roster.removeRosterItem", [](TestClient &c, tc::Storages &, std::function<void()> d) { watch(c, c.findExtension<QXmppRosterManager>()->removeRosterItem("bob@example.org"), d); } },
        { "roster.renameRosterItem", [](TestClient &c, tc::Storages &, std::function<void()> d) { watch(c, c.findExtension<QXmppRosterManager>()->renameRosterItem("bob@example.org", "B"), d); } },
        { "vcard.fetchVCard", [](TestClient &c, tc::Storages &, std::function<void()> d) { watch(c, c.findExtension<QXmppVCardManager>()->fetchVCard("bob@example.org"), d); } },
        { "blocking.fetchBlocklist", [](TestClient &c, tc::Storages &, std::function<void()> d) { watch(c, c.findExtension<QXmppBlockingManager>()->fetchBlocklist(), d); } },
        { "blocking.block", [](TestClient &c, tc::Storages &, std::function<void()> d) { watch(c, c.findExtension<QXmppBlockingManager>()->block("mallory@evil.example"), d); } },
        { "blocking.unblock", [](TestClient &c, tc::Storages &, std::function<void()> d) { watch(c, c.findExtension<QXmppBlockingManager>()->unblock("mallory@evil.example"), d); } },
        { "entityTime.requestEntityTime", [](TestClient &c, tc::Storages &, std::function<void()> d) { watch(c, c.findExtension<QXmppEntityTimeManager>()->requestEntityTime("bob@example.org/desk"), d); } },
        { "externalServices.requestServices", [](TestClient &c, tc::Storages &, std::function<void()> d) { watch(c, c.findExtension<QXmppExternalServiceDiscoveryManager>()->requestServices("example.org"), d); } },
        { "uploadRequest-less mix.requestChannelJids", [](TestClient &c, tc::Storages &, std::function<void()> d) { watch(c, c.findExtension<QXmppMixManager>()->requestChannelJids("mix.example.org"), d); } },
        { "mix.requestChannelInformation", [](TestClient &c, tc::Storages &, std::function<void()> d) { watch(c, c.findExtension<QXmppMixManager>()->requestChannelInformation("coven@mix.example.org"), d); } },
        { "mix.requestParticipants", [](TestClient &c, tc::Storages &, std::function<void()> d) { watch(c, c.findExtension<QXmppMixManager>()->requestParticipants("coven@mix.example.org"), d); } },
        { "mix.joinChannel", [](TestClient &c, tc::Storages &, std::function<void()> d) { watch(c, c.findExtension<QXmppMixManager>()->joinChannel("coven@mix.example.org", "nick"), d); } },
        { "mix.leaveChannel", [](TestClient &c, tc::Storages &, std::function<void()> d) { watch(c, c.findExtension<QXmppMixManager>()->leaveChannel("coven@mix.example.org"), d); } },
        { "moved.verifyStatement", [](TestClient &c, tc::Storages &, std::function<void()> d) { watch(c, c.findExtension<QXmppMovedManager>()->verifyStatement("old@example.org", "new@example.org"), d); } },
        { "userTune.request", [](TestClient &c, tc::Storages &, std::function<void()> d) { watch(c, c.findExtension<QXmppUserTuneManager>()->request("bob@example.org"), d); } },
        { "userLocation.request", [](TestClient &c, tc::Storages &, std::function<void()> d) { watch(c, c.findExtension<QXmppUserLocationManager>()->request("bob@example.org"), d); } },
    };
    return a;
}

VCHECK("c07.managers", 60)
{
    TestClient::resetIdCounter();
    tc::Storages st;
    TestClient cl(QXmppClient::NoExtensions);
    tc::installAllManagers(cl, st, false);
    bool withE2ee = false;
    cl.beginSession(true, false);
    cl.pump(2);
    // answer everything the managers ask on their own at session start with an error, so only our request is open
    auto drainStartup = [&] {
        for (int round = 0; round < 4; round++) {
            QStringList out = cl.take();
            bool any = false;
            for (auto &x : out) {
                auto p = xu::parseFragment(x);
                if (p.ok() && p.el.tagName() == u"iq" && (p.el.attribute("type") == u"get" || p.el.attribute("type") == u"set")) {
                    any = true;
                    QString from = p.el.attribute("to");
                    cl.injectXml(QStringLiteral("<iq type='error' id=\"%1\"%2><error type='cancel'><service-unavailable xmlns='urn:ietf:params:xml:ns:xmpp-stanzas'/></error></iq>")
                                     .arg(p.el.attribute("id").toHtmlEscaped(), from.isEmpty() ? QString() : QStringLiteral(" from=\"%1\"").arg(from.toHtmlEscaped())));
                }
            }
            cl.pump(2);
            if (!any)
                break;
        }
    };
    drainStartup();

    const auto &tab = apis();
    const Api &api = tab[t.u(uint32_t(tab.size()))];
    int behaviour = int(t.u(5));   // 0 empty result, 1 error, 2 unexpected payload, 3 silence then non-resumable disconnect, 4 result with no child then disconnect
    static const char *bn[] = { "empty-result", "error", "unexpected-payload", "silence-then-disconnect", "error-without-error-element" };
    std::string desc = std::string(api.name) + " x " + bn[behaviour] + (withE2ee ? " +e2ee" : "");
    c.sample([&] { return desc; });
    c.nontrivial(vh::fnv(desc));
    int completions = 0;
    api.start(cl, st, [&completions] { completions++; });
    cl.pump(1);
    // serve every request the API (and whatever it triggers) sends, up to 6 rounds
    for (int round = 0; round < 6 && completions == 0; round++) {
        QStringList out = cl.take();
        bool any = false;
        for (auto &x : out) {
            auto p = xu::parseFragment(x);
            if (!p.ok() || p.el.tagName() != u"iq" || (p.el.attribute("type") != u"get" && p.el.attribute("type") != u"set"))
                continue;
            any = true;
            QString id = p.el.attribute("id").toHtmlEscaped(), to = p.el.attribute("to");
            QString fromAttr = to.isEmpty() ? QString() : QStringLiteral(" from=\"%1\"").arg(to.toHtmlEscaped());
            switch (behaviour) {
            case 0: cl.injectXml(QStringLiteral("<iq type='result' id=\"%1\"%2/>").arg(id, fromAttr)); break;
            case 1: cl.injectXml(QStringLiteral("<iq type='error' id=\"%1\"%2><error type='cancel'><item-not-found xmlns='urn:ietf:params:xml:ns:xmpp-stanzas'/></error></iq>").arg(id, fromAttr)); break;
            case 2: cl.injectXml(QStringLiteral("<iq type='result' id=\"%1\"%2><unexpected xmlns='urn:verif:other'><child/></unexpected></iq>").arg(id, fromAttr)); break;
            case 3: break;
            case 4: cl.injectXml(QStringLiteral("<iq type='error' id=\"%1\"%2/>").arg(id, fromAttr)); break;
            }
        }
        cl.pump(2);
        if (!any || behaviour == 3)
            break;
    }
    if (completions == 0) {
        // the session ends and cannot be resumed: whatever is still open must complete now
        cl.setSmCanResume(false);
        cl.closeSession();
        cl.pump(3);
    }
    c.require(completions >= 1, std::string("c07 manager-request-never-completes ") + api.name + " " + bn[behaviour], "the task returned by " + desc + " never completed, not even after a non-resumable disconnect");
    c.require(completions == 1, std::string("c07 manager-request-completes-twice ") + api.name, "the task returned by " + desc + " completed " + std::to_string(completions) + " times");
    if (cl.sessionStarted())
        cl.closeSession();
    cl.pump(1);
}

VH_MAIN()
