// C00 — self-test of common/codec_registry.h (not one of the 20 properties).
//
//   c00.selftest  loads a JSON array of XML element strings from $VERIF_SEEDS, parses each inside a
//                 <stream:stream> wrapper (namespace processing on) and, for every document and every
//                 registered codec, calls accepts(doc) and - when accepted - parseSerialize(doc).
//                 The first case walks the whole seeds x codecs matrix and prints a table
//                 "codec accepted=N" to stderr; later cases walk one tape-chosen document.
//                 The only oracle is "no crash, no assertion, no sanitizer report".
//
// Set VERIF_SELFTEST_DESCEND=1 to additionally feed every descendant element of every seed (nested
// payloads such as <hash/>, <enable xmlns='urn:xmpp:sm:3'/> only occur inside larger test documents).
// Set VERIF_SELFTEST_TRACE=1 to print every (codec, seed index) pair before it runs, which names the
// culprit when a library parser aborts.
#include "vharness.h"

#include "codec_registry.h"

#include <QDomDocument>
#include <QFile>
#include <QJsonArray>
#include <QJsonDocument>

using vh::Ctx;
using vh::Tape;

namespace {

struct Seed {
    QString xml;
    QDomDocument doc;   // keeps the tree alive
    QDomElement el;     // first child element of the wrapper
};

struct Seeds {
    std::vector<Seed> ok;
    size_t total = 0, unparsable = 0, nested = 0;
};

// (codec name, substring of the seed) pairs that make a LIBRARY parser crash / assert.  They are
// skipped here so that the rest of the matrix is still exercised; the registry itself has no such list.
struct Skip {
    const char *codec;
    const char *seedSubstring;
};
const Skip kSkip[] = {
    { nullptr, nullptr },   // (none so far)
};

// Documents for the codecs that no unit-test XML of /repo/tests reaches (appended to $VERIF_SEEDS), so
// that every registered codec runs at least once.
const char *const kBuiltin[] = {
    "<db:result xmlns:db='jabber:server:dialback' from='a.example' to='b.example'>1e701f120f66824b57303384e83b51feba858024fd2221d39f7acc52dcf767a9</db:result>",
    "<db:verify xmlns:db='jabber:server:dialback' from='a.example' to='b.example' id='417GAF25' type='valid'/>",
    "<enable xmlns='urn:xmpp:sm:3' resume='true' max='600'/>",
    "<enabled xmlns='urn:xmpp:sm:3' id='some-long-sm-id' resume='true' max='600' location='[2001:41D0:1:A49b::1]:9222'/>",
    "<resume xmlns='urn:xmpp:sm:3' h='7' previd='some-long-sm-id'/>",
    "<resumed xmlns='urn:xmpp:sm:3' h='9' previd='some-long-sm-id'/>",
    "<failed xmlns='urn:xmpp:sm:3' h='3'><item-not-found xmlns='urn:ietf:params:xml:ns:xmpp-stanzas'/></failed>",
    "<a xmlns='urn:xmpp:sm:3' h='4294967295'/>",
    "<r xmlns='urn:xmpp:sm:3'/>",
    "<iq id='c2s1' from='juliet@capulet.lit/balcony' to='capulet.lit' type='get'><ping xmlns='urn:xmpp:ping'/></iq>",
    "<iq id='pref1' type='get'><pref xmlns='urn:xmpp:archive'/></iq>",
    "<iq id='rpc1' type='error' from='responder@company-a.com/jrpc-server' to='requester@company-b.com/jrpc-client'>"
    "<query xmlns='jabber:iq:rpc'><methodCall><methodName>examples.getStateName</methodName><params><param><value><i4>6</i4></value></param></params></methodCall></query>"
    "<error code='403' type='auth'><forbidden xmlns='urn:ietf:params:xml:ns:xmpp-stanzas'/></error></iq>",
    "<iq id='ban1' from='kinghenryv@shakespeare.lit/throne' to='southampton@chat.shakespeare.lit' type='set'>"
    "<query xmlns='http://jabber.org/protocol/muc#admin'><item affiliation='outcast' jid='earlofcambridge@shakespeare.lit' nick='cam' role='none'><reason>Treason</reason></item></query></iq>",
    "<iq id='config1' from='coven@chat.shakespeare.lit' to='crone1@shakespeare.lit/desktop' type='result'>"
    "<query xmlns='http://jabber.org/protocol/muc#owner'><x xmlns='jabber:x:data' type='form'><title>Configuration</title>"
    "<field type='hidden' var='FORM_TYPE'><value>http://jabber.org/protocol/muc#roomconfig</value></field></x></query></iq>",
    "<iq id='jn3h8g65' from='romeo@montague.net/orchard' to='juliet@capulet.com/balcony' type='set'><open xmlns='http://jabber.org/protocol/ibb' block-size='4096' sid='i781hf64' stanza='iq'/></iq>",
    "<iq id='us71g45j' from='romeo@montague.net/orchard' to='juliet@capulet.com/balcony' type='set'><close xmlns='http://jabber.org/protocol/ibb' sid='i781hf64'/></iq>",
    "<iq id='kr91n475' from='romeo@montague.net/orchard' to='juliet@capulet.com/balcony' type='set'><data xmlns='http://jabber.org/protocol/ibb' seq='0' sid='i781hf64'>qANQR1DBwU4DX7jmYZnncmUQB/9KuKBddzQH+tZ1ZywKK0yHKnq57kWq+RFtQdCJ</data></iq>",
    "<iq id='mySOCKS5_1' from='requester@example.com/foo' to='target@example.org/bar' type='set'>"
    "<query xmlns='http://jabber.org/protocol/bytestreams' sid='vxf9n471bn46' mode='tcp'><streamhost host='192.168.4.1' jid='requester@example.com/foo' port='5086'/>"
    "<streamhost host='24.24.24.1' jid='streamer.example.com' zeroconf='_jabber.bytestreams'/></query></iq>",
    "<iq id='mySOCKS5_2' from='target@example.org/bar' to='requester@example.com/foo' type='result'>"
    "<query xmlns='http://jabber.org/protocol/bytestreams' sid='vxf9n471bn46'><streamhost-used jid='streamer.example.com'/></query></iq>",
    "<storage xmlns='storage:bookmarks'><conference name='Council of Oberon' autojoin='true' jid='council@conference.underhill.org'><nick>Puck</nick></conference>"
    "<url name='Complete Works of Shakespeare' url='http://the-tech.mit.edu/Shakespeare/'/></storage>",
    "<hash-used xmlns='urn:xmpp:hashes:2' algo='sha-256'/>",
};

bool skipped(const codec::Codec &cd, const Seed &s)
{
    for (const Skip &k : kSkip) {
        if (k.codec && !strcmp(k.codec, cd.name) && s.xml.contains(QString::fromUtf8(k.seedSubstring))) {
            return true;
        }
    }
    return false;
}

const Seeds &seeds()
{
    static const Seeds S = [] {
        Seeds r;
        const bool descend = getenv("VERIF_SELFTEST_DESCEND") != nullptr;
        const char *path = getenv("VERIF_SEEDS");
        if (!path) {
            fprintf(stderr, "c00.selftest: VERIF_SEEDS is not set\n");
            return r;
        }
        QFile f(QString::fromLocal8Bit(path));
        if (!f.open(QIODevice::ReadOnly)) {
            fprintf(stderr, "c00.selftest: cannot open %s\n", path);
            return r;
        }
        const QJsonArray arr = QJsonDocument::fromJson(f.readAll()).array();
        QStringList texts;
        for (const auto &v : arr) {
            texts << v.toString();
        }
        for (const char *b : kBuiltin) {
            texts << QString::fromUtf8(b);
        }
        r.total = size_t(texts.size());
        for (const QString &text : std::as_const(texts)) {
            Seed s;
            s.xml = text;
            const QString wrapped = QStringLiteral("<stream:stream xmlns='jabber:client' xmlns:stream='http://etherx.jabber.org/streams'>") +
                s.xml + QStringLiteral("</stream:stream>");
            if (!s.doc.setContent(wrapped, /*namespaceProcessing=*/true)) {
                r.unparsable++;
                continue;
            }
            s.el = s.doc.documentElement().firstChildElement();
            if (s.el.isNull()) {
                r.unparsable++;
                continue;
            }
            r.ok.push_back(s);
            if (descend) {
                // every descendant element becomes a seed of its own (same document, same xml text)
                std::vector<QDomElement> stack { s.el };
                while (!stack.empty()) {
                    const QDomElement parent = stack.back();
                    stack.pop_back();
                    for (QDomElement ch = parent.firstChildElement(); !ch.isNull(); ch = ch.nextSiblingElement()) {
                        Seed sub = s;
                        sub.el = ch;
                        r.ok.push_back(sub);
                        r.nested++;
                        stack.push_back(ch);
                    }
                }
            }
        }
        return r;
    }();
    return S;
}

// runs one seed through every codec; returns the number of codecs that accepted it
size_t runSeed(const Seed &s, size_t index, std::vector<uint64_t> *accepted, std::vector<uint64_t> *empty, Ctx &c)
{
    static const bool trace = getenv("VERIF_SELFTEST_TRACE") != nullptr;
    const auto &codecs = codec::all();
    size_t n = 0;
    for (size_t i = 0; i < codecs.size(); i++) {
        const codec::Codec &cd = codecs[i];
        if (skipped(cd, s)) {
            c.label("skipped-pair");
            continue;
        }
        if (trace) {
            fprintf(stderr, "TRACE %s seed#%zu\n", cd.name, index);
        }
        if (!cd.accepts(s.el)) {
            continue;
        }
        n++;
        if (accepted) {
            (*accepted)[i]++;
        }
        const QByteArray out = cd.parseSerialize(s.el);
        // An empty result is legal (e.g. QXmppJingleRtpCryptoElement writes nothing when mandatory
        // attributes are missing), so it is only counted.
        if (out.isEmpty() && empty) {
            (*empty)[i]++;
        }
    }
    return n;
}

}  // namespace

VCHECK("c00.selftest", 8)
{
    const Seeds &S = seeds();
    const auto &codecs = codec::all();
    c.require(!S.ok.empty(), "c00.selftest no-seeds", "no usable seed document (VERIF_SEEDS unset, unreadable or empty)");
    if (S.ok.empty()) {
        return;
    }

    static bool first = true;
    if (first) {
        first = false;
        // registry sanity: names unique, both callbacks set
        std::set<std::string> names;
        for (const auto &cd : codecs) {
            c.require(cd.accepts && cd.parseSerialize, "c00.selftest empty-callback", std::string("codec without callbacks: ") + cd.name);
            c.require(names.insert(cd.name).second, "c00.selftest duplicate-name", std::string("duplicate codec name: ") + cd.name);
        }

        std::vector<uint64_t> accepted(codecs.size(), 0), empty(codecs.size(), 0);
        size_t pairs = 0;
        for (size_t k = 0; k < S.ok.size(); k++) {
            pairs += runSeed(S.ok[k], k, &accepted, &empty, c);
        }
        fprintf(stderr, "c00.selftest: %zu codecs, %zu seeds (%zu not well-formed in the wrapper), %zu elements tried (%zu of them nested), %zu accepted pairs\n",
                codecs.size(), S.total, S.unparsable, S.ok.size(), S.nested, pairs);
        size_t zero = 0;
        for (size_t i = 0; i < codecs.size(); i++) {
            fprintf(stderr, "%-48s %s accepted=%llu empty_output=%llu\n", codecs[i].name, codecs[i].typed ? "typed  " : "untyped",
                    static_cast<unsigned long long>(accepted[i]), static_cast<unsigned long long>(empty[i]));
            zero += accepted[i] == 0;
        }
        fprintf(stderr, "c00.selftest: %zu codecs accepted no seed\n", zero);
        c.nontrivial(vh::fnvInt(pairs));
        return;
    }

    const size_t k = t.u(uint32_t(S.ok.size()));
    const size_t n = runSeed(S.ok[k], k, nullptr, nullptr, c);
    c.label("accepting-codecs:" + std::to_string(std::min<size_t>(n / 8 * 8, 40)) + "+");
    c.nontrivial(vh::fnvInt(k));
}

VH_MAIN()
