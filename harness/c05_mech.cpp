// C05 — SASL negotiation picks the strongest permitted mechanism, never a disabled one (DESIGN.md C05).
// One body under two engines: "enum" walks the whole core space
//   offered subset of 10 names (canonical order) x disabled subset of 5 names x preferred (none | 10 names | unknown)
//   x password y/n x stored token (none | HT-SHA-256-NONE | HT-SHA3-512-NONE | HT-SHA-256-ENDP) x protocol
//   (SASL 1 | SASL 2 | SASL 2 + FAST enabled | SASL 2 + FAST offered but disabled in the configuration);
// "rapid" adds permutations, duplicates, unknown / garbled names, legacy X-* mechanisms and the default configuration.
// Oracle: a reference function written from the statement (not from the code), compared with the mechanism named
// in the first <auth/> / <authenticate/> the real SaslManager / Sasl2Manager sends, or with the reported
// mechanism mismatch and an empty wire.
#include "gens.h"
#include "xmlutil.h"

#include "QXmppConfiguration.h"
#include "QXmppLogger.h"
#include "QXmppSasl2UserAgent.h"
#include "QXmppSaslManager_p.h"
#include "QXmppSasl_p.h"
#include "XmppSocket.h"

#include <QUuid>

using vh::Ctx;
using vh::Tape;
using namespace QXmpp::Private;

static std::string q(const QString &s) { return vh::s(s); }

struct Wire : SendDataInterface {
    QList<QByteArray> sent;
    bool sendData(const QByteArray &d) override
    {
        sent << d;
        return true;
    }
};

static const QStringList &coreNames()
{
    static const QStringList n = { "SCRAM-SHA-1", "SCRAM-SHA-256", "SCRAM-SHA-512", "SCRAM-SHA3-512", "HT-SHA-256-NONE", "HT-SHA3-512-NONE",
                                   "HT-SHA-256-ENDP", "DIGEST-MD5", "PLAIN", "ANONYMOUS" };
    return n;
}
static const QStringList &disableable()
{
    static const QStringList n = { "PLAIN", "DIGEST-MD5", "SCRAM-SHA-1", "ANONYMOUS", "HT-SHA-256-NONE" };
    return n;
}

// ---- reference model, from the statement ---------------------------------------------------------------
// rank: token (by hash) > SCRAM (SHA3-512 > SHA-512 > SHA-256 > SHA-1) > DIGEST-MD5 > PLAIN > ANONYMOUS; 0 = not ranked/unknown
static int rankOf(const QString &m)
{
    if (m == u"HT-SHA3-512-NONE") return 92;
    if (m == u"HT-SHA-512-NONE") return 91;
    if (m == u"HT-SHA-256-NONE") return 90;
    if (m == u"SCRAM-SHA3-512") return 84;
    if (m == u"SCRAM-SHA-512") return 83;
    if (m == u"SCRAM-SHA-256") return 82;
    if (m == u"SCRAM-SHA-1") return 81;
    if (m == u"DIGEST-MD5") return 70;
    if (m == u"PLAIN") return 60;
    if (m == u"ANONYMOUS") return 50;
    return 0;
}
static bool isLegacyX(const QString &m) { return m == u"X-OAUTH2" || m == u"X-FACEBOOK-PLATFORM" || m == u"X-MESSENGER-OAUTH2"; }

struct Case {
    QStringList offered;      // as sent by the server (order, duplicates, junk)
    QStringList disabled;     // configuration
    bool defaultDisabled = false;   // do not touch the configuration's disabled list (PLAIN disabled by default)
    QString preferred;
    bool password = false;
    bool emptyPasswordSet = false;   // setPassword("") was called: an empty (not null) string is no password either
    QString token;            // mechanism the stored token is for ("" = none)
    bool googleToken = false;
    int protocol = 0;         // 0 SASL1, 1 SASL2, 2 SASL2+FAST enabled, 3 SASL2+FAST offered but FAST disabled in config
    std::string describe() const
    {
        return "offered=[" + q(offered.join(u",")) + "] disabled=" + (defaultDisabled ? std::string("<default>") : "[" + q(disabled.join(u",")) + "]") + " preferred='" + q(preferred) +
            "' password=" + (password ? "y" : emptyPasswordSet ? "empty-string" : "n") + " token='" + q(token) + "'" + (googleToken ? " google-token" : "") + " protocol=" +
            (protocol == 0 ? "SASL1" : protocol == 1 ? "SASL2" : protocol == 2 ? "SASL2+FAST" : "SASL2+FAST(disabled in config)");
    }
};

struct Expect {
    QStringList usable;
    QString chosen;       // exact expectation ("" with anyOfUsable=false => mismatch)
    bool anyOfUsable = false;   // a legacy X-* mechanism is usable: the statement gives no rank, only validity is required
};

static Expect reference(const Case &k)
{
    Expect e;
    QStringList disabled = k.defaultDisabled ? QStringList { "PLAIN" } : k.disabled;
    for (const auto &m : k.offered) {
        // FAST mechanisms (HT-*) are offered inside the <fast/> feature in SASL 2: only there when FAST is enabled in the configuration
        bool isHt = m.startsWith(u"HT-");
        if (isHt && (k.protocol == 1 || k.protocol == 3))
            continue;   // SASL2 without (usable) FAST: token mechanisms are not on offer
        if (disabled.contains(m))
            continue;
        bool usable = false;
        if (isHt)
            usable = rankOf(m) > 0 && k.token == m;   // supported (no channel binding) and the stored token is for exactly this mechanism
        else if (m.startsWith(u"SCRAM-") || m == u"DIGEST-MD5" || m == u"PLAIN")
            usable = rankOf(m) > 0 && k.password;
        else if (m == u"ANONYMOUS")
            usable = true;
        else if (m == u"X-OAUTH2")
            usable = k.googleToken;
        if (usable && !e.usable.contains(m))
            e.usable << m;
    }
    if (e.usable.isEmpty())
        return e;
    if (!k.preferred.isEmpty() && e.usable.contains(k.preferred)) {
        e.chosen = k.preferred;
        return e;
    }
    for (const auto &m : e.usable)
        if (isLegacyX(m))
            e.anyOfUsable = true;
    QString best;
    for (const auto &m : e.usable)
        if (best.isEmpty() || rankOf(m) > rankOf(best))
            best = m;
    e.chosen = best;
    return e;
}

static void runCase(Ctx &c, const Case &k)
{
    QXmppConfiguration cfg;
    cfg.setJid(QStringLiteral("alice@example.org"));
    if (k.password)
        cfg.setPassword(QStringLiteral("pencil"));
    else if (k.emptyPasswordSet)
        cfg.setPassword(QStringLiteral(""));
    if (!k.defaultDisabled)
        cfg.setDisabledSaslMechanisms(k.disabled);
    if (!k.preferred.isEmpty())
        cfg.setSaslAuthMechanism(k.preferred);
    if (!k.token.isEmpty()) {
        auto ht = SaslHtMechanism::fromString(k.token);
        if (ht)
            cfg.credentialData().htToken = HtToken { *ht, QStringLiteral("s3cr3t-token"), QDateTime::currentDateTimeUtc().addDays(7) };
    }
    if (k.googleToken)
        cfg.credentialData().googleAccessToken = QStringLiteral("ya29.token");
    cfg.setUseFastTokenAuthentication(k.protocol != 3);
    if (k.protocol >= 2 || k.protocol == 1)
        cfg.setSasl2UserAgent(QXmppSasl2UserAgent(QUuid::fromString(QStringLiteral("d4565fa7-4d72-4749-b3d3-740edbf87770")), QStringLiteral("verif"), QStringLiteral("harness")));

    Wire wire;
    QXmppLoggable loggable;
    QString sentMechanism;
    bool mismatch = false, otherError = false;
    QString errorText;
    if (k.protocol == 0) {
        SaslManager mgr(&wire);
        auto task = mgr.authenticate(cfg, k.offered, &loggable);
        if (task.isFinished()) {
            auto r = task.takeResult();
            if (auto *err = std::get_if<SaslManager::AuthError>(&r)) {
                errorText = err->first;
                mismatch = err->second.type == QXmpp::AuthenticationError::MechanismMismatch;
                otherError = !mismatch;
            }
        }
    } else {
        Sasl2::StreamFeature feature;
        FastFeature fast;
        for (const auto &m : k.offered) {
            if (m.startsWith(u"HT-") && k.protocol >= 2)
                fast.mechanisms.push_back(m);
            else if (!m.startsWith(u"HT-"))
                feature.mechanisms << m;
        }
        if (k.protocol >= 2)
            feature.fast = fast;
        Sasl2Manager mgr(&wire);
        auto task = mgr.authenticate(Sasl2::Authenticate(), cfg, feature, &loggable);
        if (task.isFinished()) {
            auto r = task.takeResult();
            if (auto *err = std::get_if<Sasl2Manager::AuthError>(&r)) {
                errorText = err->first;
                mismatch = err->second.type == QXmpp::AuthenticationError::MechanismMismatch;
                otherError = !mismatch;
            }
        }
    }
    if (!wire.sent.isEmpty()) {
        auto p = xu::parseFragment(wire.sent.first());
        c.require(p.ok(), "c05 first-packet-not-xml", "first packet is not well-formed: " + wire.sent.first().toStdString());
        sentMechanism = p.el.attribute(QStringLiteral("mechanism"));
        c.require(p.el.tagName() == (k.protocol == 0 ? u"auth" : u"authenticate"), "c05 first-packet-not-auth", "first packet is <" + q(p.el.tagName()) + ">: " + wire.sent.first().toStdString());
    }

    const Expect e = reference(k);
    const std::string d = k.describe();
    // invariants that hold whatever the ranking
    if (!sentMechanism.isEmpty()) {
        QStringList disabled = k.defaultDisabled ? QStringList { "PLAIN" } : k.disabled;
        c.require(!disabled.contains(sentMechanism), "c05 disabled-mechanism-used", "client authenticates with disabled mechanism " + q(sentMechanism) + ": " + d);
        c.require(k.offered.contains(sentMechanism), "c05 unoffered-mechanism-used", "client authenticates with " + q(sentMechanism) + " which the server did not offer: " + d);
    }
    if (e.usable.isEmpty()) {
        c.require(wire.sent.isEmpty(), "c05 sent-although-nothing-qualifies", "nothing qualifies but the client sent " + (wire.sent.isEmpty() ? std::string() : wire.sent.first().toStdString()) + ": " + d);
        c.require(mismatch, "c05 no-mismatch-reported", "nothing qualifies but no mechanism mismatch was reported (error: '" + q(errorText) + "'): " + d);
        return;
    }
    c.require(!mismatch && !otherError, "c05 spurious-error", "usable mechanisms [" + q(e.usable.join(u",")) + "] but the client reports '" + q(errorText) + "': " + d);
    if (e.anyOfUsable && e.chosen != k.preferred) {
        c.require(e.usable.contains(sentMechanism), "c05 chosen-not-usable", "chosen " + q(sentMechanism) + " is not among the usable mechanisms [" + q(e.usable.join(u",")) + "]: " + d);
        return;
    }
    bool viaPreferred = !k.preferred.isEmpty() && e.chosen == k.preferred;
    c.require(sentMechanism == e.chosen, std::string("c05 wrong-mechanism ") + (viaPreferred ? "preferred-ignored" : rankOf(sentMechanism) < rankOf(e.chosen) ? "weaker-chosen" : "other"),
              "client chose '" + q(sentMechanism) + "', the statement prescribes '" + q(e.chosen) + "' (usable: [" + q(e.usable.join(u",")) + "]): " + d);
}

static void label(Ctx &c, const Case &k, const Expect &e)
{
    bool strongestDisabled = false;
    {
        QString best;
        for (auto &m : k.offered)
            if (rankOf(m) > rankOf(best))
                best = m;
        strongestDisabled = !best.isEmpty() && (k.defaultDisabled ? best == u"PLAIN" : k.disabled.contains(best));
    }
    if (e.usable.size() >= 2 || !k.preferred.isEmpty() || strongestDisabled)
        c.nontrivial(vh::fnv(k.describe()));
    c.label(e.usable.isEmpty() ? "usable:0" : e.usable.size() == 1 ? "usable:1" : "usable:2+");
    if (!k.preferred.isEmpty())
        c.label(e.usable.contains(k.preferred) ? "preferred:usable" : "preferred:not-usable");
    if (strongestDisabled)
        c.label("strongest-offered-is-disabled");
    c.label("protocol:" + std::to_string(k.protocol));
}

static Case coreCase(Tape &t, int maxOffered)
{
    Case k;
    const auto &names = coreNames();
    int count = 0;
    for (int i = 0; i < names.size(); i++) {
        if (maxOffered >= 0 && count >= maxOffered)
            break;
        if (t.b()) {
            k.offered << names[i];
            count++;
        }
    }
    for (const auto &dn : disableable())
        if (t.b())
            k.disabled << dn;
    uint32_t p = t.u(uint32_t(names.size()) + 2);
    k.preferred = p == 0 ? QString() : p <= uint32_t(names.size()) ? names[int(p) - 1] : QStringLiteral("SCRAM-SHA-384");
    k.password = t.b();
    k.token = t.pick<QString>({ "", "HT-SHA-256-NONE", "HT-SHA3-512-NONE", "HT-SHA-256-ENDP" });
    k.protocol = int(t.u(4));
    return k;
}

// exhaustive over the core space (see header comment); `max_offered` bounds the subset size in the quick tier
VCHECK("c05.enum", 64)
{
    Case k = coreCase(t, int(c.param("max_offered", -1)));
    Expect e = reference(k);
    label(c, k, e);
    c.sample([&] { return k.describe() + " => expect '" + q(e.chosen) + "'"; });
    runCase(c, k);
}

VCHECK("c05.random", 80)
{
    Case k = coreCase(t, -1);
    // permutations, duplicates, junk
    static const QStringList junk = { "SCRAM-SHA-384", "plain", "PLAIN ", "", "HT-", "HT-SHA-256", "HT-SHA-256-NONE-X", "SCRAM-SHA-1-PLUS", "scram-sha-1", "X-OAUTH2", "X-FACEBOOK-PLATFORM", "X-MESSENGER-OAUTH2", "EXTERNAL", "DIGEST-MD5 ", "ANONYMOUS\n" };
    int extra = int(t.u(4));
    for (int i = 0; i < extra; i++) {
        QString s = t.b() ? junk[int(t.u(uint32_t(junk.size())))] : (k.offered.isEmpty() ? QStringLiteral("PLAIN") : k.offered[int(t.u(uint32_t(k.offered.size())))]);
        k.offered.insert(int(t.u(uint32_t(k.offered.size() + 1))), s);
    }
    // shuffle
    for (int i = k.offered.size() - 1; i > 0; i--)
        k.offered.swapItemsAt(i, int(t.u(uint32_t(i + 1))));
    k.defaultDisabled = t.prob(1, 4);
    k.googleToken = t.prob(1, 4);
    if (!k.password)
        k.emptyPasswordSet = t.b();
    if (t.prob(1, 6))
        k.preferred = junk[int(t.u(uint32_t(junk.size())))];
    Expect e = reference(k);
    label(c, k, e);
    c.sample([&] { return k.describe() + " => expect '" + q(e.chosen) + "'" + (e.anyOfUsable ? " (or any usable)" : ""); });
    runCase(c, k);
}

VH_MAIN()
