// C14 — STUN messages round-trip; integrity and fingerprint accept only untampered data.
// Sub-checks (DESIGN.md section 3, C14):
//   c14.roundtrip  encode/decode identity on every attribute, re-encode byte-identical, and the
//                  MESSAGE-INTEGRITY / FINGERPRINT bytes equal OpenSSL HMAC-SHA1 / zlib CRC-32 values
//   c14.hmac       QXmppUtils::generateHmacSha1/Md5 and generateCrc32 vs OpenSSL / zlib
//   c14.tamper     every single-bit flip of the protected bytes and HMAC-inequivalent keys must fail
//   c14.decode     arbitrary bytes (libFuzzer or rapidcheck): no crash; accepted => re-encodable
#include "gens.h"

#include "QXmppStun.h"
#include "QXmppUtils.h"

#include <QHostAddress>
#include <QtEndian>

#include <openssl/evp.h>
#include <openssl/hmac.h>
#include <zlib.h>

using vh::Ctx;
using vh::Tape;

static QByteArray osslHmac(const EVP_MD *md, const QByteArray &key, const QByteArray &text)
{
    unsigned char out[EVP_MAX_MD_SIZE];
    unsigned int len = 0;
    static const char dummy = 0;
    HMAC(md, key.isEmpty() ? &dummy : key.constData(), key.size(), reinterpret_cast<const unsigned char *>(text.constData()), size_t(text.size()), out, &len);
    return QByteArray(reinterpret_cast<const char *>(out), int(len));
}

struct Msg {
    QXmppStunMessage m;
    int nattr = 0;
    std::string desc;
};

static QHostAddress genAddr(Tape &t)
{
    if (t.b()) {
        static const quint32 special[] = { 0x7f000001, 0xffffffff, 0x01020304, 0xc0a80001, 0x2112A442, 0x00000001 };
        return QHostAddress(t.prob(1, 3) ? special[t.u(6)] : quint32(t.u(0)));
    }
    Q_IPV6ADDR a;
    auto raw = t.prob(1, 4) ? QByteArray(16, char(t.u(256))) : t.bytes(16);
    memcpy(&a, raw.constData(), 16);
    return QHostAddress(a);
}

static QByteArray genKey(Tape &t)
{
    // key lengths 0..300 with emphasis on HMAC block boundaries
    uint32_t n;
    switch (t.u(6)) {
    case 0: n = t.pick<uint32_t>({ 0, 1, 19, 20, 21, 63, 64, 65, 127, 128, 129, 255, 256, 300 }); break;
    case 1: n = 1 + t.u(64); break;
    case 2: n = 65 + t.u(236); break;
    default: n = t.u(301); break;
    }
    return t.bytes(n);
}

static Msg genMsg(Tape &t)
{
    Msg r;
    QXmppStunMessage &m = r.m;
    std::ostringstream d;
    static const quint16 methods[] = { 0x1, 0x2, 0x3, 0x4, 0x6, 0x7, 0x8, 0x9 };
    static const quint16 classes[] = { 0x000, 0x010, 0x100, 0x110 };
    quint16 type = t.prob(1, 8) ? quint16(t.u(0x4000)) : quint16(methods[t.u(8)] | classes[t.u(4)]);
    m.setType(type);
    if (t.prob(1, 6))
        m.setCookie(t.u(0));
    m.setId(t.prob(1, 8) ? QByteArray(12, char(t.u(256))) : t.bytes(12));
    d << "type=0x" << std::hex << type << std::dec;

    auto maybe = [&](const char *name) {
        bool on = t.prob(1, 3);
        if (on) {
            r.nattr++;
            d << " " << name;
        }
        return on;
    };
    struct A {
        const char *name;
        QHostAddress QXmppStunMessage::*h;
        quint16 QXmppStunMessage::*p;
    };
    const A addrs[] = {
        { "MAPPED", &QXmppStunMessage::mappedHost, &QXmppStunMessage::mappedPort },
        { "SOURCE", &QXmppStunMessage::sourceHost, &QXmppStunMessage::sourcePort },
        { "CHANGED", &QXmppStunMessage::changedHost, &QXmppStunMessage::changedPort },
        { "OTHER", &QXmppStunMessage::otherHost, &QXmppStunMessage::otherPort },
        { "XOR-MAPPED", &QXmppStunMessage::xorMappedHost, &QXmppStunMessage::xorMappedPort },
        { "XOR-PEER", &QXmppStunMessage::xorPeerHost, &QXmppStunMessage::xorPeerPort },
        { "XOR-RELAYED", &QXmppStunMessage::xorRelayedHost, &QXmppStunMessage::xorRelayedPort },
    };
    for (auto &a : addrs) {
        if (maybe(a.name)) {
            m.*(a.h) = genAddr(t);
            m.*(a.p) = quint16(t.prob(1, 4) ? t.pick<int>({ 1, 65535, 0x2112, 0xA442, 80 }) : 1 + t.u(65535));
            d << "=" << vh::s((m.*(a.h)).toString()) << ":" << m.*(a.p);
        }
    }
    if (maybe("CHANGE-REQUEST"))
        m.setChangeRequest(gen::intAtBounds<quint32>(t));
    if (maybe("ERROR-CODE")) {
        m.errorCode = int(300 + t.u(400));
        if (m.errorCode % 100 == 0 && t.b())
            m.errorCode += 1;
        m.errorPhrase = t.b() ? gen::str(t, gen::All, 40) : QString();
        d << "=" << m.errorCode << "/" << m.errorPhrase.toUtf8().size() << "B";
    }
    if (maybe("PRIORITY"))
        m.setPriority(gen::intAtBounds<quint32>(t));
    if (maybe("USE-CANDIDATE"))
        m.useCandidate = true;
    if (maybe("CHANNEL-NUMBER"))
        m.setChannelNumber(gen::intAtBounds<quint16>(t));
    if (maybe("DATA")) {
        m.setData(t.bytes(t.prob(1, 6) ? t.u(1501) : t.len(64)));
        d << "=" << m.data().size() << "B";
    }
    if (maybe("LIFETIME"))
        m.setLifetime(gen::intAtBounds<quint32>(t));
    if (maybe("NONCE")) {
        m.setNonce(t.bytes(t.len(40)));
        d << "=" << m.nonce().size() << "B";
    }
    if (maybe("REALM")) {
        m.setRealm(t.b() ? QString() : gen::str(t, gen::All, 24));
        d << "=" << m.realm().toUtf8().size() << "B";
    }
    if (maybe("REQUESTED-TRANSPORT"))
        m.setRequestedTransport(gen::intAtBounds<quint8>(t));
    if (maybe("RESERVATION-TOKEN"))
        m.setReservationToken(t.bytes(8));
    if (maybe("SOFTWARE")) {
        m.setSoftware(gen::str(t, gen::All, 24));
        d << "=" << m.software().toUtf8().size() << "B";
    }
    if (maybe("USERNAME")) {
        m.setUsername(t.prob(1, 5) ? QString() : gen::str(t, gen::All, 24));
        d << "=" << m.username().toUtf8().size() << "B";
    }
    switch (t.u(4)) {
    case 0:
        m.iceControlling = t.bytes(8);
        r.nattr++;
        d << " ICE-CONTROLLING";
        break;
    case 1:
        m.iceControlled = t.bytes(8);
        r.nattr++;
        d << " ICE-CONTROLLED";
        break;
    default: break;
    }
    r.desc = d.str();
    return r;
}

static std::string hex(const QByteArray &b) { return b.toHex().toStdString(); }

#define CMP(field, expr)                                                                        \
    c.require((a.expr) == (b.expr), std::string("c14.roundtrip field-mismatch ") + field, [&] { \
        return std::string("field ") + field + " differs after decode(encode(m)); message: " + msg.desc + " key=" + hex(key) + " bytes=" + hex(enc); \
    })

static void compareMessages(Ctx &c, const Msg &msg, const QXmppStunMessage &a, const QXmppStunMessage &b, const QByteArray &key, const QByteArray &enc)
{
    CMP("type", type());
    CMP("cookie", cookie());
    CMP("id", id());
    CMP("changeRequest", changeRequest());
    CMP("channelNumber", channelNumber());
    CMP("data", data());
    CMP("lifetime", lifetime());
    CMP("nonce", nonce());
    CMP("priority", priority());
    CMP("realm", realm());
    CMP("reservationToken", reservationToken());
    CMP("software", software());
    CMP("username", username());
    CMP("errorCode", errorCode);
    CMP("errorPhrase", errorPhrase);
    CMP("iceControlling", iceControlling);
    CMP("iceControlled", iceControlled);
    CMP("useCandidate", useCandidate);
    CMP("mappedHost", mappedHost.toString());
    CMP("mappedPort", mappedPort);
    CMP("sourceHost", sourceHost.toString());
    CMP("sourcePort", sourcePort);
    CMP("changedHost", changedHost.toString());
    CMP("changedPort", changedPort);
    CMP("otherHost", otherHost.toString());
    CMP("otherPort", otherPort);
    CMP("xorMappedHost", xorMappedHost.toString());
    CMP("xorMappedPort", xorMappedPort);
    CMP("xorPeerHost", xorPeerHost.toString());
    CMP("xorPeerPort", xorPeerPort);
    CMP("xorRelayedHost", xorRelayedHost.toString());
    CMP("xorRelayedPort", xorRelayedPort);
}

// locate MI and FINGERPRINT attributes by walking the TLVs of an encoding we produced ourselves
struct Layout {
    int miOffset = -1;   // offset of the MI attribute header
    int fpOffset = -1;
    bool ok = false;
};
static Layout layoutOf(const QByteArray &enc)
{
    Layout l;
    int pos = 20;
    while (pos + 4 <= enc.size()) {
        quint16 type = qFromBigEndian<quint16>(reinterpret_cast<const uchar *>(enc.constData() + pos));
        quint16 len = qFromBigEndian<quint16>(reinterpret_cast<const uchar *>(enc.constData() + pos + 2));
        if (type == 0x0008)
            l.miOffset = pos;
        if (type == 0x8028)
            l.fpOffset = pos;
        pos += 4 + ((len + 3) / 4) * 4;
    }
    l.ok = pos == enc.size();
    return l;
}
static QByteArray withLength(QByteArray prefix, int bodyLen)
{
    qToBigEndian<quint16>(quint16(bodyLen), reinterpret_cast<uchar *>(prefix.data() + 2));
    return prefix;
}

VCHECK("c14.roundtrip", 500)
{
    Msg msg = genMsg(t);
    QByteArray key = genKey(t);
    bool fp = t.b();
    c.sample([&] { return msg.desc + " keylen=" + std::to_string(key.size()) + " fingerprint=" + (fp ? "1" : "0"); });
    c.label(key.isEmpty() ? "key:none" : key.size() <= 64 ? "key:1-64" : "key:>64");
    c.label(fp ? "fp:on" : "fp:off");
    c.label("attrs:" + std::to_string(std::min(msg.nattr, 8)));
    if (msg.nattr >= 3 || key.size() > 64 || key.isEmpty())
        c.nontrivial(vh::fnv(msg.desc, vh::fnvInt(uint64_t(key.size()) * 2 + fp)));

    const QByteArray enc = msg.m.encode(key, fp);
    Layout lay = layoutOf(enc);
    c.require(lay.ok, "c14.roundtrip encoding-not-tlv", "encoding is not a well-formed TLV sequence: " + msg.desc + " bytes=" + hex(enc));
    c.require(enc.size() % 4 == 0, "c14.roundtrip encoding-not-aligned", "encoding length not a multiple of 4: " + msg.desc);

    // RFC values
    if (!key.isEmpty()) {
        c.require(lay.miOffset > 0, "c14.roundtrip mi-missing", "no MESSAGE-INTEGRITY in encoding with key: " + msg.desc);
        QByteArray expect = osslHmac(EVP_sha1(), key, withLength(enc.left(lay.miOffset), lay.miOffset - 20 + 24));
        QByteArray got = enc.mid(lay.miOffset + 4, 20);
        c.require(got == expect, std::string("c14.roundtrip mi-not-rfc2104 ") + (key.size() > 64 ? "keylen>64" : "keylen<=64"), [&] {
            return "MESSAGE-INTEGRITY is not HMAC-SHA1(key, prefix) per RFC 5389/2104: keylen=" + std::to_string(key.size()) + " key=" + hex(key) +
                " got=" + hex(got) + " expected=" + hex(expect) + " message: " + msg.desc;
        });
    } else {
        c.require(lay.miOffset < 0, "c14.roundtrip mi-without-key", "MESSAGE-INTEGRITY emitted without key");
    }
    if (fp) {
        c.require(lay.fpOffset > 0 && lay.fpOffset == enc.size() - 8, "c14.roundtrip fp-missing", "FINGERPRINT not last attribute: " + msg.desc);
        QByteArray pre = withLength(enc.left(lay.fpOffset), lay.fpOffset - 20 + 8);
        quint32 expect = quint32(crc32(0L, reinterpret_cast<const Bytef *>(pre.constData()), uInt(pre.size()))) ^ 0x5354554eu;
        quint32 got = qFromBigEndian<quint32>(reinterpret_cast<const uchar *>(enc.constData() + lay.fpOffset + 4));
        c.require(got == expect, "c14.roundtrip fp-not-rfc5389", "FINGERPRINT != crc32(prefix)^0x5354554e: " + msg.desc + " bytes=" + hex(enc));
    } else {
        c.require(lay.fpOffset < 0, "c14.roundtrip fp-unrequested", "FINGERPRINT emitted though not requested");
    }

    // decode
    QXmppStunMessage back;
    QStringList errors;
    bool ok = back.decode(enc, key, &errors);
    c.require(ok, "c14.roundtrip decode-rejects-own-encoding", [&] {
        return "decode(encode(m,key),key) failed: " + vh::s(errors.join(u"; ")) + " message: " + msg.desc + " key=" + hex(key) + " bytes=" + hex(enc);
    });
    compareMessages(c, msg, msg.m, back, key, enc);
    // without a key the same bytes must decode to the same values too (integrity not checked)
    QXmppStunMessage back2;
    c.require(back2.decode(enc), "c14.roundtrip decode-rejects-own-encoding nokey", "decode(encode(m,key)) without key failed: " + msg.desc);
    compareMessages(c, msg, msg.m, back2, key, enc);
    // re-encode
    QByteArray enc2 = back.encode(key, fp);
    c.require(enc2 == enc, "c14.roundtrip reencode-differs", [&] {
        return "encode(decode(encode(m))) differs: " + msg.desc + "\n first=" + hex(enc) + "\n second=" + hex(enc2);
    });
    // peekType agrees
    quint32 cookie = 0;
    QByteArray id;
    quint16 pt = QXmppStunMessage::peekType(enc, cookie, id);
    c.require(pt == msg.m.type() && cookie == msg.m.cookie() && id == msg.m.id(), "c14.roundtrip peektype", "peekType disagrees with encoded header: " + msg.desc);
}

VCHECK("c14.hmac", 700)
{
    QByteArray key = genKey(t);
    QByteArray text = t.bytes(t.prob(1, 8) ? t.u(4097) : t.len(200));
    c.sample([&] { return "keylen=" + std::to_string(key.size()) + " textlen=" + std::to_string(text.size()); });
    c.label(key.isEmpty() ? "key:none" : key.size() <= 64 ? "key:1-64" : "key:>64");
    if (key.size() > 64 || key.isEmpty() || text.size() > 64)
        c.nontrivial(vh::fnv(key, vh::fnv(text)));
    std::string cls = key.size() > 64 ? "keylen>64" : "keylen<=64";
    c.require(QXmppUtils::generateHmacSha1(key, text) == osslHmac(EVP_sha1(), key, text), "c14.hmac sha1 " + cls,
              "generateHmacSha1 != RFC 2104 HMAC-SHA1: keylen=" + std::to_string(key.size()) + " key=" + hex(key) + " text=" + hex(text));
    c.require(QXmppUtils::generateHmacMd5(key, text) == osslHmac(EVP_md5(), key, text), "c14.hmac md5 " + cls,
              "generateHmacMd5 != RFC 2104 HMAC-MD5: keylen=" + std::to_string(key.size()) + " key=" + hex(key) + " text=" + hex(text));
    quint32 z = quint32(crc32(0L, reinterpret_cast<const Bytef *>(text.constData()), uInt(text.size())));
    c.require(QXmppUtils::generateCrc32(text) == z, "c14.hmac crc32", "generateCrc32 != zlib crc32: text=" + hex(text));
}

// two keys are the same HMAC key iff their RFC 2104 block-normalised forms are equal
static QByteArray hmacNormalise(const QByteArray &key)
{
    QByteArray k = key;
    if (k.size() > 64) {
        unsigned char out[EVP_MAX_MD_SIZE];
        unsigned int len = 0;
        EVP_Digest(k.constData(), size_t(k.size()), out, &len, EVP_sha1(), nullptr);
        k = QByteArray(reinterpret_cast<const char *>(out), int(len));
    }
    k.append(QByteArray(64 - k.size(), 0));
    return k;
}

VCHECK("c14.tamper", 600)
{
    Msg msg = genMsg(t);
    QByteArray key = genKey(t);
    if (key.isEmpty())
        key = t.bytes(1 + t.u(20));
    bool fp = t.b();
    const QByteArray enc = msg.m.encode(key, fp);
    Layout lay = layoutOf(enc);
    c.require(lay.ok && lay.miOffset > 0, "c14.tamper no-mi", "encoding with key carries no MESSAGE-INTEGRITY: " + msg.desc);
    c.sample([&] { return msg.desc + " keylen=" + std::to_string(key.size()) + " fp=" + (fp ? "1" : "0") + " protected_bytes=" + std::to_string(lay.miOffset + 24); });
    c.nontrivial(vh::fnv(msg.desc, vh::fnvInt(uint64_t(key.size()) * 2 + fp)));
    {
        QXmppStunMessage ok;
        if (!ok.decode(enc, key))
            return;   // c14.roundtrip reports this; tampering an undecodable message says nothing
    }

    // (a) other keys
    std::vector<QByteArray> others;
    {
        QByteArray k = key;
        k[int(t.u(uint32_t(k.size())))] = char(k[int(t.u(uint32_t(k.size())))] ^ char(1 << t.u(8)));
        others.push_back(k);                                  // one bit differs
        others.push_back(key + QByteArray(1, char(1 + t.u(255))));   // non-zero extension
        if (key.size() > 1)
            others.push_back(key.left(key.size() - 1));      // proper prefix
        others.push_back(t.bytes(1 + t.u(80)));              // unrelated
    }
    uint64_t keyTests = 0;
    for (auto &k2 : others) {
        if (k2.isEmpty() || hmacNormalise(k2) == hmacNormalise(key))
            continue;   // RFC 2104-equivalent keys are the same key (or "no key": integrity not checked)
        keyTests++;
        QXmppStunMessage m2;
        bool accepted = m2.decode(enc, k2);
        bool longKeys = key.size() > 64 || k2.size() > 64;
        c.require(!accepted, std::string("c14.tamper other-key-accepted ") + (longKeys ? "keylen>64" : "keylen<=64"), [&] {
            return "message encoded under key " + hex(key) + " decodes under different key " + hex(k2) + ": " + msg.desc + " bytes=" + hex(enc);
        });
    }
    c.count("other-key-decodes", keyTests);

    // (b) every single-bit flip in the protected region: header + attributes before MI + the 20 HMAC bytes
    // (the MI attribute's own 4-byte type/length header is excluded, see DESIGN.md C14 part 3)
    uint64_t flips = 0;
    for (int byte = 0; byte < lay.miOffset + 24; byte++) {
        if (byte >= lay.miOffset && byte < lay.miOffset + 4)
            continue;
        for (int bit = 0; bit < 8; bit++) {
            QByteArray mut = enc;
            mut[byte] = char(mut[byte] ^ char(1 << bit));
            QXmppStunMessage m2;
            bool accepted = m2.decode(mut, key);
            flips++;
            if (accepted) {
                // classify for the signature: where was the flip?
                std::string where = byte < 2 ? "type" : byte < 4 ? "length" : byte < 8 ? "cookie" : byte < 20 ? "id" : byte >= lay.miOffset ? "hmac" : "attributes";
                // inside attributes: was it an attribute header or a value?
                if (where == "attributes") {
                    int pos = 20;
                    while (pos < lay.miOffset) {
                        quint16 len = qFromBigEndian<quint16>(reinterpret_cast<const uchar *>(enc.constData() + pos + 2));
                        if (byte >= pos && byte < pos + 2) {
                            where = "attr-type";
                            break;
                        }
                        if (byte >= pos + 2 && byte < pos + 4) {
                            where = "attr-length";
                            break;
                        }
                        int next = pos + 4 + ((len + 3) / 4) * 4;
                        if (byte < next) {
                            where = byte < pos + 4 + len ? "attr-value" : "attr-padding";
                            break;
                        }
                        pos = next;
                    }
                }
                c.fail("c14.tamper bitflip-accepted " + where,
                       "flipping bit " + std::to_string(bit) + " of byte " + std::to_string(byte) + " (" + where + ") of a message with MESSAGE-INTEGRITY still decodes under the key: " +
                           msg.desc + " key=" + hex(key) + "\n original=" + hex(enc) + "\n tampered=" + hex(mut));
            }
        }
    }
    c.count("bitflips", flips);
}

VCHECK("c14.decode", 4096)
{
    // arbitrary bytes; under rapidcheck half of the cases start from a valid encoding that is then corrupted
    QByteArray buf, key;
    if (t.mode() == Tape::Bytes) {
        key = t.bytes(t.u(4) == 0 ? 0 : t.u(80));
        uint32_t n = t.u(4096);
        buf = t.bytes(n);
    } else {
        key = t.b() ? QByteArray() : genKey(t);
        if (t.b()) {
            Msg msg = genMsg(t);
            buf = msg.m.encode(t.b() ? key : QByteArray(), t.b());
            int edits = int(t.u(4));
            for (int i = 0; i < edits && !buf.isEmpty(); i++) {
                int pos = int(t.u(uint32_t(buf.size())));
                switch (t.u(4)) {
                case 0: buf[pos] = char(t.u(256)); break;
                case 1: buf.truncate(pos); break;
                case 2: buf.insert(pos, t.bytes(1 + t.u(8))); break;
                case 3: buf[pos] = char(buf[pos] ^ char(1 << t.u(8))); break;
                }
            }
            if (t.b() && buf.size() >= 20)   // keep the length field honest so the body is reached
                qToBigEndian<quint16>(quint16(buf.size() - 20), reinterpret_cast<uchar *>(buf.data() + 2));
        } else {
            buf = t.bytes(t.len(200));
        }
    }
    c.sample([&] { return "key=" + hex(key) + " bytes=" + hex(buf.left(120)) + (buf.size() > 120 ? "..." : ""); });
    QXmppStunMessage m;
    QStringList errors;
    bool ok = m.decode(buf, key, &errors);
    c.label(ok ? "accepted" : "rejected");
    quint32 cookie;
    QByteArray id;
    QXmppStunMessage::peekType(buf, cookie, id);
    m.toString();
    if (!ok)
        return;
    c.nontrivial(vh::fnv(buf));
    // accepted => what the decoder understood is "a message the library can build": it must encode and
    // decode again.  Only judged inside the domain c14.roundtrip covers (attribute values <= 1500 bytes);
    // a decoder that accepted an attribute overrunning the datagram yields values outside it.
    if (m.data().size() > 1500 || m.nonce().size() > 1500 || m.realm().size() > 500 || m.software().size() > 500 ||
        m.username().size() > 500 || m.errorPhrase.size() > 500)
        return;
    QByteArray enc = m.encode(key, true);
    if (enc.size() - 20 > 65535)
        return;
    QXmppStunMessage again;
    QStringList errors2;
    bool ok2 = again.decode(enc, key, &errors2);
    c.require(ok2, "c14.decode reencode-undecodable", [&] {
        return "decode accepted the input but encode(result) is rejected (" + vh::s(errors2.join(u"; ")) + "): input=" + hex(buf) + " key=" + hex(key) + " reencoded=" + hex(enc);
    });
}

VH_MAIN()
