// C10 — losing the connection at any point leaves a consistent client that can reconnect (DESIGN.md C10).
// A real QXmppClient (TLS disabled, as the property states) negotiates over loopback with a scripted, protocol-
// conforming server: SASL PLAIN -> restart -> bind (-> stream management enable) | SASL 2 + bind2 (+ inline sm) |
// legacy iq-auth (version-less header) | see-other-host redirect to a second listener, then one of the former |
// resumption (accepted or failed) on a later attempt.  Fault enumeration: the connection is cut after the k-th event
// (connection accepted, header/element received, header/element sent, also in the middle of an element), for up to
// three consecutive attempts; the last attempt runs to completion.
// Oracle (history invariants): after a cut the client is disconnected, not connected, not authenticated; `connected`
// was emitted at most once per TCP connection and only after the server's final negotiation element; an outstanding
// request is completed (not resumable) or still pending exactly once (resumable), never completed twice; the following
// uncut attempt sends a fresh stream header first, negotiates from the start, ends Connected and a probe IQ round-trips.
#include "gens.h"
#include "lb.h"
#include "xmlutil.h"

#include "QXmppClient.h"
#include "QXmppConfiguration.h"
#include "QXmppIq.h"
#include "QXmppLogger.h"
#include "QXmppSasl2UserAgent.h"
#include "QXmppTask.h"
#include "QXmppVersionIq.h"

#include <QRegularExpression>
#include <QUuid>

using vh::Ctx;
using vh::Tape;

static std::string q(const QString &s) { return vh::s(s); }

enum Kind { SaslBind, SaslBindSm, Sasl2Bind2, Sasl2Bind2Sm, LegacyAuth, NumKinds };
static const char *kindNames[] = { "sasl+bind", "sasl+bind+sm", "sasl2+bind2", "sasl2+bind2+sm", "legacy-iq-auth" };

// one scripted, conforming server endpoint
struct NegServer {
    lb::ScriptedServer srv;
    int kind = SaslBind;
    bool redirectTo = false;   // this listener only redirects
    int redirectPort = 0;
    bool withSession = false;
    bool acceptResume = true;
    bool enableWithResume = true;        // what <enabled/> of this attempt says about resumption
    bool lastEnabledWithResume = true;   // what the last <enabled/> actually sent said
    // fault
    long cutAt = -1;           // abort when the event counter reaches this value (-1: never)
    bool cutMidElement = false;
    // state
    long events = 0;
    bool wasCut = false;
    struct PerConn {
        int consumed = 0;
        int headers = 0;
        bool authed = false;
        bool established = false;   // the final negotiation element has been sent
        QStringList received;
        QString firstBytes;
    };
    std::map<lb::Conn *, PerConn> st;
    QString smId;
    int smCounter = 0;
    std::string trace;
    std::function<void()> onEstablished;

    NegServer()
    {
        srv.onNewConnection = [this](lb::Conn &c) {
            st[&c];
            trace += " [accept]";
            event(c);
        };
    }
    bool event(lb::Conn &c)
    {
        events++;
        if (cutAt >= 0 && events >= cutAt && !wasCut) {
            wasCut = true;
            trace += " [CUT]";
            srv.cut(c);
            return false;
        }
        return true;
    }
    bool send(lb::Conn &c, const QString &xml, const char *what)
    {
        if (wasCut)
            return false;
        events++;
        if (cutAt >= 0 && events >= cutAt) {
            wasCut = true;
            if (cutMidElement && xml.size() > 4) {
                srv.send(c, xml.left(xml.size() / 2));
                trace += std::string(" [half of ") + what + "][CUT]";
            } else {
                trace += " [CUT]";
            }
            srv.cut(c);
            return false;
        }
        trace += std::string(" >") + what;
        srv.send(c, xml);
        return true;
    }
    QString header(bool version) const
    {
        return QStringLiteral("<?xml version='1.0'?><stream:stream xmlns='jabber:client' xmlns:stream='http://etherx.jabber.org/streams' from='example.org' id='s%1'%2>").arg(events).arg(version ? QStringLiteral(" version='1.0'") : QString());
    }
    void process(lb::Conn &c)
    {
        if (wasCut)
            return;
        PerConn &p = st[&c];
        for (int guard = 0; guard < 50 && !wasCut; guard++) {
            QString rest = QString::fromUtf8(c.all.mid(p.consumed));
            if (rest.trimmed().isEmpty())
                return;
            static const QRegularExpression hdr(QStringLiteral("^\\s*(<\\?xml[^>]*\\?>)?\\s*<stream:stream[^>]*>"));
            auto m = hdr.match(rest);
            if (m.hasMatch()) {
                p.consumed += m.captured(0).toUtf8().size();
                p.headers++;
                if (p.firstBytes.isEmpty())
                    p.firstBytes = m.captured(0);
                trace += " <header";
                if (!event(c))
                    return;
                onHeader(c, p);
                continue;
            }
            if (rest.startsWith(QStringLiteral("</stream:stream>"))) {
                p.consumed += 16;
                continue;
            }
            // complete elements only
            QDomDocument doc;
            if (!doc.setContent(QStringLiteral("<stream:stream xmlns='jabber:client' xmlns:stream='http://etherx.jabber.org/streams'>") + rest + QStringLiteral("</stream:stream>"), true))
                return;   // partial data
            p.consumed = c.all.size();
            for (QDomElement e = doc.documentElement().firstChildElement(); !e.isNull() && !wasCut; e = e.nextSiblingElement()) {
                trace += " <" + q(e.tagName());
                p.received << e.tagName();
                if (!event(c))
                    return;
                onElement(c, p, e);
            }
        }
    }
    void onHeader(lb::Conn &c, PerConn &p)
    {
        if (redirectTo) {
            if (!send(c, header(true), "header"))
                return;
            send(c, QStringLiteral("<stream:error><see-other-host xmlns='urn:ietf:params:xml:ns:xmpp-streams'>127.0.0.1:%1</see-other-host></stream:error>").arg(redirectPort), "see-other-host");
            return;
        }
        if (kind == LegacyAuth) {
            send(c, header(false), "header(no-version)");
            return;
        }
        if (!send(c, header(true), "header"))
            return;
        if (!p.authed) {
            if (kind == Sasl2Bind2 || kind == Sasl2Bind2Sm)
                send(c, QStringLiteral("<stream:features><authentication xmlns='urn:xmpp:sasl:2'><mechanism>PLAIN</mechanism><inline><bind xmlns='urn:xmpp:bind:0'><inline>%1</inline></bind></inline></authentication></stream:features>")
                            .arg(kind == Sasl2Bind2Sm ? QStringLiteral("<feature var='urn:xmpp:sm:3'/>") : QString()),
                     "features(sasl2)");
            else
                send(c, QStringLiteral("<stream:features><mechanisms xmlns='urn:ietf:params:xml:ns:xmpp-sasl'><mechanism>PLAIN</mechanism></mechanisms></stream:features>"), "features(sasl)");
        } else {
            QString f = QStringLiteral("<stream:features><bind xmlns='urn:ietf:params:xml:ns:xmpp-bind'/>");
            if (withSession)
                f += QStringLiteral("<session xmlns='urn:ietf:params:xml:ns:xmpp-session'/>");
            if (kind == SaslBindSm)
                f += QStringLiteral("<sm xmlns='urn:xmpp:sm:3'/>");
            send(c, f + QStringLiteral("</stream:features>"), "features(bind)");
        }
    }
    void established(lb::Conn &c, PerConn &p)
    {
        p.established = true;
        Q_UNUSED(c);
        if (onEstablished)
            onEstablished();
    }
    void onElement(lb::Conn &c, PerConn &p, const QDomElement &e)
    {
        const QString n = e.tagName(), ns = e.namespaceURI();
        if (n == u"auth" && ns == u"urn:ietf:params:xml:ns:xmpp-sasl") {
            p.authed = true;
            send(c, QStringLiteral("<success xmlns='urn:ietf:params:xml:ns:xmpp-sasl'/>"), "success");
        } else if (n == u"authenticate" && ns == u"urn:xmpp:sasl:2") {
            p.authed = true;
            QString bound;
            if (!e.firstChildElement(QStringLiteral("bind")).isNull()) {
                bound = QStringLiteral("<bound xmlns='urn:xmpp:bind:0'>");
                if (kind == Sasl2Bind2Sm) {
                    smId = QStringLiteral("sm%1").arg(++smCounter);
                    bound += QStringLiteral("<enabled xmlns='urn:xmpp:sm:3' id='%1'%2/>").arg(smId, enableWithResume ? QStringLiteral(" resume='true'") : QString());
                    lastEnabledWithResume = enableWithResume;
                }
                bound += QStringLiteral("</bound>");
            }
            if (!send(c, QStringLiteral("<success xmlns='urn:xmpp:sasl:2'><authorization-identifier>alice@example.org/res2</authorization-identifier>%1</success>").arg(bound), "success(sasl2)"))
                return;
            p.established = true;   // after the (empty) features the negotiation is over
            if (send(c, QStringLiteral("<stream:features/>"), "features(empty)"))
                established(c, p);
        } else if (n == u"resume" && ns == u"urn:xmpp:sm:3") {
            if (acceptResume && !smId.isEmpty() && e.attribute(QStringLiteral("previd")) == smId) {
                if (send(c, QStringLiteral("<resumed xmlns='urn:xmpp:sm:3' h='0' previd='%1'/>").arg(smId), "resumed"))
                    established(c, p);
            } else {
                send(c, QStringLiteral("<failed xmlns='urn:xmpp:sm:3'><item-not-found xmlns='urn:ietf:params:xml:ns:xmpp-stanzas'/></failed>"), "failed");
            }
        } else if (n == u"enable" && ns == u"urn:xmpp:sm:3") {
            smId = QStringLiteral("sm%1").arg(++smCounter);
            lastEnabledWithResume = enableWithResume;
            if (send(c, QStringLiteral("<enabled xmlns='urn:xmpp:sm:3' id='%1'%2/>").arg(smId, enableWithResume ? QStringLiteral(" resume='true'") : QString()), enableWithResume ? "enabled" : "enabled(no-resume)"))
                established(c, p);
        } else if (n == u"iq") {
            const QString id = e.attribute(QStringLiteral("id"));
            QDomElement child = e.firstChildElement();
            if (child.namespaceURI() == u"urn:ietf:params:xml:ns:xmpp-bind") {
                if (send(c, QStringLiteral("<iq type='result' id=\"%1\"><bind xmlns='urn:ietf:params:xml:ns:xmpp-bind'><jid>alice@example.org/res1</jid></bind></iq>").arg(id.toHtmlEscaped()), "bind-result")) {
                    if (kind != SaslBindSm)
                        established(c, p);
                }
            } else if (child.namespaceURI() == u"jabber:iq:auth") {
                if (e.attribute(QStringLiteral("type")) == u"get") {
                    send(c, QStringLiteral("<iq type='result' id=\"%1\"><query xmlns='jabber:iq:auth'><username/><password/><digest/><resource/></query></iq>").arg(id.toHtmlEscaped()), "auth-fields");
                } else if (send(c, QStringLiteral("<iq type='result' id=\"%1\"/>").arg(id.toHtmlEscaped()), "auth-result")) {
                    established(c, p);
                }
            } else if (child.namespaceURI() == u"jabber:iq:version" && e.attribute(QStringLiteral("type")) == u"get" && e.attribute(QStringLiteral("id")).startsWith(u"probe")) {
                send(c, QStringLiteral("<iq type='result' id=\"%1\" from='example.org'><query xmlns='jabber:iq:version'><name>scripted</name><version>1</version></query></iq>").arg(id.toHtmlEscaped()), "probe-result");
            } else if (e.attribute(QStringLiteral("type")) == u"get" || e.attribute(QStringLiteral("type")) == u"set") {
                // roster / vcard / other start-up requests and the "outstanding" request are left unanswered on purpose
            }
        } else if (n == u"r" && ns == u"urn:xmpp:sm:3") {
            // not answered: the outstanding stanzas stay unacknowledged
        }
    }
    void pump()
    {
        for (auto &cp : srv.conns)
            process(*cp);
    }
};

VCHECK("c10.loss", 64)
{
    // legacy iq-auth (XEP-0078) is not in the property's list of scripts and is left out: with the current library the
    // legacy login never completes at all (see DESIGN.md, observations outside the listed properties)
    int kind = int(t.u(NumKinds - 1));
    bool redirect = t.prob(1, 4);
    int attempts = 1 + int(t.u(3));

    NegServer main, second;
    main.kind = second.kind = kind;
    main.withSession = second.withSession = t.b();
    if (redirect) {
        main.redirectTo = true;
        main.redirectPort = second.srv.serverPort();
    }
    NegServer &target = redirect ? second : main;

    QXmppClient client(t.b() ? QXmppClient::BasicExtensions : QXmppClient::NoExtensions);
    QXmppLogger logger;
    logger.setLoggingType(QXmppLogger::NoLogging);
    client.setLogger(&logger);
    QXmppConfiguration cfg;
    cfg.setJid(QStringLiteral("alice@example.org"));
    cfg.setPassword(QStringLiteral("pw"));
    cfg.setHost(QStringLiteral("127.0.0.1"));
    cfg.setPort(main.srv.serverPort());
    cfg.setStreamSecurityMode(QXmppConfiguration::TLSDisabled);
    cfg.setAutoReconnectionEnabled(false);
    cfg.setKeepAliveInterval(0);
    cfg.setDisabledSaslMechanisms({});
    cfg.setUseSasl2Authentication(kind == Sasl2Bind2 || kind == Sasl2Bind2Sm);
    cfg.setSasl2UserAgent(QXmppSasl2UserAgent(QUuid::fromString(QStringLiteral("d4565fa7-4d72-4749-b3d3-740edbf87770")), QStringLiteral("verif"), QStringLiteral("harness")));
    cfg.setUseNonSASLAuthentication(kind == LegacyAuth);

    int connectedSignals = 0, disconnectedSignals = 0;
    bool connectedBeforeEstablished = false;
    auto anyEstablished = [&] {
        for (NegServer *s : { &main, &second })
            for (auto &kv : s->st)
                if (kv.second.established && !kv.first->closedByPeer && kv.first->sock && kv.first->sock->state() == QAbstractSocket::ConnectedState)
                    return true;
        return false;
    };
    QObject::connect(&client, &QXmppClient::connected, [&] {
        connectedSignals++;
        if (!anyEstablished())
            connectedBeforeEstablished = true;
    });
    QObject::connect(&client, &QXmppClient::disconnected, [&] { disconnectedSignals++; });

    struct Outstanding {
        int completions = 0;
        bool error = false;
    };
    std::vector<std::shared_ptr<Outstanding>> outstanding;
    auto sendOutstanding = [&] {
        auto o = std::make_shared<Outstanding>();
        outstanding.push_back(o);
        QXmppVersionIq iq;
        iq.setType(QXmppIq::Get);
        iq.setTo(QStringLiteral("bob@example.org/desk"));
        iq.setId(QStringLiteral("outstanding%1").arg(outstanding.size()));
        client.sendIq(std::move(iq)).then(&client, [o](QXmppClient::IqResult &&r) {
            o->completions++;
            o->error = std::holds_alternative<QXmppError>(r);
        });
    };
    main.onEstablished = second.onEstablished = [] { };

    std::string history = std::string(kindNames[kind]) + (redirect ? " via-redirect" : "") + (main.withSession ? " +session" : "");
    bool cutInsideNegotiation = false, cutWithPending = false, everResumable = false;

    for (int attempt = 0; attempt < attempts; attempt++) {
        bool last = attempt == attempts - 1;
        // fault for this attempt
        NegServer *cutServer = nullptr;
        long cutAt = -1;
        bool mid = false, cutAfterEstablished = false;
        if (!last) {
            cutServer = (redirect && t.b()) ? &main : &target;
            cutAfterEstablished = t.prob(1, 4);
            if (!cutAfterEstablished) {
                cutAt = cutServer->events + 1 + long(t.u(cutServer == &main && redirect ? 4 : 14));
                mid = t.prob(1, 4);
            }
        }
        for (NegServer *s : { &main, &second }) {
            s->cutAt = (s == cutServer) ? cutAt : -1;
            s->cutMidElement = mid;
            s->wasCut = false;
            s->acceptResume = t.b();
        }
        // from the second attempt on the server may enable stream management without allowing resumption
        {
            const bool withResume = attempt == 0 || !t.prob(1, 3);
            for (NegServer *s : { &main, &second })
                s->enableWithResume = withResume;
        }
        int connectedBefore = connectedSignals;
        size_t connsBefore = main.srv.conns.size() + second.srv.conns.size();
        history += " | attempt" + std::to_string(attempt + 1) + (last ? "(uncut)" : cutAfterEstablished ? "(cut after established)" : "(cut@" + std::to_string(cutAt - (cutServer ? cutServer->events : 0)) + (mid ? ",mid-element" : "") + (cutServer == &main && redirect ? ",first-host" : "") + ")");
        for (NegServer *s : { &main, &second })
            s->trace.clear();
        client.connectToServer(cfg);
        // run until quiescent: established, cut, or nothing moves
        bool sentRequest = false;
        const size_t requestsOfEarlierAttempts = outstanding.size();
        for (int round = 0; round < 400; round++) {
            lb::settle(2, 30);
            main.pump();
            second.pump();
            bool cutHappened = (cutServer && cutServer->wasCut);
            if (cutHappened)
                break;
            if (anyEstablished() && client.isConnected()) {
                if (!sentRequest) {
                    sentRequest = true;
                    sendOutstanding();
                    lb::settle(4, 60);
                    main.pump();
                    second.pump();
                }
                if (cutAfterEstablished) {
                    // cut an established session with a request outstanding
                    for (NegServer *s : { &main, &second })
                        for (auto &cp : s->srv.conns)
                            if (s->st[cp.get()].established && cp->sock->state() == QAbstractSocket::ConnectedState) {
                                s->srv.cut(*cp);
                                s->wasCut = true;
                            }
                    cutWithPending = true;
                    break;
                }
                if (last)
                    break;
            }
            if (round > 40 && !anyEstablished() && client.state() == QXmppClient::DisconnectedState)
                break;
        }
        // the cut index lay beyond the end of the negotiation: cut the established session now
        bool cutEstablishedSession = cutAfterEstablished;
        if (!last && !(cutServer && cutServer->wasCut) && !cutAfterEstablished) {
            for (NegServer *s : { &main, &second })
                for (auto &cp : s->srv.conns)
                    if (cp->sock && cp->sock->state() == QAbstractSocket::ConnectedState) {
                        if (s->st[cp.get()].established)
                            cutEstablishedSession = true;
                        s->srv.cut(*cp);
                        s->wasCut = true;
                        s->trace += " [CUT at end]";
                    }
            cutAfterEstablished = true;
        } else if (cutServer && cutServer->wasCut) {
            for (auto &kv : cutServer->st)
                if (kv.second.established)
                    cutEstablishedSession = true;
        }
        lb::settle(10, 400);
        main.pump();
        second.pump();
        history += " {" + main.trace + (redirect ? " || " + second.trace : "") + " }";
        size_t newConns = main.srv.conns.size() + second.srv.conns.size() - connsBefore;
        c.require(connectedSignals - connectedBefore <= int(std::max<size_t>(newConns, 1)), "c10 connected-emitted-more-than-once-per-connection", "connected() was emitted " + std::to_string(connectedSignals - connectedBefore) + " times for " + std::to_string(newConns) + " TCP connection(s)\n history: " + history);
        c.require(!connectedBeforeEstablished, "c10 connected-before-negotiation-finished", "connected() was emitted before the server had sent its final negotiation element\n history: " + history);
        for (auto &o : outstanding)
            c.require(o->completions <= 1, "c10 outstanding-request-completed-twice", "an outstanding request completed " + std::to_string(o->completions) + " times\n history: " + history);

        bool wasCut = (cutServer && cutServer->wasCut) || (cutAfterEstablished && (main.wasCut || second.wasCut));
        if (!last && wasCut) {
            if (!cutAfterEstablished)
                cutInsideNegotiation = true;
            lb::settleUntil([&] { return client.state() == QXmppClient::DisconnectedState; }, 1500);
            lb::settle(10, 200);
            c.require(client.state() == QXmppClient::DisconnectedState, "c10 not-disconnected-after-loss", [&] {
                return "after the connection was cut the client state is " + std::to_string(int(client.state())) + " (0 = disconnected)\n history: " + history;
            });
            c.require(!client.isConnected(), "c10 session-reported-after-loss", "isConnected() is true after the connection was cut\n history: " + history);
            c.require(!client.isAuthenticated(), "c10 authenticated-after-loss", "isAuthenticated() is true after the connection was cut\n history: " + history);
            // no self-started connection may appear while we are "disconnected"
            size_t connsNow = main.srv.conns.size() + second.srv.conns.size();
            lb::settle(10, 150);
            c.require(main.srv.conns.size() + second.srv.conns.size() == connsNow, "c10 client-reconnects-on-its-own", "the client opened a new connection by itself after the loss (auto-reconnect is off)\n history: " + history);
            // outstanding request: completed, or still pending only if the session can be resumed
            // once a session with stream management was established the client may legitimately keep requests for a
            // later resumption, also across attempts that die before negotiation (conservative, hence sound)
            // ... unless the session that was just cut is one the server explicitly enabled WITHOUT resumption in this
            // attempt (and did not resume): that session ends for good, and with it every request
            const bool enabledNow = main.trace.find(" >enabled") != std::string::npos || second.trace.find(" >enabled") != std::string::npos || main.trace.find(" >success(sasl2)") != std::string::npos ||
                second.trace.find(" >success(sasl2)") != std::string::npos;
            const bool resumedNow = main.trace.find(" >resumed") != std::string::npos || second.trace.find(" >resumed") != std::string::npos;
            const bool smKind = kind == SaslBindSm || kind == Sasl2Bind2Sm;
            const bool explicitlyNotResumable = smKind && cutEstablishedSession && enabledNow && !resumedNow && !main.lastEnabledWithResume;
            if (smKind && cutEstablishedSession && !explicitlyNotResumable)
                everResumable = true;
            if (explicitlyNotResumable) {
                everResumable = false;
                c.label("cut-session-enabled-without-resume");
            }
            bool resumable = everResumable;
            for (auto &o : outstanding)
                if (!resumable)
                    c.require(o->completions == 1, "c10 outstanding-request-left-pending", "a request is still pending after a loss that cannot be resumed\n history: " + history);
        } else if (last) {
            // the uncut attempt must succeed
            lb::settleUntil([&] { main.pump(); second.pump(); return client.isConnected() && anyEstablished(); }, 3000);
            c.require(client.state() == QXmppClient::ConnectedState && client.isConnected(), "c10 uncut-attempt-does-not-connect", [&] {
                return "the final, uncut attempt did not reach the connected state (state " + std::to_string(int(client.state())) + ")\n history: " + history;
            });
            // requests outstanding from the earlier attempts: a session that is not a resumption of theirs cannot answer
            // them any more, so by now each of them has completed (with an error) - only a resumed session may still hold them
            {
                const bool resumedNow = main.trace.find(" >resumed") != std::string::npos || second.trace.find(" >resumed") != std::string::npos;
                c.label(resumedNow ? "final-session:resumed" : "final-session:new");
                if (!resumedNow) {
                    lb::settle(10, 200);
                    for (size_t i = 0; i < requestsOfEarlierAttempts; i++)
                        c.require(outstanding[i]->completions == 1, "c10 outstanding-request-left-pending on-new-session", "a request of an earlier attempt is still pending although the session that was established is not a resumption\n history: " + history);
                    if (requestsOfEarlierAttempts > 0)
                        c.label("final-session:new with earlier requests");
                }
            }
            // a fresh stream header came first on the connection that carried the session
            for (NegServer *s : { &main, &second })
                for (auto &cp : s->srv.conns) {
                    QByteArray first = cp->all.left(200);
                    if (!first.isEmpty())
                        c.require(first.contains("<stream:stream"), "c10 no-fresh-stream-header", "a connection did not start with a stream header: " + first.toStdString() + "\n history: " + history);
                }
            // probe
            int done = 0;
            bool ok = false;
            QXmppVersionIq probe;
            probe.setType(QXmppIq::Get);
            probe.setTo(QStringLiteral("example.org"));
            probe.setId(QStringLiteral("probe-%1").arg(attempt));
            client.sendIq(std::move(probe)).then(&client, [&](QXmppClient::IqResult &&r) {
                done++;
                ok = std::holds_alternative<QDomElement>(r);
            });
            lb::settleUntil([&] { main.pump(); second.pump(); return done > 0; }, 2000);
            c.require(done == 1 && ok, "c10 probe-does-not-round-trip", "a request sent on the re-established session did not complete with the server's answer\n history: " + history);
        }
    }
    client.disconnectFromServer();
    lb::settle(5, 200);
    for (auto &o : outstanding)
        c.require(o->completions <= 1, "c10 outstanding-request-completed-twice", "an outstanding request completed twice\n history: " + history);
    if (cutInsideNegotiation || cutWithPending)
        c.nontrivial(vh::fnv(history));
    if (cutInsideNegotiation)
        c.label("cut-inside-negotiation");
    if (cutWithPending)
        c.label("cut-with-request-pending");
    c.label(std::string("kind:") + kindNames[kind] + (redirect ? "+redirect" : ""));
    c.sample([&] { return history; });
}

VH_MAIN()
