// C18 — automatic trust: only an authenticated key's holder can move trust, within scope (DESIGN.md C18).
// Stateful, model-based: histories over {manual authenticate/distrust of (owner, keys), trust message from (sender
// account, sender key | no e2ee metadata | this very device) naming trusted/distrusted keys for 1-3 owners with the
// right or a wrong usage namespace, direct trust-level changes to automatic levels} on a small universe (own account
// + 2 contacts, 2-3 keys each), both security policies.  After every operation all trust levels and the set of
// postponed decisions (through the public trust-manager / storage API) equal a reference model of XEP-0450.
// Histories whose outcome depends on an order the statement does not fix are discarded and counted.
#include "gens.h"
#include "tc.h"

#include "QXmppE2eeMetadata.h"
#include "QXmppTrustMessageElement.h"
#include "QXmppTrustMessageKeyOwner.h"

using vh::Ctx;
using vh::Tape;
using QXmpp::TrustLevel;

static std::string q(const QString &s) { return vh::s(s); }
static const QString ENC = QStringLiteral("urn:xmpp:omemo:2");
static const QString ATM_NS = QStringLiteral("urn:xmpp:atm:1");

struct KeyDef {
    QByteArray id;
    QString owner;
};
static const QVector<KeyDef> &keys()
{
    static const QVector<KeyDef> k = {
        { "a1", "alice@example.org" }, { "a2", "alice@example.org" }, { "b1", "bob@example.org" }, { "b2", "bob@example.org" }, { "b3", "bob@example.org" },
        { "c1", "carol@example.com" }, { "c2", "carol@example.com" },
    };
    return k;
}
static QString ownerOf(const QByteArray &id)
{
    for (auto &k : keys())
        if (k.id == id)
            return k.owner;
    return {};
}
static const char *levelName(TrustLevel l)
{
    switch (l) {
    case TrustLevel::Undecided: return "undecided";
    case TrustLevel::AutomaticallyDistrusted: return "auto-distrusted";
    case TrustLevel::ManuallyDistrusted: return "manually-distrusted";
    case TrustLevel::AutomaticallyTrusted: return "auto-trusted";
    case TrustLevel::ManuallyTrusted: return "manually-trusted";
    case TrustLevel::Authenticated: return "authenticated";
    }
    return "?";
}

struct Post {
    QByteArray sender, key;
    QString owner;
    bool trust;
};
struct Model {
    QMap<QByteArray, TrustLevel> lvl;
    QVector<Post> post;
    bool toakafa = false;
    bool ambiguous = false;
    std::string why;

    TrustLevel level(const QByteArray &k) const { return lvl.value(k, TrustLevel::Undecided); }

    // one batch of decisions, as one trust message or one manual decision produces it
    void decide(const QList<QByteArray> &auth, const QList<QByteArray> &dis, QSet<QByteArray> &touchedAuth, QSet<QByteArray> &touchedDis, int depth = 0)
    {
        if (depth > 12) {
            ambiguous = true;
            why = "cascade too deep";
            return;
        }
        // --- authenticate
        QList<QByteArray> newlyAuth;
        for (auto &k : auth) {
            if (touchedDis.contains(k)) {
                ambiguous = true;
                why = "one cascade gives both polarities to key " + k.toStdString();
            }
            touchedAuth.insert(k);
            lvl[k] = TrustLevel::Authenticated;
            newlyAuth << k;
        }
        if (toakafa && !auth.isEmpty()) {
            QSet<QString> owners;
            for (auto &k : auth)
                owners.insert(ownerOf(k));
            for (auto &kd : keys())
                if (owners.contains(kd.owner) && level(kd.id) == TrustLevel::AutomaticallyTrusted)
                    lvl[kd.id] = TrustLevel::AutomaticallyDistrusted;
        }
        // postponed decisions of senders that are authenticated now take effect
        QList<QByteArray> pAuth, pDis;
        QVector<Post> rest;
        for (auto &p : post) {
            if (newlyAuth.contains(p.sender))
                (p.trust ? pAuth : pDis) << p.key;
            else
                rest.push_back(p);
        }
        // another, still unauthenticated sender holds the same decision about one of these keys: whether that copy
        // survives is not fixed by the statement (the library drops it) -> order-dependent history
        for (auto &p : rest)
            if ((p.trust && pAuth.contains(p.key)) || (!p.trust && pDis.contains(p.key))) {
                ambiguous = true;
                why = "a fired decision is also held for another unauthenticated sender";
            }
        post = rest;
        if (!pAuth.isEmpty() || !pDis.isEmpty())
            decide(pAuth, pDis, touchedAuth, touchedDis, depth + 1);
        // --- distrust
        for (auto &k : dis) {
            if (touchedAuth.contains(k)) {
                ambiguous = true;
                why = "one cascade gives both polarities to key " + k.toStdString();
            }
            touchedDis.insert(k);
            lvl[k] = TrustLevel::ManuallyDistrusted;
        }
        // decisions held back for a sender that is now distrusted are discarded
        rest.clear();
        for (auto &p : post)
            if (!dis.contains(p.sender))
                rest.push_back(p);
        post = rest;
    }
    void checkMultiSender()
    {
        for (int i = 0; i < post.size(); i++)
            for (int j = i + 1; j < post.size(); j++)
                if (post[i].key == post[j].key && post[i].sender != post[j].sender) {
                    ambiguous = true;
                    why = "two unauthenticated senders hold decisions about the same key " + post[i].key.toStdString();
                }
    }
};

template<typename T>
static T now(QXmppTask<T> task)
{
    // the memory storage completes every task synchronously
    if (!task.isFinished()) {
        fprintf(stderr, "c18: storage task not finished synchronously\n");
        abort();
    }
    return task.takeResult();
}

VCHECK("c18.atm", 500)
{
    TestClient::resetIdCounter();
    QXmppAtmTrustMemoryStorage storage;
    TestClient client(QXmppClient::NoExtensions);
    auto *atm = client.addNewExtension<QXmppAtmManager>(&storage);
    Model m;
    m.toakafa = t.b();
    if (m.toakafa)
        atm->setSecurityPolicy(ENC, QXmpp::Toakafa);
    atm->setOwnKey(ENC, QByteArrayLiteral("a0"));
    std::string history = m.toakafa ? "policy=TOAKAFA" : "policy=none";
    bool sawPostponedOutcome = false, sawOutOfScope = false;
    int steps = 2 + int(t.u(24));

    auto compare = [&](const char *when) {
        for (auto &kd : keys()) {
            TrustLevel got = now(atm->trustLevel(ENC, kd.owner, kd.id));
            TrustLevel want = m.level(kd.id);
            if (got != want) {
                std::string kind = (want == TrustLevel::Authenticated || want == TrustLevel::ManuallyDistrusted) ? "decision-not-applied" : "level-changed-without-authority";
                if ((got == TrustLevel::Authenticated || got == TrustLevel::ManuallyDistrusted) && (want == TrustLevel::Authenticated || want == TrustLevel::ManuallyDistrusted))
                    kind = "wrong-polarity";
                c.fail("c18 trust-level-differs " + kind, "key " + kd.id.toStdString() + " of " + q(kd.owner) + " is " + levelName(got) + ", the model of XEP-0450 says " + levelName(want) + " (" + when + ")\n history: " + history);
            }
        }
        // postponed decisions
        auto stored = now(storage.keysForPostponedTrustDecisions(ENC, {}));
        QStringList got, want;
        for (bool pol : { true, false }) {
            auto mh = stored.value(pol);
            for (auto it = mh.begin(); it != mh.end(); ++it)
                got << it.key() + u'|' + QString::fromLatin1(it.value()) + QString::fromLatin1(pol ? "|trust" : "|distrust");
        }
        for (auto &p : m.post)
            want << p.owner + u'|' + QString::fromLatin1(p.key) + QString::fromLatin1(p.trust ? "|trust" : "|distrust");
        got.sort();
        want.sort();
        c.require(got == want, std::string("c18 postponed-decisions-differ ") + (got.size() > want.size() ? "held-though-not-due" : got.size() < want.size() ? "lost-or-fired-early" : "content"), [&] {
            return "postponed decisions are [" + q(got.join(u", ")) + "], the model says [" + q(want.join(u", ")) + "] (" + when + ")\n history: " + history;
        });
    };

    for (int step = 0; step < steps && !m.ambiguous; step++) {
        switch (t.weighted({ 4, 7, 1 })) {
        case 0: {   // manual decision
            const QString owner = t.pick<QString>({ "alice@example.org", "bob@example.org", "carol@example.com" });
            QList<QByteArray> auth, dis;
            for (auto &kd : keys()) {
                if (kd.owner != owner)
                    continue;
                switch (t.u(4)) {
                case 0: auth << kd.id; break;
                case 1: dis << kd.id; break;
                default: break;
                }
            }
            history += " | manual(" + q(owner.section(u'@', 0, 0)) + " auth=[" + auth.join(',').toStdString() + "] distrust=[" + dis.join(',').toStdString() + "])";
            // the public API skips keys that are already in the requested state
            QList<QByteArray> a2, d2;
            for (auto &k : auth)
                if (m.level(k) != TrustLevel::Authenticated)
                    a2 << k;
            for (auto &k : dis)
                if (m.level(k) != TrustLevel::ManuallyDistrusted)
                    d2 << k;
            size_t postBefore = size_t(m.post.size());
            QSet<QByteArray> ta, td;
            m.decide(a2, d2, ta, td);
            if (size_t(m.post.size()) < postBefore)
                sawPostponedOutcome = true;
            atm->makeTrustDecisions(ENC, owner, auth, dis);
            break;
        }
        case 1: {   // trust message
            // sender
            int sk = int(t.u(uint32_t(keys().size()) + 2));
            QString senderBare;
            QByteArray senderKey;
            bool noMetadata = false, fromSelfDevice = false;
            if (sk < keys().size()) {
                senderBare = keys()[sk].owner;
                senderKey = keys()[sk].id;
            } else if (sk == keys().size()) {
                senderBare = t.pick<QString>({ "alice@example.org", "bob@example.org" });
                noMetadata = true;
            } else {
                senderBare = QStringLiteral("alice@example.org");
                senderKey = "a1";
                fromSelfDevice = true;
            }
            QString from = fromSelfDevice ? QStringLiteral("alice@example.org/phone") : senderBare + QStringLiteral("/dev") + QString::fromLatin1(senderKey);
            bool rightUsage = !t.prob(1, 8);
            // key owners named in the message
            QList<QXmppTrustMessageKeyOwner> owners;
            std::string named;
            int nOwners = 1 + int(t.u(3));
            QStringList usedOwners;
            for (int i = 0; i < nOwners; i++) {
                QString owner = t.pick<QString>({ "alice@example.org", "bob@example.org", "carol@example.com" });
                if (usedOwners.contains(owner))
                    continue;
                usedOwners << owner;
                QXmppTrustMessageKeyOwner ko;
                ko.setJid(owner);
                QList<QByteArray> tr, di;
                for (auto &kd : keys()) {
                    if (kd.owner != owner)
                        continue;
                    switch (t.u(4)) {
                    case 0: tr << kd.id; break;
                    case 1: di << kd.id; break;
                    default: break;
                    }
                }
                ko.setTrustedKeys(tr);
                ko.setDistrustedKeys(di);
                owners << ko;
                named += " " + q(owner.section(u'@', 0, 0)) + ":+[" + tr.join(',').toStdString() + "]-[" + di.join(',').toStdString() + "]";
            }
            history += " | trust-message(from=" + q(from) + (noMetadata ? ",no-e2ee-metadata" : ",key=" + senderKey.toStdString()) + (rightUsage ? "" : ",wrong-usage") + named + ")";
            // model
            if (rightUsage && !fromSelfDevice) {
                bool senderAuth = !noMetadata && m.level(senderKey) == TrustLevel::Authenticated && ownerOf(senderKey) == senderBare;
                bool own = senderBare == u"alice@example.org";
                QList<QByteArray> a, d;
                for (auto &ko : owners) {
                    bool inScope = own || ko.jid() == senderBare;
                    if (!inScope) {
                        if (!ko.trustedKeys().isEmpty() || !ko.distrustedKeys().isEmpty())
                            sawOutOfScope = true;
                        continue;
                    }
                    if (senderAuth) {
                        a << ko.trustedKeys();
                        d << ko.distrustedKeys();
                    } else {
                        // held back under the sender's key (an absent key can never become authenticated)
                        auto hold = [&](const QByteArray &k, bool trust) {
                            for (auto &p : m.post)
                                if (p.sender == senderKey && p.key == k && p.owner == ko.jid()) {
                                    p.trust = trust;
                                    return;
                                }
                            m.post.push_back({ senderKey, k, ko.jid(), trust });
                        };
                        for (auto &k : ko.trustedKeys())
                            hold(k, true);
                        for (auto &k : ko.distrustedKeys())
                            hold(k, false);
                    }
                }
                for (auto &k : a)
                    if (d.contains(k)) {
                        m.ambiguous = true;
                        m.why = "message names a key as trusted and distrusted";
                    }
                size_t postBefore = size_t(m.post.size());
                QSet<QByteArray> ta, td;
                m.decide(a, d, ta, td);
                if (size_t(m.post.size()) < postBefore)
                    sawPostponedOutcome = true;
            }
            // real thing
            QXmppTrustMessageElement el;
            el.setUsage(rightUsage ? ATM_NS : QStringLiteral("urn:xmpp:other-usage:0"));
            el.setEncryption(ENC);
            el.setKeyOwners(owners);
            QXmppMessage msg;
            msg.setFrom(from);
            msg.setTo(QStringLiteral("alice@example.org/phone"));
            msg.setTrustMessageElement(el);
            if (!noMetadata) {
                QXmppE2eeMetadata md;
                md.setSenderKey(senderKey);
                md.setEncryption(QXmpp::Omemo2);
                msg.setE2eeMetadata(md);
            }
            Q_EMIT client.messageReceived(msg);
            break;
        }
        case 2: {   // a key becomes automatically trusted (what an encryption manager does for new devices)
            auto &kd = keys()[int(t.u(uint32_t(keys().size())))];
            if (m.level(kd.id) == TrustLevel::Undecided || m.level(kd.id) == TrustLevel::AutomaticallyDistrusted) {
                history += " | auto-trust(" + kd.id.toStdString() + ")";
                m.lvl[kd.id] = TrustLevel::AutomaticallyTrusted;
                QMultiHash<QString, QByteArray> mh;
                mh.insert(kd.owner, kd.id);
                atm->setTrustLevel(ENC, mh, TrustLevel::AutomaticallyTrusted);
            }
            break;
        }
        }
        client.pump(1);
        if (m.ambiguous)
            break;
        compare("after step");
    }
    if (m.ambiguous) {
        c.label("discarded:order-dependent (" + m.why.substr(0, 40) + ")");
        return;
    }
    c.label("judged");
    if (sawPostponedOutcome)
        c.label("postponed-decision-fired-or-discarded");
    if (sawOutOfScope)
        c.label("out-of-scope-claim");
    if (sawPostponedOutcome || sawOutOfScope)
        c.nontrivial(vh::fnv(history));
    c.sample([&] { return history; });
}

VH_MAIN()
